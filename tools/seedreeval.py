#!/usr/bin/env python3
"""Re-evaluate the kept seeded changes (/verif/seeded/*/) against the current /repo HEAD and the
current checks.

usage: tools/seedreeval.py [--jobs N] [--only Cxx-n,...] [--tier quick]

For every /verif/seeded/<name>/ (patch.diff, demo.py, meta.json): demo on the unchanged /repo,
then in a scratch worktree of /repo HEAD with the patch applied (plain `git apply`, then
`git apply -3`, then `patch -p1 --fuzz=3` for patches written against an older HEAD): demo,
the repository's tests, and `JV_REPO=<worktree> ./check <pid>` for the property the change was
written for plus every check that caught it before.  meta.json["evaluation"] is rewritten.
Seeds of different properties run in parallel (different .work/<pid> directories); seeds of
the same property run one after the other.  /repo itself is never modified.  Evidence files
written while running against a mutant are NOT evidence: re-run the checks on /repo afterwards."""
import argparse, json, os, pathlib, re, shutil, subprocess, sys, time
from concurrent.futures import ThreadPoolExecutor

V = pathlib.Path(__file__).resolve().parents[1]


def sh(cmd, cwd=None, env=None, timeout=7200):
    e = dict(os.environ)
    if env:
        e.update(env)
    p = subprocess.run(cmd, cwd=cwd, env=e, capture_output=True, text=True, timeout=timeout, shell=isinstance(cmd, str))
    return p.returncode, (p.stdout + p.stderr)


def apply_patch(wt, patch):
    for cmd in (["git", "apply", str(patch)], ["git", "apply", "-3", str(patch)], f"patch -p1 --fuzz=3 --no-backup-if-mismatch < {patch}"):
        sh(["git", "checkout", "--", "."], cwd=wt)
        rc, out = sh(cmd, cwd=wt)
        if rc == 0:
            return True, cmd if isinstance(cmd, str) else " ".join(cmd[:3])
    sh(["git", "checkout", "--", "."], cwd=wt)
    return False, out[-300:]


def evaluate(names, tier):
    """All seeds of one property, sequentially."""
    lines = []
    for name in names:
        d = V / "seeded" / name
        meta = json.loads((d / "meta.json").read_text())
        pid = meta.get("breaks_property") or name.split("-")[0]
        old = meta.get("evaluation", {})
        checks = [pid] + sorted({re.search(r"check (C\d+)", c).group(1) for c in old.get("caught_by", []) if re.search(r"check (C\d+)", c)} - {pid})
        also = [c for c in meta.get("also_run", []) if c not in checks]
        checks += also
        rec = {"name": name, "property": pid, "ran": [], "repo_head": sh(["git", "-C", "/repo", "rev-parse", "--short", "HEAD"])[1].strip()}
        rc, _ = sh(["/venv/bin/python", str(d / "demo.py")], env={"PYTHONPATH": "/repo/src"}, timeout=900)
        rec["demo_on_clean_tree"] = rc
        wt = f"/tmp/se-{name}"
        sh(["git", "-C", "/repo", "worktree", "remove", "--force", wt])
        sh(["git", "-C", "/repo", "worktree", "add", "--detach", wt, "HEAD"])
        try:
            ok, how = apply_patch(wt, d / "patch.diff")
            rec["applies"] = ok
            rec["applied_with"] = how
            if ok:
                rc, _ = sh(["/venv/bin/python", str(d / "demo.py")], env={"PYTHONPATH": f"{wt}/src"}, timeout=900)
                rec["demo_on_patched_tree"] = rc
                rc, out = sh("/venv/bin/python -m pytest -q -p no:cacheprovider -x tests 2>&1 | tail -3", cwd=wt,
                             env={"PYTHONPATH": f"{wt}/src"}, timeout=1800)
                rec["repo_tests_pass_with_patch"] = " passed" in out and "failed" not in out
                for c in checks:
                    t0 = time.time()
                    rc, out = sh([str(V / "check"), c, "--tier", tier], cwd=V, env={"JV_REPO": wt})
                    viol = [l for l in out.splitlines() if l.startswith("VIOLATION")]
                    rec["ran"].append({"check": f"./check {c} --tier {tier}", "exit": rc, "violations_reported": len(viol),
                                       "wall_s": round(time.time() - t0, 1),
                                       "first": next((l.strip()[:300] for l in out.splitlines() if l.startswith("  ")), "")})
                rec["valid_seed"] = rec["demo_on_clean_tree"] == 0 and rec["demo_on_patched_tree"] != 0 and rec["repo_tests_pass_with_patch"]
                rec["caught_by"] = [r["check"] for r in rec["ran"] if r["exit"] == 1]
            else:
                rec["valid_seed"] = False
                rec["caught_by"] = []
        finally:
            sh(["git", "-C", "/repo", "worktree", "remove", "--force", wt])
        meta["evaluation"] = rec
        (d / "meta.json").write_text(json.dumps(meta, indent=1))
        line = (f"{name}: applies={rec['applies']} valid={rec['valid_seed']} demo clean={rec.get('demo_on_clean_tree')} "
                f"patched={rec.get('demo_on_patched_tree')} tests_pass={rec.get('repo_tests_pass_with_patch')} caught_by={rec['caught_by']}")
        print(line, flush=True)
        lines.append(line)
    return lines


def main():
    ap = argparse.ArgumentParser()
    ap.add_argument("--jobs", type=int, default=3)
    ap.add_argument("--only", default="")
    ap.add_argument("--tier", default="quick")
    a = ap.parse_args()
    names = sorted(p.name for p in (V / "seeded").iterdir() if p.is_dir() and (p / "patch.diff").exists())
    if a.only:
        names = [n for n in names if n in a.only.split(",")]
    groups = {}
    for n in names:
        meta = json.loads((V / "seeded" / n / "meta.json").read_text())
        old = meta.get("evaluation", {})
        # seeds whose evaluation touches the same check directories must not overlap
        key = frozenset([n.split("-")[0]] + [m.group(1) for c in old.get("caught_by", []) for m in [re.search(r"check (C\d+)", c)] if m]
                        + list(meta.get("also_run", [])))
        groups.setdefault(n.split("-")[0], []).append((n, key))
    # merge groups that share a check
    merged = []
    for pid, items in groups.items():
        keys = frozenset().union(*[k for _, k in items])
        for m in merged:
            if m[0] & keys:
                m[0] |= keys
                m[1].extend(n for n, _ in items)
                break
        else:
            merged.append([set(keys), [n for n, _ in items]])
    with ThreadPoolExecutor(max_workers=a.jobs) as ex:
        list(ex.map(lambda m: evaluate(m[1], a.tier), merged))
    return 0


if __name__ == "__main__":
    sys.exit(main())
