#!/usr/bin/env python3
"""Validate MANIFEST.json and all evidence files against the given schemas (run with python3-vt)."""
import json, sys, pathlib, jsonschema
V = pathlib.Path(__file__).resolve().parents[1]
jsonschema.validate(json.load(open(V / "MANIFEST.json")), json.load(open("/root/.vp/MANIFEST.schema.json")))
es = json.load(open("/root/.vp/EVIDENCE.schema.json"))
n = 0
for f in sorted((V / "evidence").glob("*.json")):
    jsonschema.validate(json.load(open(f)), es); n += 1
print(f"MANIFEST ok, {n} evidence files ok")
