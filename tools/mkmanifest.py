#!/usr/bin/env python3
"""Builds /verif/MANIFEST.json from manifest.d/Cxx.json fragments.
Properties without a fragment are listed under not_applicable with the reason
given in manifest.d/not_applicable.json (default: not yet bound)."""
import json
import pathlib

V = pathlib.Path(__file__).resolve().parents[1]
props = [json.loads(l) for l in (V / "properties.jsonl").read_text().splitlines() if l.strip()]
na_reasons = json.loads((V / "manifest.d" / "not_applicable.json").read_text())
checks, na, engines = [], [], {}
for p in props:
    pid = p["id"]
    f = V / "manifest.d" / f"{pid}.json"
    enabled = (V / "manifest.d" / "ENABLED").read_text().split()
    if not f.exists() or pid not in enabled:
        na.append({"property_id": pid, "reason": na_reasons.get(pid, na_reasons["default"])})
        continue
    frag = json.loads(f.read_text())
    checks.append({
        "property_id": pid,
        "quick_cmd": f"./check {pid} --tier quick",
        "thorough_cmd": f"./check {pid} --tier thorough",
        "evidence_file": f"/verif/evidence/{pid}.json",
        "replay_cmd_template": f"./check {pid} --replay {{path}}",
        "engine": "tlc",
        "level_claimed": {"category": "model_checking", "text": frag["text"], "design_ref": frag.get("design_ref", f"DESIGN.md §4 {pid}")},
        "level_note": frag["level_note"],
        "technique": frag["technique"],
    })
    for s in frag.get("specs", []):
        engines.setdefault(s, []).append(pid)
m = {
    "version": 1,
    "setup_cmd": "./setup.sh",
    "hooks": {
        "guard": "JINJA2_VERIF",
        "enable": "no source hooks are used: checks import jinja2 from /repo/src (PYTHONPATH) and observe it through public extension points and harness-side wrappers",
        "baseline_off_cmd": "cd /repo && /venv/bin/python -m pytest -ra -q -p no:cacheprovider --timeout=900 --continue-on-collection-errors",
        "source_commits": [],
        "add_only": True,
    },
    "engines": [{"name": s, "path": f"spec/{s}.tla", "serves_properties": sorted(set(v)),
                 "kind_free_text": "TLA+ specification checked with TLC and bound to jinja2 by replay / trace validation"}
                for s, v in sorted(engines.items())],
    "checks": checks,
    "not_applicable": na,
    "notes": "Model-based verification with explicit TLA+ specifications (see DESIGN.md). "
             "Genuine defects repaired in /repo are recorded in known_findings.json (status fixed).",
}
(V / "MANIFEST.json").write_text(json.dumps(m, indent=1) + "\n")
print(f"MANIFEST.json: {len(checks)} checks, {len(na)} not_applicable")

# known_findings.json is generated from findings.d/*.json; fixes/APPLIED.json maps finding ids to the
# /repo commit that repaired them (such entries become status=fixed and suppress nothing)
applied = json.loads((V / "fixes" / "APPLIED.json").read_text())
out, have = [], set()
for f in sorted((V / "findings.d").glob("*.json")):
    for e in json.loads(f.read_text()):
        if e["id"] in have:
            continue
        have.add(e["id"])
        if e["id"] in applied and e.get("status") != "fixed":
            e = dict(e, status="fixed", commit=applied[e["id"]],
                     line=f"fixed: property={e['property']} {applied[e['id']]} {e['description']}")
        out.append(e)
kf = {"_comment": "Genuine defects of pallets/jinja found by the checks (generated from findings.d/ by tools/mkmanifest.py). "
                  "status=open entries suppress exactly the violations whose fingerprint they match (printed as KNOWN-FINDING); "
                  "status=fixed entries suppress nothing. Never written at run time.",
      "findings": out}
(V / "known_findings.json").write_text(json.dumps(kf, indent=1, ensure_ascii=False) + "\n")
print(f"known_findings.json: {len(out)} entries, {sum(1 for e in out if e['status'] == 'open')} open")
