#!/bin/sh
# tools/sweep.sh <seed> [tier]: run every claimed check once on the unchanged tree with VERIF_SEED=<seed>;
# prints one line per check (exit code, wall seconds) - used to flush out seed-dependent false alarms.
cd "$(dirname "$0")/.."
SEED="${1:-0}"; TIER="${2:-quick}"
for p in $(cat manifest.d/ENABLED); do
  s=$(date +%s)
  VERIF_SEED=$SEED ./check $p --tier $TIER > .work/sweep_$p.log 2>&1
  rc=$?
  e=$(date +%s)
  echo "$p seed=$SEED exit=$rc wall=$((e-s))s $(grep -c '^VIOLATION' .work/sweep_$p.log) violations $(grep -c '^KNOWN-FINDING' .work/sweep_$p.log) known"
done
