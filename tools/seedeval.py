#!/usr/bin/env python3
"""Evaluate seeded changes produced by independent sub-agents.

usage: tools/seedeval.py Cxx /tmp/seed-Cxx [--also Cyy,Czz] [--tier quick]

For every /tmp/seed-Cxx/seed/<n>/ (patch.diff, demo.py, meta.json):
  1. demo.py must exit 0 on the unchanged /repo;
  2. in a scratch worktree of /repo with the patch applied: demo.py must exit non-zero and the
     repository's own test-suite must still pass;
  3. `JV_REPO=<worktree> ./check Cxx --tier quick` is run (and the checks named by --also);
  4. the change is kept as /verif/seeded/Cxx-<n>/ with meta.json extended by what was run and
     which checks reported VIOLATION.
The scratch worktree is removed afterwards; /repo is never modified."""
import argparse, json, os, pathlib, shutil, subprocess, sys, time

V = pathlib.Path(__file__).resolve().parents[1]


def sh(cmd, cwd=None, env=None, timeout=3600):
    e = dict(os.environ)
    if env:
        e.update(env)
    p = subprocess.run(cmd, cwd=cwd, env=e, capture_output=True, text=True, timeout=timeout, shell=isinstance(cmd, str))
    return p.returncode, (p.stdout + p.stderr)


def main():
    ap = argparse.ArgumentParser()
    ap.add_argument("pid")
    ap.add_argument("seeddir")
    ap.add_argument("--also", default="")
    ap.add_argument("--tier", default="quick")
    ap.add_argument("--only", default="")
    a = ap.parse_args()
    base = pathlib.Path(a.seeddir) / "seed"
    results = []
    for sd in sorted(p for p in base.iterdir() if p.is_dir()):
        if a.only and sd.name != a.only:
            continue
        name = f"{a.pid}-{sd.name}"
        patch, demo = sd / "patch.diff", sd / "demo.py"
        if not patch.exists() or not demo.exists():
            print(f"{name}: incomplete (no patch.diff / demo.py)")
            continue
        meta = json.loads((sd / "meta.json").read_text()) if (sd / "meta.json").exists() else {}
        rec = {"name": name, "property": a.pid, "ran": []}
        rc, out = sh(["/venv/bin/python", str(demo)], env={"PYTHONPATH": "/repo/src"}, timeout=600)
        rec["demo_on_clean_tree"] = rc
        wt = f"/tmp/se-{name}"
        sh(["git", "-C", "/repo", "worktree", "remove", "--force", wt])
        rc, out = sh(["git", "-C", "/repo", "worktree", "add", "--detach", wt, "HEAD"])
        try:
            rc, out = sh(["git", "apply", str(patch)], cwd=wt)
            if rc != 0:
                print(f"{name}: patch does not apply: {out[-300:]}")
                rec["applies"] = False
                results.append(rec)
                continue
            rec["applies"] = True
            rc, out = sh(["/venv/bin/python", str(demo)], env={"PYTHONPATH": f"{wt}/src"}, timeout=600)
            rec["demo_on_patched_tree"] = rc
            rc, out = sh("/venv/bin/python -m pytest -q -p no:cacheprovider -x tests 2>&1 | tail -3", cwd=wt,
                         env={"PYTHONPATH": f"{wt}/src"}, timeout=1200)
            rec["repo_tests_pass_with_patch"] = " passed" in out and "failed" not in out
            rec["repo_tests_tail"] = out.strip().splitlines()[-1] if out.strip() else ""
            checks = [a.pid] + [c for c in a.also.split(",") if c]
            for c in checks:
                t0 = time.time()
                rc, out = sh([str(V / "check"), c, "--tier", a.tier], cwd=V, env={"JV_REPO": wt}, timeout=7200)
                viol = [l for l in out.splitlines() if l.startswith("VIOLATION")]
                rec["ran"].append({"check": f"./check {c} --tier {a.tier}", "exit": rc, "violations_reported": len(viol),
                                   "wall_s": round(time.time() - t0, 1),
                                   "first": next((l.strip()[:300] for l in out.splitlines() if l.startswith("  ")), "")})
                print(f"{name}: check {c} exit={rc} violations={len(viol)} ({round(time.time()-t0)}s)")
            valid = rec["demo_on_clean_tree"] == 0 and rec["demo_on_patched_tree"] != 0 and rec["repo_tests_pass_with_patch"]
            rec["valid_seed"] = valid
            rec["caught_by"] = [r["check"] for r in rec["ran"] if r["exit"] == 1]
            dest = V / "seeded" / name
            if valid:
                dest.mkdir(parents=True, exist_ok=True)
                shutil.copy(patch, dest / "patch.diff")
                shutil.copy(demo, dest / "demo.py")
                meta.update({"breaks_property": a.pid, "evaluation": rec})
                (dest / "meta.json").write_text(json.dumps(meta, indent=1))
            print(f"{name}: valid={valid} demo clean={rec['demo_on_clean_tree']} patched={rec['demo_on_patched_tree']} "
                  f"tests_pass={rec['repo_tests_pass_with_patch']} caught_by={rec['caught_by']}")
        finally:
            sh(["git", "-C", "/repo", "worktree", "remove", "--force", wt])
            # replays written while running against the mutant are not evidence
        results.append(rec)
    return 0


if __name__ == "__main__":
    sys.exit(main())
