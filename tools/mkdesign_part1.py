#!/usr/bin/env python3
"""Regenerates the two generated tables of DESIGN.md Part I (per-property summary, findings)
between the markers <!-- GEN:props --> / <!-- GEN:findings --> ... <!-- /GEN -->."""
import json, pathlib, re
V = pathlib.Path(__file__).resolve().parents[1]
kf = json.loads((V / 'known_findings.json').read_text())['findings']
frags = {p.stem: json.loads(p.read_text()) for p in sorted((V / 'manifest.d').glob('C*.json'))}
rows = ["| id | specs | deciding method |", "|---|---|---|"]
for pid, f in frags.items():
    rows.append("| %s | %s | %s |" % (pid, ", ".join(f["specs"]), f["technique"].replace("|", "/")))
fr = ["| id | property | status | failing input / description |", "|---|---|---|---|"]
for e in kf:
    st = e["status"] + ((" " + e["commit"]) if e.get("commit") else "")
    fr.append("| %s | %s | %s | %s |" % (e["id"], e["property"], st, e["description"][:300].replace("|", "/").replace("\n", " ")))
d = (V / 'DESIGN.md').read_text()
d = re.sub(r"<!-- GEN:props -->.*?<!-- /GEN -->", lambda m: "<!-- GEN:props -->\n" + "\n".join(rows) + "\n<!-- /GEN -->", d, flags=re.S)
d = re.sub(r"<!-- GEN:findings -->.*?<!-- /GEN -->", lambda m: "<!-- GEN:findings -->\n" + "\n".join(fr) + "\n<!-- /GEN -->", d, flags=re.S)
sr = ["| seed | property | change (written by an independent sub-agent from the property text only) | needs | reported by |", "|---|---|---|---|---|"]
for sd in sorted((V / 'seeded').glob('*/meta.json')):
    m = json.loads(sd.read_text())
    ev = m.get("evaluation", {})
    caught = ", ".join(c.replace("./check ", "").replace(" --tier quick", "") for c in ev.get("caught_by", [])) or "**not caught (quick tier)**"
    sr.append("| %s | %s | %s | %s | %s |" % (sd.parent.name, m.get("breaks_property", ""), str(m.get("summary", ""))[:260].replace("|", "/").replace("\n", " "),
                                           str(m.get("needs", ""))[:200].replace("|", "/").replace("\n", " "), caught))
d = re.sub(r"<!-- GEN:seeded -->.*?<!-- /GEN -->", lambda m_: "<!-- GEN:seeded -->\n" + "\n".join(sr) + "\n<!-- /GEN -->", d, flags=re.S)
(V / 'DESIGN.md').write_text(d)
print("seeded table:", len(sr) - 2, "entries")
print("DESIGN.md tables regenerated:", len(rows) - 2, "properties,", len(fr) - 2, "findings")
