--------------------------- MODULE SandboxDataMC ---------------------------
(***************************************************************************)
(* Exports every (kind, method, state, arguments) case of SandboxData with *)
(* the set of states the call may leave, for replay on real CPython        *)
(* containers, and the derived classification Mutators(kind).              *)
(***************************************************************************)
EXTENDS SandboxData, Json

VARIABLES case, done

AllCases ==
    UNION {{[k |-> kind, m |-> m, s |-> s, a |-> a] :
               s \in States(kind), a \in Args(kind, m)} :
           <<kind, m>> \in {<<kk, mm>> \in ContainerKinds \X
                               UNION {Methods(k2) : k2 \in ContainerKinds} : mm \in Methods(kk)}}

Init == case \in AllCases /\ done = FALSE

Emit ==
    /\ ~done
    /\ done' = TRUE
    /\ UNCHANGED case
    /\ PrintT(ToJson([k |-> case.k, m |-> case.m,
                      s |-> EncState(case.k, case.s),
                      tags |-> ArgTags(case.k, case.m),
                      a |-> EncArgs(case.k, case.m, case.a),
                      r |-> {EncState(case.k, x) : x \in EffectSet(case.k, case.m, case.s, case.a)},
                      mut |-> (case.m \in Mutators(case.k))]))

Next == Emit
Spec == Init /\ [][Next]_<<case, done>>

\* a method classified non-mutating never changes any explored state
C19_ClassificationSound ==
    case.m \notin Mutators(case.k) => EffectSet(case.k, case.m, case.s, case.a) = {case.s}

\* the classification, printed once
ASSUME PrintT(ToJson([mutators |-> [kind \in ContainerKinds |-> Mutators(kind)],
                      methods |-> [kind \in ContainerKinds |-> Methods(kind)],
                      dataattrs |-> [kind \in ContainerKinds |-> DataAttrs(kind)]]))
=============================================================================
