------------------------------- MODULE Jinja -------------------------------
(***************************************************************************)
(* Abstract interpreter of the Jinja template language: the documented     *)
(* semantics of expressions, statements, scoping, macros, loops, template  *)
(* inheritance, include / import, autoescaping and undefined values,       *)
(* written independently of the compiler (no symbol analysis, no code      *)
(* generation, no constant folding, no async).                             *)
(*                                                                         *)
(* Programs are abstract syntax given as JSON (IOEnv.CASES_FILE): a case   *)
(* is a set of templates, a main template, an environment configuration    *)
(* and a list of data assignments.  The state machine renders every        *)
(* (case, data) pair: one action per top-level statement of the main       *)
(* template (StepTop), one for the parent template after `extends`         *)
(* (StepParent), and Finish which publishes the observable result.         *)
(* Everything below a top-level statement is evaluated by the recursive    *)
(* operators Ev (expressions) and Ex (statements) which thread the         *)
(* interpreter state S:                                                    *)
(*   fr   heap of scope frames (name -> value); a `set` writes the         *)
(*        innermost frame; macros capture their scope chain by reference   *)
(*   ns   heap of namespace objects                                        *)
(*   cx   heap of render contexts [vars (frame id), parent, exported,      *)
(*        blocks (name -> stack of block definitions, most derived first), *)
(*        par (parent template after extends or ""), tpl]                  *)
(*   out  output buffer (sequence of text segments, see JValues)           *)
(*   log  interaction log: context lookups, template loads, data calls     *)
(*   err  "" or the class of the raised error                              *)
(*   flow "" | "break" | "continue"                                        *)
(*   mods default-module cache (template name -> module value)             *)
(***************************************************************************)
EXTENDS JValues, Json, IOUtils

Cases == JsonDeserialize(IOEnv.CASES_FILE)

VARIABLES cid, did, phase, S, todo, rootcx, result, npass, first

vars == <<cid, did, phase, S, todo, rootcx, result, npass, first>>

Has(r, f) == f \in DOMAIN r
Fld(r, f, d) == IF f \in DOMAIN r THEN r[f] ELSE d

EmptyMap == [x \in {} |-> VNone]
MapSet(m, k, v) == (k :> v) @@ m
MapHas(m, k) == k \in DOMAIN m

RECURSIVE SetToSortedSeq(_)
SetToSortedSeq(ss) == IF ss = {} THEN <<>>
                      ELSE LET m == CHOOSE x \in ss : \A y \in ss : x <= y IN <<m>> \o SetToSortedSeq(ss \ {m})

RECURSIVE MapFromSeqs(_, _)
MapFromSeqs(ks, vs) == IF ks = <<>> THEN EmptyMap ELSE MapSet(MapFromSeqs(Tail(ks), Tail(vs)), Head(ks), Head(vs))

\* evaluation result: value + state
R(v, s) == [v |-> v, S |-> s]
Fail(s, c) == [v |-> VNone, S |-> IF s.err = "" THEN [s EXCEPT !.err = c] ELSE s]
Bad(r) == r.S.err # ""
Lift(res, s) == IF res.ok THEN R(res.v, s) ELSE Fail(s, res.err)
Log(s, e) == [s EXCEPT !.log = Append(@, e)]

(* -- configuration of the current case ----------------------------------------- *)
Case == Cases[cid]
Cfg == Case.cfg
UK == Cfg.undefined            \* "default" | "chainable" | "strict" | "debug"
Tpls == Case.tpls               \* record: template name -> [body, auto]
HasTpl(n) == n \in DOMAIN Tpls

(* -- heap helpers ----------------------------------------------------------------- *)
NewFrame(s, m) == [s EXCEPT !.fr = Append(@, m)]
LastFrame(s) == Len(s.fr)
SetVar(s, f, n, v) == [s EXCEPT !.fr[f] = MapSet(@, n, v)]

NewCtx(s, c) == [s EXCEPT !.cx = Append(@, c)]
LastCtx(s) == Len(s.cx)

\* -- the two autoescape modes ---------------------------------------------------------------
\* Every piece of template code has a LEXICAL mode, fixed when it is compiled: the template's own
\* setting (select_autoescape by name), overridden inside {% autoescape <constant> %}; inside
\* {% autoescape <expression> %} the code is "volatile" and asks the DYNAMIC mode each time.
\* The dynamic mode belongs to a render context (context.eval_ctx; a derived context of a scoped
\* block shares it with its origin: field ev): it starts as the setting of the template the
\* context was made for and an autoescape block sets it for the duration of its body.  What
\* the lexical mode decides: escaping of {{ }} output, ~, and whether a captured set / filter
\* block is Markup.  What the dynamic mode decides: whether the result of a macro call, caller(),
\* super() or self.block() is Markup (the mode of the CALLING context), and what the filters that
\* take the eval context (join ...) see.
DA(s, c) == s.cx[s.cx[c].ev].da
SetDA(s, c, b) == [s EXCEPT !.cx[s.cx[c].ev].da = b]
Mode(E, s) == IF E.vol THEN DA(s, E.cx) ELSE E.auto
\* what a statement writes while its mode is off is written with autoescaping disabled, which the
\* property counts as the template marking it safe: data and literal segments change their origin
\* tag so that C15_NoLeak can tell them from segments that escaped escaping
OffTag(segs) == [i \in 1..Len(segs) |-> IF segs[i].o \in {"data", "lit"} THEN [segs[i] EXCEPT !.o = "off-" \o @] ELSE segs[i]]
Written(segs, mode) == IF mode THEN segs ELSE OffTag(segs)

\* name lookup: scope chain (innermost first), then the context's own variables,
\* then the context's parent (render arguments and globals); else undefined
\* Predeclare (a deliberate, named deviation that models the implementation): a name that a
\* scope level assigns is a local of that level from the moment the level is entered; when
\* nothing outside refers to it, it starts out MISSING and nested scopes reading it before the
\* assignment get an undefined value instead of the context's value.  The sets of such names
\* (`pre`) are syntactic facts supplied with the program.  With Cfg.predeclare = FALSE the
\* interpreter is the plain dynamic-lookup reading of the documented scoping rules.
VMissing == [t |-> "missing"]
PreMap(node, f) == IF Cfg.predeclare /\ f \in DOMAIN node
                   THEN [n \in {node[f][i] : i \in 1..Len(node[f])} |-> VMissing] ELSE EmptyMap

RECURSIVE LookupChain(_, _, _)
LookupChain(s, sc, n) ==
    IF sc = <<>> THEN [found |-> FALSE, v |-> VNone]
    ELSE IF MapHas(s.fr[Head(sc)], n) THEN
         (IF s.fr[Head(sc)][n].t = "missing" THEN [found |-> TRUE, v |-> VUndef([k |-> "name", n |-> n])]
          ELSE [found |-> TRUE, v |-> s.fr[Head(sc)][n]])
    ELSE LookupChain(s, Tail(sc), n)

Live(m) == [n \in {x \in DOMAIN m : m[x].t # "missing"} |-> m[n]]

CtxGet(s, c, n) ==
    LET cx == s.cx[c] IN
    IF MapHas(s.fr[cx.vars], n) /\ s.fr[cx.vars][n].t # "missing" THEN [found |-> TRUE, v |-> s.fr[cx.vars][n]]
    ELSE IF MapHas(cx.parent, n) THEN [found |-> TRUE, v |-> cx.parent[n]]
    ELSE [found |-> FALSE, v |-> VNone]

Lookup(s, E, n) ==
    LET l == LookupChain(s, E.sc, n) IN
    IF l.found THEN R(l.v, s)
    ELSE LET c == CtxGet(s, E.cx, n)
             s2 == Log(s, <<"resolve", E.tpl, n>>) IN
         IF c.found THEN R(c.v, s2) ELSE R(VUndef([k |-> "name", n |-> n]), s2)

\* all names visible from a scope chain, innermost winning (for include/import with context)
RECURSIVE FlattenChain(_, _)
FlattenChain(s, sc) ==
    IF sc = <<>> THEN EmptyMap ELSE Live(s.fr[Head(sc)]) @@ FlattenChain(s, Tail(sc))
CtxAll(s, c) == Live(s.fr[s.cx[c].vars]) @@ s.cx[c].parent
Visible(s, E) == FlattenChain(s, E.sc) @@ CtxAll(s, E.cx)

(* -- attribute / item access on data ------------------------------------------------ *)
Objs == Case.objs      \* record: object id -> [attrs: record, items: record]

DictGet(d, key) ==
    LET idx == {i \in 1..Len(d.k) : PyEq(d.k[i], key) = "T"} IN
    IF idx = {} THEN [found |-> FALSE, v |-> VNone]
    ELSE [found |-> TRUE, v |-> d.v[CHOOSE i \in idx : TRUE]]

RECURSIVE MkDict(_, _, _, _)
MkDict(ks, vs, accK, accV) ==
    IF ks = <<>> THEN Ok(VDict(accK, accV))
    ELSE LET k == Head(ks) IN
         IF ~Hashable(k) THEN Err("TypeError")
         ELSE IF k.t = "undef" /\ UKof(k, UK) = "strict" THEN Err("UndefinedError")      \* hash(StrictUndefined)
         ELSE IF HasUndef(k) /\ UK = "strict" THEN Err("EXCLUDED")
         ELSE LET eqs == [i \in 1..Len(accK) |-> PyEq(accK[i], k)] IN
              IF \E i \in 1..Len(accK) : eqs[i] = "?" THEN Err("EXCLUDED")
              ELSE IF \E i \in 1..Len(accK) : eqs[i] = "T"
                   THEN LET i == CHOOSE i \in 1..Len(accK) : eqs[i] = "T" IN
                        MkDict(Tail(ks), Tail(vs), accK, [accV EXCEPT ![i] = Head(vs)])
                   ELSE MkDict(Tail(ks), Tail(vs), Append(accK, k), Append(accV, Head(vs)))

StrKey(n) == VStr(<<Seg(n, 0, "lit")>>, FALSE)
KeyName(v) == IF v.t = "str" /\ PlainText(v.s) THEN TextOf(v.s) ELSE "?"

LoopAttrs == {"index", "index0", "revindex", "revindex0", "first", "last", "length",
              "previtem", "nextitem", "depth", "depth0"}
LoopAttr(l, a) ==
    CASE a = "index" -> VInt(l.i + 1)
      [] a = "index0" -> VInt(l.i)
      [] a = "revindex" -> VInt(Len(l.items) - l.i)
      [] a = "revindex0" -> VInt(Len(l.items) - l.i - 1)
      [] a = "first" -> VBool(l.i = 0)
      [] a = "last" -> VBool(l.i = Len(l.items) - 1)
      [] a = "length" -> VInt(Len(l.items))
      [] a = "previtem" -> IF l.i = 0 THEN VUndef([k |-> "hint", n |-> "there is no previous item"])
                           ELSE l.items[l.i]
      [] a = "nextitem" -> IF l.i = Len(l.items) - 1 THEN VUndef([k |-> "hint", n |-> "there is no next item"])
                           ELSE l.items[l.i + 2]
      [] a = "depth" -> VInt(l.depth0 + 1)
      [] a = "depth0" -> VInt(l.depth0)

\* what a raising attribute / item fetch raises: the data's own exception (C38), or the error that ends a lazy stream
RaiserErr(r) == IF "err" \in DOMAIN r THEN r.err ELSE "Raised:" \o r.id

\* python-level attribute of a value (what getattr would find), names known to the model
PyAttr(s, v, a) ==
    CASE v.t = "obj" -> IF MapHas(Objs[v.id].attrs, a) THEN [found |-> TRUE, v |-> Objs[v.id].attrs[a]]
                        ELSE [found |-> FALSE, v |-> VNone]
      [] v.t = "ns" -> IF MapHas(s.ns[v.id], a) THEN [found |-> TRUE, v |-> s.ns[v.id][a]]
                       ELSE [found |-> FALSE, v |-> VNone]
      \* C38: a loop over an iterable whose step number fk raises: attributes that need the whole sequence consume
      \* it (and raise); those that look one item ahead raise when that item is the faulty step
      [] v.t = "loop" /\ "fk" \in DOMAIN v /\ (a \in {"length", "revindex", "revindex0"}
                                               \/ (a \in {"last", "nextitem"} /\ v.i + 2 = v.fk)) ->
           [found |-> TRUE, v |-> IF "ferr" \in DOMAIN v THEN [t |-> "raiser", exc |-> "Private", id |-> "", err |-> v.ferr]
                                  ELSE [t |-> "raiser", exc |-> "Private", id |-> v.fid]]
      [] v.t = "loop" -> IF a \in LoopAttrs THEN [found |-> TRUE, v |-> LoopAttr(v, a)]
                         ELSE IF a = "cycle" THEN [found |-> TRUE, v |-> [t |-> "loopcycle", l |-> v]]
                         ELSE IF a = "changed" THEN [found |-> TRUE, v |-> [t |-> "loopchanged", l |-> v]]
                         ELSE [found |-> FALSE, v |-> VNone]
      \* the attribute (a bound method) exists whatever keys the dict holds: d.items is the method even when
      \* d has a key "items" (subscript syntax tries the key first, see GetItem)
      [] v.t = "dict" -> IF a \in {"items", "keys", "values", "get"}
                         THEN [found |-> TRUE, v |-> [t |-> "dictm", d |-> v, m |-> a]]
                         ELSE [found |-> FALSE, v |-> VNone]
      [] v.t = "cycler" -> IF a = "current" THEN [found |-> TRUE, v |-> s.ns[v.id]["items"].v[s.ns[v.id]["pos"].n + 1]]
                           ELSE IF a \in {"next", "reset"} THEN [found |-> TRUE, v |-> [t |-> "cyclerm", id |-> v.id, m |-> a]]
                           ELSE [found |-> FALSE, v |-> VNone]
      [] v.t = "module" -> IF MapHas(v.attrs, a) THEN [found |-> TRUE, v |-> v.attrs[a]]
                           ELSE [found |-> FALSE, v |-> VNone]
      [] v.t = "tref" -> IF MapHas(s.cx[v.cx].blocks, a)
                         THEN [found |-> TRUE, v |-> [t |-> "bref", name |-> a, cx |-> v.cx, idx |-> 1]]
                         ELSE [found |-> FALSE, v |-> VNone]
      [] v.t = "bref" -> IF a = "super"
                         THEN [found |-> TRUE,
                               v |-> IF v.idx + 1 <= Len(s.cx[v.cx].blocks[v.name])
                                     THEN [v EXCEPT !.idx = @ + 1]
                                     ELSE VUndef([k |-> "hint", n |-> "there is no parent block called " \o v.name])]
                         ELSE [found |-> FALSE, v |-> VNone]
      [] OTHER -> [found |-> FALSE, v |-> VNone]

PyItem(s, v, key) ==
    CASE v.t = "dict" -> IF Hashable(key) THEN DictGet(v, key) ELSE [found |-> FALSE, v |-> VNone]
      [] v.t = "list" /\ ~IsView(v) ->
           IF key.t = "int" THEN
               LET n == Len(v.v)
                   i == IF key.n < 0 THEN n + key.n + 1 ELSE key.n + 1 IN
               IF i >= 1 /\ i <= n THEN [found |-> TRUE, v |-> v.v[i]] ELSE [found |-> FALSE, v |-> VNone]
           ELSE [found |-> FALSE, v |-> VNone]
      [] v.t = "obj" -> IF KeyName(key) # "?" /\ MapHas(Objs[v.id].items, KeyName(key))
                        THEN [found |-> TRUE, v |-> Objs[v.id].items[KeyName(key)]]
                        ELSE [found |-> FALSE, v |-> VNone]
      [] OTHER -> [found |-> FALSE, v |-> VNone]

\* values on which the model knows every attribute / item (others: EXCLUDED when missing)
ClosedAttrs(v) == v.t \in {"obj", "ns", "loop", "module", "tref", "bref", "none", "int", "bool", "cycler", "float"}

UndefAttr(v, a) == VUndef([k |-> "attr", n |-> a, o |-> v.t])

\* obj.attr  : attribute first, then item                     (documented)
\* obj[key]  : item first, then attribute (string keys only)  (documented)
GetAttr(s, v, a) ==
    IF v.t = "undef" THEN
        IF UKof(v, UK) = "chainable" THEN R(v, s) ELSE Fail(s, "UndefinedError")
    ELSE LET pa0 == PyAttr(s, v, a)
             \* C38: an attribute whose fetch raises AttributeError counts as missing (then the item
             \* is tried); any other exception propagates unchanged
             pa == IF pa0.found /\ pa0.v.t = "raiser" /\ pa0.v.exc = "AttributeError"
                   THEN [found |-> FALSE, v |-> VNone] ELSE pa0 IN
         IF pa.found /\ pa.v.t = "raiser" THEN Fail(s, RaiserErr(pa.v))
         ELSE IF pa.found THEN R(pa.v, s)
         ELSE LET pi0 == PyItem(s, v, StrKey(a))
                  pi == IF pi0.found /\ pi0.v.t = "raiser" /\ pi0.v.exc \in {"KeyError", "IndexError", "TypeError", "AttributeError"}
                        THEN [found |-> FALSE, v |-> VNone] ELSE pi0 IN
              IF pi.found /\ pi.v.t = "raiser" THEN Fail(s, RaiserErr(pi.v))
              ELSE IF pi.found THEN R(pi.v, s)
              ELSE IF v.t \in {"dict", "list", "str"} THEN Fail(s, "EXCLUDED")   \* other builtin methods: not modelled
              ELSE IF ClosedAttrs(v) THEN R(UndefAttr(v, a), s)
              ELSE Fail(s, "EXCLUDED")

GetItem(s, v, key) ==
    IF v.t = "undef" THEN
        IF UKof(v, UK) = "chainable" THEN R(v, s) ELSE Fail(s, "UndefinedError")
    ELSE IF IsView(v) THEN Fail(s, "EXCLUDED")
    ELSE IF key.t = "undef" /\ v.t \in {"dict", "list", "obj"} THEN
         \* an undefined key is just a key that is not found (hashable, equal only to undefined)
         R(UndefAttr(v, "?"), s)
    ELSE LET pi0 == PyItem(s, v, key)
             \* C38: LookupError / TypeError / AttributeError from the item fetch mean "no such item"
             pi == IF pi0.found /\ pi0.v.t = "raiser" /\ pi0.v.exc \in {"KeyError", "IndexError", "TypeError", "AttributeError"}
                   THEN [found |-> FALSE, v |-> VNone] ELSE pi0 IN
         IF pi.found /\ pi.v.t = "raiser" THEN Fail(s, RaiserErr(pi.v))
         ELSE IF pi.found THEN R(pi.v, s)
         ELSE IF KeyName(key) # "?" THEN
              LET pa0 == PyAttr(s, v, KeyName(key))
                  pa == IF pa0.found /\ pa0.v.t = "raiser" /\ pa0.v.exc = "AttributeError"
                        THEN [found |-> FALSE, v |-> VNone] ELSE pa0 IN
              IF pa.found /\ pa.v.t = "raiser" THEN Fail(s, RaiserErr(pa.v))
              ELSE IF pa.found THEN R(pa.v, s)
              ELSE IF v.t \in {"dict", "list", "str"} THEN
                       \* string key could name a builtin method (d['items']): not modelled
                       IF v.t = "dict" /\ KeyName(key) \in {"a", "b", "c", "x", "y", "z", "k"} THEN R(UndefAttr(v, KeyName(key)), s)
                       ELSE Fail(s, "EXCLUDED")
                   ELSE IF ClosedAttrs(v) THEN R(UndefAttr(v, KeyName(key)), s)
                   ELSE Fail(s, "EXCLUDED")
         ELSE IF v.t \in {"dict", "list"} /\ key.t \in {"int", "bool", "none", "float"} THEN R(UndefAttr(v, "?"), s)
         ELSE IF v.t \in {"int", "bool", "none", "float"} THEN R(UndefAttr(v, "?"), s)
         ELSE Fail(s, "EXCLUDED")

(* ================================================================================= *)
(* Expressions                                                                       *)
(* ================================================================================= *)
RECURSIVE Ev(_, _, _), EvList(_, _, _), EvChain(_, _, _, _, _), CallValue(_, _, _, _, _),
          ApplyFilter(_, _, _, _, _, _), ApplyTest(_, _, _, _, _), Ex(_, _, _), ExSeq(_, _, _),
          RunLoop(_, _, _, _, _, _, _), InvokeMacro(_, _, _, _, _), RenderBlockRef(_, _, _),
          MakeModule(_, _, _, _), RenderTemplateBody(_, _, _, _), BindParams(_, _, _, _, _, _),
          FilterItems(_, _, _, _, _, _), LazyFilter(_, _, _, _, _, _)

\* evaluate a sequence of expressions left to right
EvList(es, s, E) ==
    IF es = <<>> THEN R(<<>>, s)
    ELSE LET h == Ev(Head(es), s, E) IN
         IF Bad(h) THEN R(<<>>, h.S)
         ELSE LET r == EvList(Tail(es), h.S, E) IN R(<<h.v>> \o r.v, r.S)

\* truth of a value; a data object may define it (__bool__), and that may raise (C38)
TruthR(v, s) ==
    IF v.t = "obj" /\ "bool" \in DOMAIN Objs[v.id]
    THEN (IF Objs[v.id].bool.t = "raiser" THEN Fail(s, "Raised:" \o Objs[v.id].bool.id) ELSE R(Objs[v.id].bool, s))
    \* without __bool__ Python asks __len__ (which may raise as well)
    ELSE IF v.t = "obj" /\ "len" \in DOMAIN Objs[v.id]
    THEN (IF Objs[v.id].len.t = "raiser" THEN Fail(s, "Raised:" \o Objs[v.id].len.id) ELSE R(VBool(Objs[v.id].len.n # 0), s))
    ELSE Lift(Truth(v, UK), s)

\* a < b < c : each operand evaluated once, left to right, stops at the first false link
EvChain(left, ops, s, E, acc) ==
    IF ops = <<>> THEN R(VBool(TRUE), s)
    ELSE LET r == Ev(Head(ops).e, s, E) IN
         IF Bad(r) THEN r
         ELSE LET c == CmpOp(Head(ops).op, left, r.v, UK) IN
              IF ~c.ok THEN Fail(r.S, c.err)
              ELSE IF ~c.v.b THEN R(VBool(FALSE), r.S)
              ELSE EvChain(r.v, Tail(ops), r.S, E, acc)

RangeList(a, b) == [i \in 1..(IF b > a THEN b - a ELSE 0) |-> VInt(a + i - 1)]

Ev(e, s, E) ==
    IF s.err # "" THEN R(VNone, s)
    ELSE
    CASE e.k = "const" -> R(e.v, s)
      [] e.k = "name" ->
           \* `self` and `super` are bound by the engine unless the template binds them itself
           LET l == LookupChain(s, E.sc, e.n) IN
           IF l.found THEN R(l.v, s)
           ELSE IF e.n = "self" /\ ~CtxGet(s, E.cx, "self").found
                THEN R([t |-> "tref", cx |-> E.cx], s)
           ELSE IF e.n = "super" /\ E.blk.name # "" /\ ~CtxGet(s, E.cx, "super").found
                THEN R(IF E.blk.idx + 1 <= Len(s.cx[E.cx].blocks[E.blk.name])
                       THEN [t |-> "bref", name |-> E.blk.name, cx |-> E.cx, idx |-> E.blk.idx + 1]
                       ELSE VUndef([k |-> "hint", n |-> "there is no parent block called " \o E.blk.name]), s)
           ELSE Lookup(s, E, e.n)
      [] e.k = "list" ->
           LET r == EvList(e.items, s, E) IN
           IF Bad(r) THEN R(VNone, r.S) ELSE R([t |-> "list", v |-> r.v, tup |-> Fld(e, "tup", FALSE)], r.S)
      [] e.k = "dict" ->
           \* a Python dict display: k1, v1, k2, v2 ... are evaluated in that order, then the pairs are
           \* inserted left to right (an equal key keeps its first position and takes the last value)
           LET n == Len(e.keys)
               kv == EvList([j \in 1..2 * n |-> IF j % 2 = 1 THEN e.keys[(j + 1) \div 2] ELSE e.vals[j \div 2]], s, E) IN
           IF Bad(kv) THEN R(VNone, kv.S)
           ELSE Lift(MkDict([j \in 1..n |-> kv.v[2 * j - 1]], [j \in 1..n |-> kv.v[2 * j]], <<>>, <<>>), kv.S)
      [] e.k = "bin" ->
           LET a == Ev(e.a, s, E) IN
           IF Bad(a) THEN a
           ELSE LET b == Ev(e.b, a.S, E) IN
                IF Bad(b) THEN b ELSE Lift(BinOp(e.op, a.v, b.v), b.S)
      [] e.k = "neg" -> LET a == Ev(e.a, s, E) IN IF Bad(a) THEN a ELSE Lift(UnOp("-", a.v), a.S)
      [] e.k = "pos" -> LET a == Ev(e.a, s, E) IN IF Bad(a) THEN a ELSE Lift(UnOp("+", a.v), a.S)
      [] e.k = "not" ->
           LET a == Ev(e.a, s, E) IN
           IF Bad(a) THEN a
           ELSE LET t == TruthR(a.v, a.S) IN IF Bad(t) THEN t ELSE R(VBool(~t.v.b), t.S)
      [] e.k = "and" ->      \* returns an operand, short-circuits
           LET a == Ev(e.a, s, E) IN
           IF Bad(a) THEN a
           ELSE LET t == TruthR(a.v, a.S) IN
                IF Bad(t) THEN t ELSE IF ~t.v.b THEN R(a.v, t.S) ELSE Ev(e.b, t.S, E)
      [] e.k = "or" ->
           LET a == Ev(e.a, s, E) IN
           IF Bad(a) THEN a
           ELSE LET t == TruthR(a.v, a.S) IN
                IF Bad(t) THEN t ELSE IF t.v.b THEN R(a.v, t.S) ELSE Ev(e.b, t.S, E)
      [] e.k = "cmp" ->
           LET a == Ev(e.a, s, E) IN
           IF Bad(a) THEN a ELSE EvChain(a.v, e.ops, a.S, E, TRUE)
      [] e.k = "cond" ->     \* a if t else b ; missing else => undefined
           LET t == Ev(e.test, s, E) IN
           IF Bad(t) THEN t
           ELSE LET tt == TruthR(t.v, t.S) IN
                IF Bad(tt) THEN tt
                ELSE IF tt.v.b THEN Ev(e.a, tt.S, E)
                ELSE IF Has(e, "b") THEN Ev(e.b, tt.S, E)
                ELSE R(VUndef([k |-> "condelse", n |-> "the inline if-expression evaluated to false and no else section was defined"]), tt.S)
      [] e.k = "concat" ->
           LET r == EvList(e.items, s, E) IN
           IF Bad(r) THEN R(VNone, r.S) ELSE Lift(Concat(r.v, Mode(E, r.S), UK), r.S)
      [] e.k = "getattr" ->
           LET a == Ev(e.a, s, E) IN IF Bad(a) THEN a ELSE GetAttr(a.S, a.v, e.n)
      [] e.k = "getitem" ->
           LET a == Ev(e.a, s, E) IN
           IF Bad(a) THEN a
           ELSE LET i == Ev(e.i, a.S, E) IN IF Bad(i) THEN i ELSE GetItem(i.S, a.v, i.v)
      [] e.k = "slice" ->
           \* x[a:b] on lists (Python slice semantics, step 1): bounds are clamped, negative bounds count from the end
           LET a == Ev(e.a, s, E) IN
           IF Bad(a) THEN a
           ELSE LET lo == IF Has(e, "lo") THEN Ev(e.lo, a.S, E) ELSE R(VNone, a.S) IN
                IF Bad(lo) THEN lo
                ELSE LET hi == IF Has(e, "hi") THEN Ev(e.hi, lo.S, E) ELSE R(VNone, lo.S) IN
                     IF Bad(hi) THEN hi
                     ELSE IF a.v.t = "undef" THEN (IF UKof(a.v, UK) = "chainable" THEN R(a.v, hi.S) ELSE Fail(hi.S, "UndefinedError"))
                     ELSE IF a.v.t # "list" \/ IsRange(a.v) THEN Fail(hi.S, "EXCLUDED")
                     ELSE IF lo.v.t \notin {"int", "none"} \/ hi.v.t \notin {"int", "none"} THEN Fail(hi.S, "EXCLUDED")
                     ELSE LET n == Len(a.v.v)
                              Clamp(x, d) == IF x.t = "none" THEN d
                                             ELSE IF x.n < 0 THEN (IF n + x.n < 0 THEN 0 ELSE n + x.n)
                                             ELSE IF x.n > n THEN n ELSE x.n
                              l == Clamp(lo.v, 0)
                              h == Clamp(hi.v, n) IN
                          R([t |-> "list", v |-> IF h > l THEN SubSeq(a.v.v, l + 1, h) ELSE <<>>, tup |-> a.v.tup], hi.S)
      [] e.k = "call" ->
           LET f == Ev(e.f, s, E) IN
           IF Bad(f) THEN f
           ELSE LET as == EvList(e.args, f.S, E) IN
                IF Bad(as) THEN R(VNone, as.S)
                ELSE LET ks == EvList(e.kwvals, as.S, E) IN
                     IF Bad(ks) THEN R(VNone, ks.S)
                     ELSE CallValue(f.v, as.v, [n |-> e.kwnames, v |-> ks.v], ks.S, E)
      [] e.k = "filter" ->
           LET a == Ev(e.a, s, E) IN
           IF Bad(a) THEN a
           ELSE LET as == EvList(e.args, a.S, E) IN
                IF Bad(as) THEN R(VNone, as.S)
                ELSE LET ks == EvList(Fld(e, "kwvals", <<>>), as.S, E) IN
                     IF Bad(ks) THEN R(VNone, ks.S)
                     ELSE ApplyFilter(e.n, a.v, as.v, [n |-> Fld(e, "kwnames", <<>>), v |-> ks.v], ks.S, E)
      [] e.k = "test" ->
           LET a == Ev(e.a, s, E) IN
           IF Bad(a) THEN a
           ELSE LET as == EvList(e.args, a.S, E) IN
                IF Bad(as) THEN R(VNone, as.S)
                ELSE LET r == ApplyTest(e.n, a.v, as.v, as.S, E) IN
                     IF Bad(r) THEN r ELSE IF Fld(e, "neg", FALSE) THEN R(VBool(~r.v.b), r.S) ELSE r

KwGet(kw, n) == LET idx == {i \in 1..Len(kw.n) : kw.n[i] = n} IN
                IF idx = {} THEN [found |-> FALSE, v |-> VNone] ELSE [found |-> TRUE, v |-> kw.v[CHOOSE i \in idx : TRUE]]

(* -- calls ---------------------------------------------------------------------------- *)
CallValue(f, args, kw, s, E) ==
    \* unbounded template recursion ends in a RecursionError at an unspecified depth: not judged
    IF E.dep > 8 THEN Fail(s, "EXCLUDED") ELSE
    CASE f.t = "macro" -> InvokeMacro(f, args, kw, s, E)
      [] f.t = "fn" ->
           \* a callable supplied by the data: logged, result scripted by its mode
           LET s2 == Log(s, <<"call", f.id, Len(args), kw.n>>) IN
           IF f.mode = "const" THEN R(f.ret, s2)
           ELSE IF f.mode = "arg0" THEN (IF args = <<>> THEN R(f.ret, s2) ELSE R(args[1], s2))
           ELSE IF f.mode = "nargs" THEN R(VInt(Len(args) + 10 * Len(kw.n)), s2)
           ELSE IF f.mode = "raise_at" THEN
               \* C38: the k-th call of this callable raises a private exception, which propagates
               LET prior == Cardinality({j \in 1..Len(s.log) : s.log[j][1] = "call" /\ s.log[j][2] = f.id}) IN
               IF prior + 1 = f.k THEN Fail(s2, "Raised:" \o f.id)
               ELSE IF f.then = "arg0" /\ args # <<>> THEN R(args[1], s2) ELSE R(f.ret, s2)
           ELSE IF f.mode = "stopiter" THEN
               \* a StopIteration escaping a callable becomes an undefined value (documented)
               R(VUndef([k |-> "hint", n |-> "value was undefined because a callable raised a StopIteration exception"]), s2)
           ELSE Fail(s2, "EXCLUDED")
      [] f.t = "builtin" ->
           IF f.n = "range" THEN
               IF kw.n # <<>> \/ Len(args) \notin {1, 2} THEN Fail(s, "EXCLUDED")
               ELSE IF \E i \in 1..Len(args) : args[i].t # "int" THEN Fail(s, "EXCLUDED")
               ELSE IF Len(args) = 1 THEN R(VRange(RangeList(0, args[1].n)), s)
               ELSE R(VRange(RangeList(args[1].n, args[2].n)), s)
           ELSE IF f.n = "namespace" THEN
               IF args # <<>> THEN Fail(s, "EXCLUDED")
               ELSE R([t |-> "ns", id |-> Len(s.ns) + 1],
                      [s EXCEPT !.ns = Append(@, MapFromSeqs(kw.n, kw.v))])
           ELSE IF f.n = "dict" THEN
               IF args # <<>> THEN Fail(s, "EXCLUDED")
               ELSE R(VDict([i \in 1..Len(kw.n) |-> StrKey(kw.n[i])], kw.v), s)
           ELSE IF f.n = "cycler" THEN
               \* cycler(*items): an object with .current, .next() and .reset(); state lives in the heap
               IF kw.n # <<>> THEN Fail(s, "EXCLUDED")
               ELSE IF args = <<>> THEN Fail(s, "TemplateRuntimeError")
               ELSE R([t |-> "cycler", id |-> Len(s.ns) + 1],
                      [s EXCEPT !.ns = Append(@, ("items" :> VList(args)) @@ ("pos" :> VInt(0)))])
           ELSE IF f.n = "joiner" THEN
               \* joiner(sep): a callable returning "" the first time and sep afterwards
               IF kw.n # <<>> \/ Len(args) > 1 THEN Fail(s, "EXCLUDED")
               ELSE R([t |-> "joiner", id |-> Len(s.ns) + 1],
                      [s EXCEPT !.ns = Append(@, ("sep" :> (IF args = <<>> THEN VStr(<<Seg(", ", 0, "lit")>>, FALSE) ELSE args[1]))
                                                   @@ ("used" :> VBool(FALSE)))])
           ELSE Fail(s, "EXCLUDED")
      [] f.t = "dictm" ->
           \* the dict methods templates commonly use
           IF kw.n # <<>> THEN Fail(s, "TypeError")
           ELSE IF f.m = "items" THEN (IF args # <<>> THEN Fail(s, "TypeError")
                                       ELSE R(VView([j \in 1..Len(f.d.k) |-> VTuple(<<f.d.k[j], f.d.v[j]>>)]), s))
           ELSE IF f.m = "keys" THEN (IF args # <<>> THEN Fail(s, "TypeError") ELSE R(VView(f.d.k), s))
           ELSE IF f.m = "values" THEN (IF args # <<>> THEN Fail(s, "TypeError") ELSE R(VView(f.d.v), s))
           ELSE \* get(key[, default])
                IF Len(args) \notin {1, 2} THEN Fail(s, "TypeError")
                ELSE IF ~Hashable(args[1]) THEN Fail(s, "TypeError")
                ELSE IF HasUndef(args[1]) /\ UK = "strict" THEN Fail(s, "EXCLUDED")
                ELSE LET g == DictGet(f.d, args[1]) IN
                     IF g.found THEN R(g.v, s) ELSE R(IF Len(args) = 2 THEN args[2] ELSE VNone, s)
      [] f.t = "joiner" ->
           IF args # <<>> \/ kw.n # <<>> THEN Fail(s, "TypeError")
           ELSE IF s.ns[f.id]["used"].b THEN R(s.ns[f.id]["sep"], s)
           ELSE R(VStr(<<>>, FALSE), [s EXCEPT !.ns[f.id] = MapSet(@, "used", VBool(TRUE))])
      [] f.t = "cyclerm" ->
           IF args # <<>> \/ kw.n # <<>> THEN Fail(s, "TypeError")
           ELSE LET cell == s.ns[f.id]
                    items == cell["items"].v
                    pos == cell["pos"].n IN
                IF f.m = "next" THEN R(items[pos + 1], [s EXCEPT !.ns[f.id] = MapSet(@, "pos", VInt((pos + 1) % Len(items)))])
                ELSE \* reset
                     R(VNone, [s EXCEPT !.ns[f.id] = MapSet(@, "pos", VInt(0))])
      [] f.t = "loopchanged" ->
           \* loop.changed(*values): true iff the values differ from those of the previous call
           IF kw.n # <<>> THEN Fail(s, "TypeError")
           ELSE LET cell == s.ns[f.l.cell]
                    prev == cell["last"]
                    cur == VTuple(args)
                    same == IF prev.t = "missing" THEN "F" ELSE PyEq(prev, cur) IN
                IF same = "?" THEN Fail(s, "EXCLUDED")
                ELSE R(VBool(same = "F"), [s EXCEPT !.ns[f.l.cell] = MapSet(@, "last", cur)])
      [] f.t = "loop" ->
           \* loop(children): recursive call of a recursive loop
           IF ~f.rec THEN Fail(s, "TypeError")
           ELSE IF Len(args) # 1 \/ kw.n # <<>> THEN Fail(s, "EXCLUDED")
           ELSE LET s0 == [s EXCEPT !.out = <<>>]
                    r == RunLoop(f.node, args[1], f.depth0 + 1, s0, f.E, TRUE, TRUE) IN
                IF r.err # "" THEN R(VNone, [r EXCEPT !.out = s.out])
                ELSE R(VStr(r.out, Mode(f.E, r)), [r EXCEPT !.out = s.out])
      [] f.t = "loopcycle" ->
           IF args = <<>> THEN Fail(s, "TypeError")
           ELSE R(args[(f.l.i % Len(args)) + 1], s)
      [] f.t = "bref" -> RenderBlockRef(f, s, E)
      [] f.t = "undef" -> Fail(s, "UndefinedError")
      [] f.t \in {"int", "bool", "none", "str", "list", "dict", "ns", "module", "tref", "cycler", "float"} -> Fail(s, "TypeError")
      [] OTHER -> Fail(s, "EXCLUDED")

\* super() / self.name(): render the referenced block definition into a string
RenderBlockRef(b, s, E) ==
    LET def == s.cx[b.cx].blocks[b.name][b.idx]
        s0 == NewFrame([s EXCEPT !.out = <<>>], def.pre)
        E2 == [sc |-> <<LastFrame(s0)>>, cx |-> b.cx, auto |-> def.auto, vol |-> def.vol, tpl |-> def.tpl,
               top |-> FALSE, roc |-> FALSE,
               blk |-> [name |-> b.name, idx |-> b.idx], loopd |-> 0, dep |-> E.dep + 1]
        r == ExSeq(def.body, s0, E2) IN
    IF r.err # "" THEN R(VNone, [r EXCEPT !.out = s.out])
    \* BlockReference.__call__: Markup iff the context's dynamic mode is on
    ELSE R(VStr(r.out, DA(r, b.cx)), [r EXCEPT !.out = s.out])

(* -- macros: the calling rules of property C06 (see MacroBind.tla for the full rule set) *)
\* fill parameters: positional first, then keywords by name, then defaults
\* (evaluated now, in the macro's own scope so that they may use earlier
\* parameters), else undefined
BindParams(m, i, args, kw, s, fid) ==
    IF i > Len(m.params) THEN s
    ELSE LET p == m.params[i]
             nd == Len(m.defaults)
             di == i - (Len(m.params) - nd)       \* index into defaults
             kv == KwGet(kw, p) IN
         IF i <= Len(args) THEN BindParams(m, i + 1, args, kw, SetVar(s, fid, p, args[i]), fid)
         ELSE IF kv.found THEN BindParams(m, i + 1, args, kw, SetVar(s, fid, p, kv.v), fid)
         ELSE IF di >= 1 THEN
              LET Ed == [sc |-> <<fid>> \o m.sc, cx |-> m.cx, auto |-> m.auto, vol |-> m.vol, tpl |-> m.tpl,
                         top |-> FALSE, roc |-> FALSE, blk |-> m.blk, loopd |-> 0, dep |-> 0]
                  r == Ev(m.defaults[di], s, Ed) IN
              IF Bad(r) THEN r.S ELSE BindParams(m, i + 1, args, kw, SetVar(r.S, fid, p, r.v), fid)
         ELSE BindParams(m, i + 1, args, kw,
                         SetVar(s, fid, p, VUndef([k |-> "hint", n |-> "parameter " \o p \o " was not provided"])), fid)

InvokeMacro(m, args, kw, s, E) ==
    LET np == Len(m.params)
        extraPos == IF Len(args) > np THEN SubSeq(args, np + 1, Len(args)) ELSE <<>>
        \* keywords naming a parameter that a positional already filled
        dupl == {i \in 1..Len(kw.n) : \E j \in 1..np : m.params[j] = kw.n[i] /\ j <= Len(args)}
        extraKw == {i \in 1..Len(kw.n) : kw.n[i] # "caller" /\ ~\E j \in 1..np : m.params[j] = kw.n[i]}
        callerKw == KwGet(kw, "caller")
    IN
    IF extraPos # <<>> /\ ~m.varargs THEN Fail(s, "TypeError")
    ELSE IF dupl # {} THEN Fail(s, "TypeError")
    ELSE IF extraKw # {} /\ ~m.kwargs THEN Fail(s, "TypeError")
    ELSE IF callerKw.found /\ ~m.caller /\ ~(\E j \in 1..np : m.params[j] = "caller") /\ ~m.kwargs THEN Fail(s, "TypeError")
    ELSE
    LET s0 == NewFrame([s EXCEPT !.out = <<>>],
                       [p \in {m.params[i] : i \in 1..np} |-> VMissing] @@ m.pre)
        fid == LastFrame(s0)
        s1 == BindParams(m, 1, args, kw, s0, fid)
        s2 == IF m.varargs THEN SetVar(s1, fid, "varargs", VTuple(extraPos)) ELSE s1
        ekw == SetToSortedSeq(extraKw)
        s3 == IF m.kwargs THEN SetVar(s2, fid, "kwargs",
                                       VDict([i \in 1..Len(ekw) |-> StrKey(kw.n[ekw[i]])],
                                             [i \in 1..Len(ekw) |-> kw.v[ekw[i]]])) ELSE s2
        s4 == IF m.caller /\ ~(\E j \in 1..np : m.params[j] = "caller")
              THEN SetVar(s3, fid, "caller",
                          IF callerKw.found THEN callerKw.v
                          ELSE VUndef([k |-> "hint", n |-> "No caller defined"])) ELSE s3
        Em == [sc |-> <<fid>> \o m.sc, cx |-> m.cx, auto |-> m.auto, vol |-> m.vol, tpl |-> m.tpl,
               top |-> FALSE, roc |-> FALSE, blk |-> m.blk, loopd |-> 0, dep |-> E.dep + 1]
        r == IF s4.err # "" THEN s4 ELSE ExSeq(m.body, s4, Em)
    IN IF r.err # "" THEN R(VNone, [r EXCEPT !.out = s.out])
       \* Macro.__call__: the body escapes by its own lexical mode; the result is Markup iff the
       \* dynamic mode of the CALLER's context is on at the time of the call
       ELSE R(VStr(r.out, DA(s, E.cx)), [r EXCEPT !.out = s.out, !.flow = ""])

(* -- filters (the subset the interpreter models exactly) ------------------------------------ *)
LazyFilters == {"map", "select", "reject", "selectattr", "rejectattr"}
VLazy(items, err) == [t |-> "lazy", v |-> items, err |-> err]
RECURSIVE SumInts(_), InsertSorted(_, _), SortInts(_), JoinWith(_, _, _, _), RevSeq(_)
SumInts(xs) == IF xs = <<>> THEN 0 ELSE NumOf(Head(xs)) + SumInts(Tail(xs))
RevSeq(xs) == IF xs = <<>> THEN <<>> ELSE Append(RevSeq(Tail(xs)), Head(xs))
RECURSIVE SumReals(_, _)
SumReals(xs, acc) ==
    IF xs = <<>> THEN Ok(acc)
    ELSE IF IsNum(acc) /\ IsNum(Head(xs)) THEN SumReals(Tail(xs), VInt(NumOf(acc) + NumOf(Head(xs))))
    ELSE IF ~FGuard(acc, Head(xs)) THEN Err("EXCLUDED")
    ELSE LET r == MkFloat(FA(acc, Head(xs)) + FB(acc, Head(xs)), FE(acc, Head(xs))) IN
         IF ~r.ok THEN r ELSE SumReals(Tail(xs), r.v)
AllNum(xs) == \A i \in 1..Len(xs) : IsNum(xs[i])
AllInt(xs) == \A i \in 1..Len(xs) : xs[i].t = "int"
InsertSorted(x, ys) == IF ys = <<>> THEN <<x>> ELSE IF x.n < Head(ys).n THEN <<x>> \o ys
                       ELSE <<Head(ys)>> \o InsertSorted(x, Tail(ys))
SortInts(xs) == IF xs = <<>> THEN <<>> ELSE InsertSorted(Head(xs), SortInts(Tail(xs)))

\* numbers of mixed kinds (int, bool, exact float): sorted() is stable, min() / max() return the FIRST minimal /
\* maximal element (1 and 1.0 are equal but print differently)
AllReal(xs) == \A i \in 1..Len(xs) : IsReal(xs[i]) /\ Abs(RN(xs[i])) <= 1000000
RECURSIVE InsertStable(_, _), SortRealsAcc(_, _)
InsertStable(x, acc) == IF acc = <<>> THEN <<x>>
                        ELSE IF FCmp("lt", x, Head(acc)) THEN <<x>> \o acc
                        ELSE <<Head(acc)>> \o InsertStable(x, Tail(acc))
SortRealsAcc(xs, acc) == IF xs = <<>> THEN acc ELSE SortRealsAcc(Tail(xs), InsertStable(Head(xs), acc))
SortReals(xs) == SortRealsAcc(xs, <<>>)
FirstExtreme(xs, op) ==          \* op = "lteq": first minimum; "gteq": first maximum
    LET best(i) == \A j \in 1..Len(xs) : FCmp(op, xs[i], xs[j]) IN
    xs[CHOOSE i \in 1..Len(xs) : best(i) /\ \A k \in 1..(i - 1) : ~best(k)]

RECURSIVE Batches(_, _, _), UniqueReals(_, _)
Batches(xs, n, fill) ==
    IF xs = <<>> THEN <<>>
    ELSE IF Len(xs) >= n THEN <<VList(SubSeq(xs, 1, n))>> \o Batches(SubSeq(xs, n + 1, Len(xs)), n, fill)
    ELSE <<VList(xs \o (IF fill.t # "none" THEN [i \in 1..(n - Len(xs)) |-> fill] ELSE <<>>))>>
UniqueReals(xs, acc) ==
    IF xs = <<>> THEN acc
    ELSE IF \E j \in 1..Len(acc) : FCmp("eq", Head(xs), acc[j]) THEN UniqueReals(Tail(xs), acc)
    ELSE UniqueReals(Tail(xs), Append(acc, Head(xs)))

\* sep.join(items) with every part already a string value
JoinWith(parts, sep, i, acc) ==
    IF i > Len(parts) THEN acc
    ELSE JoinWith(parts, sep, i + 1, acc \o (IF i > 1 THEN sep ELSE <<>>) \o parts[i].s)

IterItems(v) ==
    CASE v.t = "list" -> [ok |-> TRUE, v |-> v.v, err |-> ""]
      [] v.t = "lazy" -> IF v.err = "" THEN [ok |-> TRUE, v |-> v.v, err |-> ""] ELSE Err(v.err)   \* consumed completely
      [] v.t = "dict" -> [ok |-> TRUE, v |-> v.k, err |-> ""]
      [] v.t = "undef" -> IF UKof(v, UK) = "strict" THEN Err("UndefinedError") ELSE [ok |-> TRUE, v |-> <<>>, err |-> ""]
      [] v.t \in {"int", "bool", "none", "float"} -> Err("TypeError")
      [] v.t = "iterfault" -> Err("Raised:" \o v.id)          \* consuming it completely always reaches the faulty step
      [] OTHER -> Err("EXCLUDED")

ApplyFilter(n, v, args, kw, s, E) ==
    CASE n \in LazyFilters -> LazyFilter(n, v, args, kw, s, E)
      \* a consumer that reads a lazy stream to its end meets the stream's error after converting the items before
      \* it; when those conversions (or the separator's) would fail too, which error comes first depends on the
      \* filter's internals and is not judged
      [] v.t = "lazy" /\ v.err # "" /\ n \in {"list", "join", "sum"} ->
           IF Bad(ApplyFilter(n, VList(v.v), args, kw, s, E)) THEN Fail(s, "EXCLUDED") ELSE Fail(s, v.err)
      [] v.t = "lazy" /\ n = "sum" -> ApplyFilter(n, VList(v.v), args, kw, s, E)
      [] v.t = "lazy" /\ n = "first" ->          \* asks for one item only
           IF v.v # <<>> THEN R(v.v[1], s)
           ELSE IF v.err # "" THEN Fail(s, v.err)
           ELSE R(VUndef([k |-> "hint", n |-> "No first item, sequence was empty."]), s)
      [] v.t = "lazy" /\ n \notin {"list", "join", "default", "d"} -> Fail(s, "EXCLUDED")
      [] n = "safe" ->
           LET t == ToStr(v, UK) IN IF ~t.ok THEN Fail(s, t.err) ELSE R(VStr(t.v.s, TRUE), s)
      [] n \in {"e", "escape"} -> Lift(Escape(v, UK), s)
      [] n = "string" -> LET t == ToStr(v, UK) IN
                         IF ~t.ok THEN Fail(s, t.err)
                         ELSE R(VStr(t.v.s, v.t = "str" /\ v.m), s)
      [] n \in {"default", "d"} ->
           LET dv == IF Len(args) >= 1 THEN args[1] ELSE
                     IF KwGet(kw, "default_value").found THEN KwGet(kw, "default_value").v ELSE VStr(<<>>, FALSE)
               bo == IF Len(args) >= 2 THEN args[2] ELSE
                     IF KwGet(kw, "boolean").found THEN KwGet(kw, "boolean").v ELSE VBool(FALSE)
               bt0 == TruthR(bo, s)
               bt == [ok |-> ~Bad(bt0), v |-> bt0.v, err |-> bt0.S.err] IN
           IF ~bt.ok THEN Fail(s, bt.err)
           ELSE IF v.t = "undef" THEN R(dv, s)
           ELSE IF bt.v.b THEN
                LET vt0 == TruthR(v, s)
                    vt == [ok |-> ~Bad(vt0), v |-> vt0.v, err |-> vt0.S.err] IN
                IF ~vt.ok THEN Fail(s, vt.err) ELSE IF vt.v.b THEN R(v, s) ELSE R(dv, s)
           ELSE R(v, s)
      [] n \in {"length", "count"} ->
           CASE v.t = "list" -> R(VInt(Len(v.v)), s)
             [] v.t = "dict" -> R(VInt(Len(v.k)), s)
             [] v.t = "undef" -> IF UKof(v, UK) = "strict" THEN Fail(s, "UndefinedError") ELSE R(VInt(0), s)
             [] v.t \in {"int", "bool", "none", "float"} -> Fail(s, "TypeError")
             [] v.t = "obj" /\ "len" \in DOMAIN Objs[v.id] ->          \* a data object's own __len__
                  IF Objs[v.id].len.t = "raiser" THEN Fail(s, "Raised:" \o Objs[v.id].len.id) ELSE R(Objs[v.id].len, s)
             [] OTHER -> Fail(s, "EXCLUDED")
      [] n = "first" ->
           LET it == IterItems(v) IN
           IF ~it.ok THEN Fail(s, it.err)
           ELSE IF it.v = <<>> THEN R(VUndef([k |-> "hint", n |-> "No first item, sequence was empty."]), s)
           ELSE R(it.v[1], s)
      [] n = "last" ->
           IF v.t = "dict" THEN Fail(s, "EXCLUDED")
           ELSE LET it == IterItems(v) IN
           IF ~it.ok THEN Fail(s, it.err)
           ELSE IF it.v = <<>> THEN R(VUndef([k |-> "hint", n |-> "No last item, sequence was empty."]), s)
           ELSE R(it.v[Len(it.v)], s)
      [] n = "list" ->
           LET it == IterItems(v) IN IF ~it.ok THEN Fail(s, it.err) ELSE R(VList(it.v), s)
      [] n = "reverse" ->
           \* of a list / tuple / range: an iterator object (truthy, unprintable) - a stream like the lazy filters'
           IF v.t = "list" /\ ~IsView(v) /\ args = <<>> /\ kw.n = <<>> THEN R(VLazy(RevSeq(v.v), ""), s)
           ELSE Fail(s, "EXCLUDED")
      [] n = "batch" ->
           \* a generator of lists of `linecount` items, the last one filled up when fill_with is given
           IF v.t = "list" /\ ~IsView(v) /\ Len(args) \in {1, 2} /\ kw.n = <<>> /\ args[1].t = "int" /\ args[1].n >= 1
           THEN R(VLazy(Batches(v.v, args[1].n, IF Len(args) = 2 THEN args[2] ELSE VNone), ""), s)
           ELSE Fail(s, "EXCLUDED")
      [] n = "unique" ->
           \* a generator of the first occurrences (numbers: 1, 1.0 and true are one value; strings compare
           \* case-insensitively and are not modelled)
           IF v.t = "list" /\ ~IsView(v) /\ args = <<>> /\ kw.n = <<>> /\ AllReal(v.v) THEN R(VLazy(UniqueReals(v.v, <<>>), ""), s)
           ELSE Fail(s, "EXCLUDED")
      [] n = "sum" ->
           IF v.t = "list" /\ AllNum(v.v) /\ args = <<>> /\ kw.n = <<>> THEN R(VInt(SumInts(v.v)), s)
           ELSE IF v.t = "list" /\ ~IsRange(v) /\ (\A i \in 1..Len(v.v) : IsReal(v.v[i])) /\ args = <<>> /\ kw.n = <<>>
                THEN Lift(SumReals(v.v, VInt(0)), s)                  \* 0 + x1 + x2 ...: a float as soon as one item is
           ELSE IF v.t = "undef" /\ UK # "strict" /\ args = <<>> /\ kw.n = <<>> THEN R(VInt(0), s)
           ELSE Fail(s, "EXCLUDED")
      [] n \in {"min", "max"} ->
           IF v.t = "list" /\ AllInt(v.v) /\ args = <<>> /\ kw.n = <<>> THEN
               IF v.v = <<>> THEN R(VUndef([k |-> "hint", n |-> "No aggregated item, sequence was empty."]), s)
               ELSE LET so == SortInts(v.v) IN R(IF n = "min" THEN so[1] ELSE so[Len(so)], s)
           ELSE IF v.t = "list" /\ ~IsRange(v) /\ v.v # <<>> /\ AllReal(v.v) /\ args = <<>> /\ kw.n = <<>> THEN
               R(FirstExtreme(v.v, IF n = "min" THEN "lteq" ELSE "gteq"), s)
           ELSE Fail(s, "EXCLUDED")
      [] n = "sort" ->
           IF v.t = "list" /\ AllInt(v.v) /\ args = <<>> /\ kw.n = <<>> THEN R(VList(SortInts(v.v)), s)
           ELSE IF v.t = "list" /\ ~IsRange(v) /\ AllReal(v.v) /\ args = <<>> /\ kw.n = <<>> THEN R(VList(SortReals(v.v)), s)
           ELSE Fail(s, "EXCLUDED")
      [] n = "abs" ->
           IF IsNum(v) THEN R(VInt(IF NumOf(v) < 0 THEN 0 - NumOf(v) ELSE NumOf(v)), s)
           ELSE IF v.t = "float" THEN R(VFloat(Abs(v.n), v.e), s)
           ELSE IF v.t = "undef" THEN Fail(s, "EXCLUDED")            \* abs(undefined): not in the documented table
           ELSE IF v.t \in {"none", "str", "list", "dict"} THEN Fail(s, "TypeError") ELSE Fail(s, "EXCLUDED")
      [] n = "float" ->
           \* do_float: float(value); TypeError / ValueError give the default (0.0)
           IF IsReal(v) THEN Lift(MkFloat(RN(v), RE(v)), s)
           ELSE IF v.t = "undef" THEN Fail(s, "UndefinedError")
           ELSE IF v.t \in {"none", "list", "dict"} THEN R(IF Len(args) >= 1 THEN args[1] ELSE VFloat(0, 0), s)
           ELSE Fail(s, "EXCLUDED")
      [] n = "round" ->
           \* round(value, precision=0, method="common"): Python's round() (ties to even) for "common",
           \* ceil / floor of the value divided back otherwise; only precision 0 is modelled
           LET pr == IF Len(args) >= 1 THEN args[1] ELSE IF KwGet(kw, "precision").found THEN KwGet(kw, "precision").v ELSE VInt(0)
               me == IF Len(args) >= 2 THEN args[2] ELSE IF KwGet(kw, "method").found THEN KwGet(kw, "method").v ELSE StrKey("common")
               mn == KeyName(me) IN
           IF v.t = "undef" THEN Fail(s, "EXCLUDED")
           ELSE IF ~IsReal(v) \/ pr.t # "int" \/ pr.n # 0 \/ Len(args) > 2 THEN Fail(s, "EXCLUDED")
           ELSE IF mn \notin {"common", "ceil", "floor"} THEN Fail(s, "EXCLUDED")
           ELSE IF Abs(RN(v)) > FBound THEN Fail(s, "EXCLUDED")
           ELSE LET p == PowN(2, RE(v))
                    fl == PFloorDiv(RN(v), p)
                    rem == RN(v) - fl * p                      \* 0 <= rem < p, in units of 1/p
                    ce == IF rem = 0 THEN fl ELSE fl + 1
                    nearest == IF 2 * rem < p THEN fl ELSE IF 2 * rem > p THEN fl + 1
                               ELSE (IF fl % 2 = 0 THEN fl ELSE fl + 1)          \* tie: to even
               IN IF mn = "common" THEN
                      (IF v.t # "float" THEN R(VInt(NumOf(v)), s)              \* round(int) is an int
                       ELSE IF nearest = 0 /\ RN(v) < 0 THEN Fail(s, "EXCLUDED")   \* -0.0
                       ELSE R(VFloat(nearest, 0), s))
                  ELSE IF mn = "ceil" THEN R(VFloat(ce, 0), s)
                  ELSE R(VFloat(fl, 0), s)
      [] n = "int" ->
           IF IsNum(v) THEN R(VInt(NumOf(v)), s)
           ELSE IF v.t = "float" THEN R(VInt(FTrunc(v)), s)
           ELSE IF v.t = "undef" THEN Fail(s, "UndefinedError")      \* int(undefined) raises (documented)
           ELSE IF v.t \in {"none", "list", "dict"} THEN
                R(IF Len(args) >= 1 THEN args[1] ELSE VInt(0), s)
           ELSE Fail(s, "EXCLUDED")
      [] n = "attr" ->
           \* |attr(name): attribute lookup only, never items
           IF Len(args) # 1 \/ KeyName(args[1]) = "?" THEN Fail(s, "EXCLUDED")
           ELSE IF v.t = "undef" THEN
                (IF UK = "chainable" THEN R(v, s) ELSE R(UndefAttr(v, KeyName(args[1])), s))
           ELSE LET pa == PyAttr(s, v, KeyName(args[1])) IN
                IF pa.found THEN R(pa.v, s)
                ELSE IF ClosedAttrs(v) THEN R(UndefAttr(v, KeyName(args[1])), s) ELSE Fail(s, "EXCLUDED")
      [] n = "join" ->
           \* do_join: without autoescape a plain join of str(items); with autoescape the
           \* result is Markup (everything escaped) as soon as an item or the separator is
           \* Markup, else a plain string that is escaped later like any other value
           LET sepv == IF Len(args) >= 1 THEN args[1] ELSE
                       IF KwGet(kw, "d").found THEN KwGet(kw, "d").v ELSE VStr(<<>>, FALSE)
               it == IterItems(v) IN
           IF ~it.ok THEN Fail(s, it.err)
           ELSE IF Len(args) > 1 \/ KwGet(kw, "attribute").found THEN Fail(s, "EXCLUDED")
           ELSE IF ~DA(s, E.cx) THEN
                LET parts == [i \in 1..Len(it.v) |-> ToStr(it.v[i], UK)]
                    sp == ToStr(sepv, UK) IN
                IF \E i \in 1..Len(parts) : ~parts[i].ok
                THEN Fail(s, parts[CHOOSE i \in 1..Len(parts) : ~parts[i].ok /\ \A j \in 1..(i-1) : parts[j].ok].err)
                ELSE IF ~sp.ok THEN Fail(s, sp.err)
                ELSE R(VStr(JoinWith([i \in 1..Len(parts) |-> parts[i].v], sp.v.s, 1, <<>>), FALSE), s)
           ELSE LET anyM == (sepv.t = "str" /\ sepv.m) \/ AnyMarkup(it.v)
                    conv(x) == IF anyM THEN Escape(x, UK) ELSE ToStr(x, UK)
                    parts == [i \in 1..Len(it.v) |-> conv(it.v[i])]
                    sp == conv(sepv) IN
                IF \E i \in 1..Len(parts) : ~parts[i].ok
                THEN Fail(s, parts[CHOOSE i \in 1..Len(parts) : ~parts[i].ok /\ \A j \in 1..(i-1) : parts[j].ok].err)
                ELSE IF ~sp.ok THEN Fail(s, sp.err)
                ELSE R(VStr(JoinWith([i \in 1..Len(parts) |-> parts[i].v], sp.v.s, 1, <<>>), anyM), s)
      [] OTHER -> Fail(s, "EXCLUDED")

ApplyTest(n, v, args, s, E) ==
    CASE v.t = "lazy" \/ (\E i \in 1..Len(args) : args[i].t = "lazy") -> Fail(s, "EXCLUDED")
      [] n = "defined" -> R(VBool(v.t # "undef"), s)
      [] n = "undefined" -> R(VBool(v.t = "undef"), s)
      [] n = "none" -> R(VBool(v.t = "none"), s)
      [] n = "boolean" -> R(VBool(v.t = "bool"), s)
      [] n = "true" -> R(VBool(v.t = "bool" /\ v.b), s)
      [] n = "false" -> R(VBool(v.t = "bool" /\ ~v.b), s)
      [] n = "integer" -> R(VBool(v.t = "int"), s)
      [] n = "number" -> R(VBool(IsReal(v)), s)
      [] n = "float" -> R(VBool(v.t = "float"), s)
      [] n = "string" -> R(VBool(v.t = "str"), s)
      [] n = "mapping" -> IF v.t \in {"obj", "fn", "module"} THEN Fail(s, "EXCLUDED") ELSE R(VBool(v.t = "dict"), s)
      [] n = "sequence" -> IF v.t \in {"obj", "fn", "module", "loop", "ns"} THEN Fail(s, "EXCLUDED")
                           ELSE IF v.t = "undef" /\ UKof(v, UK) = "strict" THEN R(VBool(FALSE), s)
                           ELSE R(VBool(v.t \in {"str", "list", "dict", "undef"}), s)
      [] n = "iterable" -> IF v.t \in {"obj", "fn", "module", "loop", "ns"} THEN Fail(s, "EXCLUDED")
                           \* iterating a strict undefined raises (documented); only TypeError means "not iterable"
                           ELSE IF v.t = "undef" /\ UKof(v, UK) = "strict" THEN Fail(s, "UndefinedError")
                           ELSE R(VBool(v.t \in {"str", "list", "dict", "undef"}), s)
      [] n = "callable" -> IF v.t \in {"obj", "module", "ns", "loop", "undef"} THEN Fail(s, "EXCLUDED")
                           ELSE R(VBool(v.t \in {"fn", "macro", "builtin", "bref", "loopcycle", "loopchanged", "joiner", "cyclerm", "dictm"}), s)
      [] n \in {"odd", "even"} ->
           IF v.t = "undef" THEN Fail(s, "UndefinedError")
           ELSE IF IsNum(v) THEN R(VBool((PyMod(NumOf(v), 2) = 1) = (n = "odd")), s)
           ELSE IF v.t \in {"none", "list", "dict"} THEN Fail(s, "TypeError") ELSE Fail(s, "EXCLUDED")
      [] n = "divisibleby" ->
           IF Len(args) # 1 THEN Fail(s, "EXCLUDED")
           ELSE IF v.t = "undef" \/ args[1].t = "undef" THEN Fail(s, "UndefinedError")
           ELSE IF IsNum(v) /\ IsNum(args[1]) THEN
                (IF NumOf(args[1]) = 0 THEN Fail(s, "ZeroDivisionError")
                 ELSE R(VBool(PyMod(NumOf(v), NumOf(args[1])) = 0), s))
           ELSE Fail(s, "EXCLUDED")
      [] n \in {"eq", "equalto", "==", "ne", "!=", "lt", "<", "le", "<=", "gt", ">", "ge", ">=", "in"} ->
           IF Len(args) # 1 THEN Fail(s, "EXCLUDED")
           ELSE LET op == CASE n \in {"eq", "equalto", "=="} -> "eq" [] n \in {"ne", "!="} -> "ne"
                            [] n \in {"lt", "<"} -> "lt" [] n \in {"le", "<="} -> "lteq"
                            [] n \in {"gt", ">"} -> "gt" [] n \in {"ge", ">="} -> "gteq" [] n = "in" -> "in"
                IN Lift(CmpOp(op, v, args[1], UK), s)
      [] OTHER -> Fail(s, "EXCLUDED")

(* -- lazy filters: map / select / reject / selectattr / rejectattr --------------------------- *)
\* They return iterators: nothing is evaluated until a consumer asks for an item, and a failing item ends the
\* stream with that error after the items before it.  Value: [t |-> "lazy", v |-> the items the stream yields,
\* err |-> "" or the class of the error that follows them].  A consumer that reads everything (list, join, sum,
\* a for loop) meets the error; `first` only asks for one item.  Only pure item functions are modelled (item /
\* attribute lookups, the filters and tests of this module on data values): an item function that would change
\* the interpreter state (the interaction log) makes the stream EXCLUDED from that item on.
\* (In async mode the same filters return async iterators, which only the consumers documented to accept them
\* can read; the generators only write those - see the known finding F23 for the others.)
AttrNames == {"a", "b", "c", "n", "k", "x", "y", "zz", "ra", "rk", "rp", "ri"}
AttrOk(a) == a.t = "int" \/ (a.t = "str" /\ KeyName(a) \in AttrNames)
PureFilters == {"int", "float", "string", "abs", "length", "count", "first", "last", "e", "escape", "safe", "default", "d",
                "list", "sum", "join", "round", "min", "max", "sort", "attr"}
\* make_attrgetter with a one-part path: environment.getitem, an undefined result replaced by a default other than None
AttrPart(s, item, a, dflt) ==
    LET r == GetItem(s, item, a) IN
    IF Bad(r) THEN r ELSE IF dflt.t # "none" /\ r.v.t = "undef" THEN R(dflt, s) ELSE r

MapFn(item, args, kw, s, E) ==
    IF args = <<>> /\ KwGet(kw, "attribute").found THEN
        IF \E i \in 1..Len(kw.n) : kw.n[i] \notin {"attribute", "default"} THEN Fail(s, "EXCLUDED")
        ELSE LET a == KwGet(kw, "attribute").v
                 d == IF KwGet(kw, "default").found THEN KwGet(kw, "default").v ELSE VNone IN
             IF ~AttrOk(a) THEN Fail(s, "EXCLUDED") ELSE AttrPart(s, item, a, d)
    ELSE IF args = <<>> THEN Fail(s, "EXCLUDED")
    ELSE IF KeyName(args[1]) \notin PureFilters THEN Fail(s, "EXCLUDED")
    ELSE ApplyFilter(KeyName(args[1]), item, Tail(args), kw, s, E)

\* does the item pass?  select / reject: the test (or the item's truth); selectattr / rejectattr: the same on an attribute
SelFn(n, item, args, kw, s, E) ==
    LET attrMode == n \in {"selectattr", "rejectattr"}
        off == IF attrMode THEN 1 ELSE 0 IN
    IF kw.n # <<>> \/ (attrMode /\ args = <<>>) THEN Fail(s, "EXCLUDED")
    ELSE IF attrMode /\ ~AttrOk(args[1]) THEN Fail(s, "EXCLUDED")
    ELSE LET tv == IF attrMode THEN AttrPart(s, item, args[1], VNone) ELSE R(item, s) IN
         IF Bad(tv) THEN tv
         ELSE LET b == IF Len(args) > off
                       THEN (IF KeyName(args[off + 1]) = "?" THEN Fail(s, "EXCLUDED")
                             ELSE ApplyTest(KeyName(args[off + 1]), tv.v, SubSeq(args, off + 2, Len(args)), tv.S, E))
                       ELSE TruthR(tv.v, tv.S) IN
              IF Bad(b) THEN b ELSE R(VBool(b.v.b = (n \in {"select", "selectattr"})), b.S)

RECURSIVE LazyRun(_, _, _, _, _, _, _, _)
LazyRun(n, items, i, args, kw, s, E, acc) ==
    IF i > Len(items) THEN VLazy(acc, "")
    ELSE LET r == IF n = "map" THEN MapFn(items[i], args, kw, s, E) ELSE SelFn(n, items[i], args, kw, s, E) IN
         IF Bad(r) THEN VLazy(acc, r.S.err)
         ELSE IF r.S # s THEN VLazy(acc, "EXCLUDED")
         ELSE LazyRun(n, items, i + 1, args, kw, s, E,
                      IF n = "map" THEN Append(acc, r.v) ELSE IF r.v.b THEN Append(acc, items[i]) ELSE acc)

LazyFilter(n, v, args, kw, s, E) ==
    \* `if value:` and then `for item in value`, both when the first item is asked for
    IF v.t = "iterfault" THEN Fail(s, "EXCLUDED")
    ELSE IF v.t = "lazy" THEN                \* an iterator object is true
        LET out == LazyRun(n, v.v, 1, args, kw, s, E, <<>>) IN
        R(IF out.err = "" THEN VLazy(out.v, v.err) ELSE out, s)
    ELSE LET t == TruthR(v, s) IN
         IF Bad(t) THEN R(VLazy(<<>>, t.S.err), s)
         ELSE IF t.S # s THEN Fail(s, "EXCLUDED")
         ELSE IF ~t.v.b THEN R(VLazy(<<>>, ""), s)
         ELSE LET it == IterItems(v) IN
              IF ~it.ok THEN R(VLazy(<<>>, it.err), s)
              ELSE R(LazyRun(n, it.v, 1, args, kw, s, E, <<>>), s)

(* ================================================================================= *)
(* Statements                                                                        *)
(* ================================================================================= *)
Emit(s, segs) == [s EXCEPT !.out = @ \o segs]

\* does the current render suppress top-level output? (after `extends` in a child template)
\* (Frame.require_output_check: for / with / autoescape bodies at the top level keep it, bodies that
\* are captured or called - macros, call blocks, set and filter blocks, blocks - do not)
Suppressed(s, E) == E.roc /\ s.cx[E.cx].par # ""

\* assignment: the innermost scope; at template top level the variable is also exported
Assign(s, E, n, v, exportable) ==
    LET s1 == SetVar(s, Head(E.sc), n, v) IN
    IF E.top /\ exportable THEN [s1 EXCEPT !.cx[E.cx].exported = @ \cup {n}] ELSE s1

\* a top-level import takes the names it binds out of the module's exports
Unexport(s, E, names) == IF E.top /\ s.err = "" THEN [s EXCEPT !.cx[E.cx].exported = @ \ names] ELSE s

RECURSIVE AssignTarget(_, _, _, _)
\* target: [k |-> "name", n, exp] or [k |-> "tuple", items]
AssignTarget(s, E, tg, v) ==
    IF s.err # "" THEN s
    ELSE IF tg.k = "name" THEN Assign(s, E, tg.n, v, Fld(tg, "exp", TRUE))
    ELSE IF tg.k = "nsattr" THEN
        LET r == Lookup(s, E, tg.ns) IN
        IF r.v.t # "ns" THEN Fail(r.S, "TemplateRuntimeError").S
        ELSE [r.S EXCEPT !.ns[r.v.id] = MapSet(@, tg.attr, v)]
    ELSE \* tuple unpacking
        IF v.t # "list" THEN (IF v.t \in {"int", "bool", "none"} THEN Fail(s, "TypeError").S
                              ELSE IF v.t = "undef" /\ UK # "strict" THEN
                                   (IF tg.items = <<>> THEN s ELSE Fail(s, "ValueError").S)
                              ELSE Fail(s, "EXCLUDED").S)
        ELSE IF Len(v.v) # Len(tg.items) THEN Fail(s, "ValueError").S
        ELSE LET RECURSIVE Go(_, _)
                 Go(i, st) == IF i > Len(tg.items) THEN st ELSE Go(i + 1, AssignTarget(st, E, tg.items[i], v.v[i]))
             IN Go(1, s)

ExSeq(stmts, s, E) ==
    IF stmts = <<>> \/ s.err # "" \/ s.flow # "" THEN s
    ELSE ExSeq(Tail(stmts), Ex(Head(stmts), s, E), E)

\* run a body in a fresh scope (chain extended by one frame)
InScope(body, s, E, init) ==
    LET s0 == NewFrame(s, init)
        E2 == [E EXCEPT !.sc = <<LastFrame(s0)>> \o E.sc, !.top = FALSE] IN
    ExSeq(body, s0, E2)

\* capture the output of a body executed in a fresh scope
Capture(body, s, E, init) ==
    LET r == InScope(body, [s EXCEPT !.out = <<>>], [E EXCEPT !.roc = FALSE], init) IN
    [S |-> [r EXCEPT !.out = s.out], text |-> r.out]

\* the items of a for loop after applying the loop filter (filter sees the target, not `loop`)
FilterItems(node, items, i, s, E, acc) ==
    IF i > Len(items) \/ s.err # "" THEN [S |-> s, items |-> acc]
    ELSE LET s0 == NewFrame(s, EmptyMap)
             E2 == [E EXCEPT !.sc = <<LastFrame(s0)>> \o E.sc, !.top = FALSE]
             s1 == AssignTarget(s0, E2, node.target, items[i])
             r == IF s1.err # "" THEN R(VNone, s1) ELSE Ev(node.filter, s1, E2) IN
         IF Bad(r) THEN [S |-> r.S, items |-> acc]
         ELSE LET t == TruthR(r.v, r.S) IN
              IF Bad(t) THEN [S |-> t.S, items |-> acc]
              ELSE FilterItems(node, items, i + 1, t.S, E, IF t.v.b THEN Append(acc, items[i]) ELSE acc)

\* run a for loop over the value `itv`; `isRec`: called through loop(...)
RunLoop(node, itv, depth0, s, E, isRec, inner) ==
    \* C38: an iterable whose k-th step raises: the items before it are visited normally; unless the loop is
    \* left by break first, asking for step k ends the render with that exception
    \* a lazy stream that ends in an error behaves the same way: its items are visited, the error is raised when the
    \* loop - or loop.last / loop.length looking ahead - asks for the item after them
    LET lazyf == itv.t = "lazy" /\ itv.err # ""
        faulty == itv.t = "iterfault" \/ lazyf
        ferr == IF lazyf THEN itv.err ELSE IF itv.t = "iterfault" THEN "Raised:" \o itv.id ELSE ""
        it == IF lazyf THEN [ok |-> TRUE, v |-> itv.v, err |-> ""]
              ELSE IF faulty THEN [ok |-> TRUE, v |-> SubSeq(itv.v, 1, IF itv.k - 1 < Len(itv.v) THEN itv.k - 1 ELSE Len(itv.v)), err |-> ""]
              ELSE IterItems(itv) IN
    IF ~it.ok THEN Fail(s, it.err).S
    ELSE
    LET f == IF Has(node, "filter") THEN FilterItems(node, it.v, 1, s, E, <<>>) ELSE [S |-> s, items |-> it.v]
        items == f.items
        cellId == Len(f.S.ns) + 1           \* heap cell of this loop instance (state of loop.changed)
        RECURSIVE Iter(_, _)
        Iter(i, st) ==
            IF i > Len(items) \/ st.err # "" \/ st.flow = "break" THEN st
            ELSE LET lp0 == [t |-> "loop", i |-> i - 1, items |-> items, depth0 |-> depth0,
                             rec |-> Fld(node, "recursive", FALSE), node |-> node, E |-> E, cell |-> cellId]
                     \* the faulty step comes when the item after the last visitable one is asked for (also through a
                     \* loop filter, which scans forward for the next passing item)
                     lp == IF lazyf THEN lp0 @@ [fk |-> Len(items) + 1, fid |-> "", ferr |-> ferr]
                           ELSE IF faulty THEN lp0 @@ [fk |-> Len(items) + 1, fid |-> itv.id] ELSE lp0
                     s0 == NewFrame([st EXCEPT !.flow = ""], ("loop" :> lp) @@ PreMap(node, "pre_body"))
                     E2 == [E EXCEPT !.sc = <<LastFrame(s0)>> \o E.sc, !.top = FALSE, !.loopd = E.loopd + 1]
                     s1 == AssignTarget(s0, E2, node.target, items[i])
                     s2 == ExSeq(node.body, s1, E2) IN
                 Iter(i + 1, s2)
        after == IF f.S.err # "" THEN f.S ELSE Iter(1, [f.S EXCEPT !.ns = Append(@, ("last" :> VMissing))])
        done == IF faulty /\ after.err = "" /\ after.flow # "break" THEN Fail(after, ferr).S
                ELSE [after EXCEPT !.flow = ""]
    IN IF done.err # "" THEN done
       ELSE IF items = <<>> /\ Has(node, "else") /\ ~faulty THEN InScope(node["else"], done, E, PreMap(node, "pre_else"))
       ELSE done

TplAuto(tname) == Tpls[tname].auto

\* the context an included / imported template gets
ChildCtx(s, tname, parentMap) ==
    LET s0 == NewFrame(s, EmptyMap) IN
    NewCtx(s0, [vars |-> LastFrame(s0), parent |-> parentMap, exported |-> {}, blocks |-> EmptyMap,
                par |-> "", tpl |-> tname, chain |-> <<>>, xg |-> EmptyMap,
                da |-> TplAuto(tname), ev |-> Len(s0.cx) + 1])

RootEnv(s, c, tname, dep) ==
    [sc |-> <<s.cx[c].vars>>, cx |-> c, auto |-> TplAuto(tname), vol |-> FALSE, tpl |-> tname, top |-> TRUE,
     roc |-> TRUE, blk |-> [name |-> "", idx |-> 0], loopd |-> 0, dep |-> dep]

\* register the blocks of template `tname` at the end of every block stack of context c
RegisterBlocks(s, c, tname) ==
    LET bs == Tpls[tname].blocks      \* record: block name -> [body, scoped, required]
        old == s.cx[c].blocks
        names == DOMAIN bs
        new == [n \in (DOMAIN old) \cup names |->
                   (IF n \in DOMAIN old THEN old[n] ELSE <<>>) \o
                   \* a block is compiled with the lexical mode of the place where it is written
                   (IF n \in names THEN <<[tpl |-> tname, body |-> bs[n].body,
                                           auto |-> (IF Fld(bs[n], "amode", "default") = "on" THEN TRUE
                                                     ELSE IF Fld(bs[n], "amode", "default") = "off" THEN FALSE
                                                     ELSE TplAuto(tname)),
                                           vol |-> Fld(bs[n], "amode", "default") = "vol",
                                           scoped |-> bs[n].scoped, required |-> bs[n].required,
                                           pre |-> PreMap(bs[n], "pre")]>> ELSE <<>>)]
    IN [s EXCEPT !.cx[c].blocks = new, !.cx[c].chain = Append(@, tname)]

\* render the root of template `tname` in context c (own blocks registered first), following
\* the chain of `extends`
RenderTemplateBody(tname, c, s, depth) ==
    IF depth > 12 THEN Fail(s, "EXCLUDED").S
    ELSE
    LET s00 == RegisterBlocks(s, c, tname)
        \* the template's own root level pre-declares its names (kept if already assigned)
        s0 == [s00 EXCEPT !.fr[s00.cx[c].vars] = @ @@ PreMap(Tpls[tname], "pre")]
        r == ExSeq(Tpls[tname].body, s0, RootEnv(s0, c, tname, depth + 1)) IN
    IF r.err # "" THEN r
    ELSE IF r.cx[c].par # "" THEN
         LET p == r.cx[c].par IN
         RenderTemplateBody(p, c, [r EXCEPT !.cx[c].par = ""], depth + 1)
    ELSE r

\* make_module: render the template in a fresh context, collect exported names
MakeModule(tname, parentMap, s, E) ==
    LET s0 == ChildCtx([s EXCEPT !.out = <<>>], tname, parentMap)
        c == LastCtx(s0)
        r == RenderTemplateBody(tname, c, s0, E.dep + 1) IN
    IF r.err # "" THEN R(VNone, [r EXCEPT !.out = s.out])
    ELSE LET ex == r.cx[c].exported
             attrs == [n \in {x \in ex : r.fr[r.cx[c].vars][x].t # "missing"} |-> r.fr[r.cx[c].vars][n]] IN
         R([t |-> "module", tpl |-> tname, attrs |-> attrs, body |-> VStr(r.out, TplAuto(tname))],
           [r EXCEPT !.out = s.out])

Globals == Case.globals          \* record: name -> value (environment globals incl. builtins)

\* default (context-free) module of a template: rendered once with globals only, then cached
DefaultModule(tname, s, E) ==
    IF MapHas(s.mods, tname) THEN R(s.mods[tname], s)
    ELSE LET m == MakeModule(tname, Globals, s, E) IN
         IF Bad(m) THEN m ELSE R(m.v, [m.S EXCEPT !.mods = MapSet(@, tname, m.v)])

\* resolve the template expression of include / import / extends:
\* a name, a template object (data value "tplobj": a loaded template, used as it is), or a list of
\* names / template objects (first existing wins)
Usable(x) == (x.t = "str" /\ KeyName(x) # "?" /\ HasTpl(KeyName(x))) \/ x.t = "tplobj"
NameOfT(x) == IF x.t = "tplobj" THEN x.n ELSE KeyName(x)
PickTemplate(v) ==
    CASE v.t = "str" -> IF Usable(v) THEN [ok |-> TRUE, n |-> KeyName(v)] ELSE [ok |-> FALSE, n |-> ""]
      [] v.t = "tplobj" -> [ok |-> TRUE, n |-> v.n]
      [] v.t = "list" ->
           LET idx == {i \in 1..Len(v.v) : Usable(v.v[i])} IN
           IF idx = {} THEN [ok |-> FALSE, n |-> ""]
           ELSE [ok |-> TRUE, n |-> NameOfT(v.v[CHOOSE i \in idx : \A j \in idx : i <= j])]
      [] OTHER -> [ok |-> FALSE, n |-> "?"]

Ex(st, s, E) ==
    IF s.err # "" \/ s.flow # "" THEN s
    ELSE
    CASE st.k = "text" ->
           IF Suppressed(s, E) THEN s ELSE Emit(s, <<Seg(st.s, 0, "tpl")>>)
      [] st.k = "out" ->
           \* outside of blocks a child template does not even evaluate the expression
           IF Suppressed(s, E) THEN s ELSE
           LET r == Ev(st.e, s, E) IN
           IF Bad(r) THEN r.S
           ELSE LET o == IF r.v.t = "obj" /\ "str" \in DOMAIN Objs[r.v.id]
                         THEN (IF Objs[r.v.id].str.t = "raiser" THEN Err("Raised:" \o Objs[r.v.id].str.id)
                               ELSE OutputOf(Objs[r.v.id].str, Mode(E, r.S), UK))
                         ELSE OutputOf(r.v, Mode(E, r.S), UK)
                    s1 == IF Fld(Case, "emit_values", FALSE) /\ r.v.t \in {"int", "bool", "none", "str", "list", "dict", "undef", "obj", "fn", "float"}
                          THEN Log(r.S, <<"value", r.v>>) ELSE r.S IN
                IF ~o.ok THEN Fail(s1, o.err).S
                ELSE IF Suppressed(s1, E) THEN s1 ELSE Emit(s1, Written(o.v.s, Mode(E, s1)))
      [] st.k = "if" ->
           \* branches share the enclosing scope
           LET RECURSIVE Br(_, _)
               Br(i, ss) ==
                 IF i > Len(st.tests) THEN (IF Has(st, "else") THEN ExSeq(st["else"], ss, E) ELSE ss)
                 ELSE LET r == Ev(st.tests[i], ss, E) IN
                      IF Bad(r) THEN r.S
                      ELSE LET t == TruthR(r.v, r.S) IN
                           IF Bad(t) THEN t.S
                           ELSE IF t.v.b THEN ExSeq(st.bodies[i], t.S, E) ELSE Br(i + 1, t.S)
           IN Br(1, s)
      [] st.k = "for" ->
           LET r == Ev(st.iter, s, E) IN
           IF Bad(r) THEN r.S ELSE RunLoop(st, r.v, 0, r.S, E, FALSE, FALSE)
      [] st.k = "set" ->
           LET r == Ev(st.e, s, E) IN IF Bad(r) THEN r.S ELSE AssignTarget(r.S, E, st.target, r.v)
      [] st.k = "setblock" ->
           LET c == Capture(st.body, s, E, PreMap(st, "pre")) IN
           IF c.S.err # "" THEN c.S
           ELSE LET v0 == VStr(c.text, Mode(E, c.S))
                    r == IF Has(st, "filter")
                         THEN ApplyFilter(st.filter, v0, <<>>, [n |-> <<>>, v |-> <<>>], c.S, E)
                         ELSE R(v0, c.S) IN
                IF Bad(r) THEN r.S ELSE AssignTarget(r.S, E, st.target, r.v)
      [] st.k = "with" ->
           \* values are evaluated in the enclosing scope, then bound together
           LET r == EvList(st.vals, s, E) IN
           IF Bad(r) THEN r.S ELSE InScope(st.body, r.S, E, MapFromSeqs(st.names, r.v) @@ PreMap(st, "pre"))
      [] st.k = "macro" ->
           LET m == [t |-> "macro", name |-> st.name, params |-> st.params, defaults |-> st.defaults,
                     body |-> st.body, sc |-> E.sc, cx |-> E.cx, auto |-> E.auto, vol |-> E.vol, tpl |-> E.tpl,
                     varargs |-> st.varargs, kwargs |-> st.kwargs, caller |-> st.caller, blk |-> E.blk,
                     pre |-> PreMap(st, "pre")]
           IN Assign(s, E, st.name, m, Fld(st, "exp", TRUE))
      [] st.k = "callblock" ->
           \* {% call(params) f(args) %}body{% endcall %}: the body becomes the `caller` macro
           LET cm == [t |-> "macro", name |-> "caller", params |-> st.params, defaults |-> st.defaults,
                      body |-> st.body, sc |-> E.sc, cx |-> E.cx, auto |-> E.auto, vol |-> E.vol, tpl |-> E.tpl,
                      varargs |-> FALSE, kwargs |-> FALSE, caller |-> FALSE, blk |-> E.blk,
                      pre |-> PreMap(st, "pre")]
               f == Ev(st.f, s, E) IN
           IF Suppressed(s, E) THEN s
           ELSE IF Bad(f) THEN f.S
           ELSE LET as == EvList(st.args, f.S, E) IN
                IF Bad(as) THEN as.S
                ELSE LET ks == EvList(st.kwvals, as.S, E) IN
                     IF Bad(ks) THEN ks.S
                     ELSE LET r == CallValue(f.v, as.v, [n |-> Append(st.kwnames, "caller"), v |-> Append(ks.v, cm)], ks.S, E) IN
                          IF Bad(r) THEN r.S
                          ELSE LET o == OutputOf(r.v, Mode(E, r.S), UK) IN
                               IF ~o.ok THEN Fail(r.S, o.err).S
                               ELSE Emit(r.S, Written(o.v.s, Mode(E, r.S)))
      [] st.k = "filterblock" ->
           LET c == Capture(st.body, s, E, PreMap(st, "pre")) IN
           IF Suppressed(s, E) THEN s
           ELSE IF c.S.err # "" THEN c.S
           ELSE LET as == EvList(Fld(st, "args", <<>>), c.S, E) IN
                IF Bad(as) THEN as.S
                ELSE LET r == ApplyFilter(st.filter, VStr(c.text, Mode(E, as.S)), as.v, [n |-> <<>>, v |-> <<>>], as.S, E) IN
                     IF Bad(r) THEN r.S
                     ELSE LET o == OutputOf(r.v, Mode(E, r.S), UK) IN
                          IF ~o.ok THEN Fail(r.S, o.err).S
                          ELSE Emit(r.S, Written(o.v.s, Mode(E, r.S)))
      [] st.k = "autoescape" ->
           \* the whole statement is a scope of its own (like with): also the switch expression is evaluated inside it,
           \* so a name the enclosing level assigns later is already that level's (still unassigned) local here
           LET sF == NewFrame(s, PreMap(st, "pre"))
               EF == [E EXCEPT !.sc = <<LastFrame(sF)>> \o E.sc, !.top = FALSE]
               r == Ev(st.e, sF, EF) IN
           IF Bad(r) THEN r.S
           \* (the real block stores the value and takes its truth at each use; a strict undefined
           \* would fail at the first use instead of here)
           ELSE IF r.v.t = "undef" /\ UKof(r.v, UK) = "strict" THEN Fail(r.S, "EXCLUDED").S
           ELSE LET t == TruthR(r.v, r.S) IN
                IF Bad(t) THEN t.S
                ELSE \* A constant expression switches the lexical mode; any other makes the body
                     \* volatile.  The dynamic mode is set for the body and restored however it ends.
                     LET old == DA(t.S, E.cx)
                         E2 == IF st.e.k = "const" THEN [EF EXCEPT !.auto = t.v.b] ELSE [EF EXCEPT !.vol = TRUE]
                         r2 == ExSeq(st.body, SetDA(t.S, E.cx, t.v.b), E2) IN
                     SetDA(r2, E.cx, old)
      [] st.k = "do" -> LET r == Ev(st.e, s, E) IN r.S       \* {% do expr %}: evaluated for its effects only
      [] st.k = "break" -> [s EXCEPT !.flow = "break"]
      [] st.k = "continue" -> [s EXCEPT !.flow = "continue"]
      [] st.k = "block" ->
           \* at the top level of a template that extends, blocks are only definitions
           IF Suppressed(s, E) THEN s
           ELSE LET stack == s.cx[E.cx].blocks[st.name]
                    def == stack[1] IN
                IF \A i \in 1..Len(stack) : stack[i].required THEN Fail(s, "TemplateRuntimeError").S
                ELSE IF def.required THEN Fail(s, "TemplateRuntimeError").S
                ELSE
                LET sA == IF st.scoped
                          THEN \* scoped: a derived context that also holds the visible locals
                               LET s0 == NewFrame(s, EmptyMap) IN
                               NewCtx(s0, [vars |-> LastFrame(s0), parent |-> Visible(s, E), exported |-> {},
                                           blocks |-> s.cx[E.cx].blocks, par |-> "", tpl |-> s.cx[E.cx].tpl,
                                           chain |-> s.cx[E.cx].chain, xg |-> EmptyMap,
                                           da |-> FALSE, ev |-> s.cx[E.cx].ev])      \* derived: shares the eval context
                          ELSE s
                    cB == IF st.scoped THEN LastCtx(sA) ELSE E.cx
                    s0 == NewFrame(sA, def.pre)
                    E2 == [sc |-> <<LastFrame(s0)>>, cx |-> cB, auto |-> def.auto, vol |-> def.vol, tpl |-> def.tpl,
                           top |-> FALSE, roc |-> FALSE,
                           blk |-> [name |-> st.name, idx |-> 1], loopd |-> 0, dep |-> E.dep + 1] IN
                ExSeq(def.body, s0, E2)
      [] st.k = "extends" ->
           LET r == Ev(st.e, s, E) IN
           IF Bad(r) THEN r.S
           ELSE LET p == PickTemplate(r.v) IN
                IF p.n = "?" THEN Fail(r.S, "EXCLUDED").S
                ELSE IF ~p.ok THEN Fail(r.S, "TemplateNotFound").S
                ELSE IF r.S.cx[E.cx].par # "" THEN Fail(r.S, "TemplateRuntimeError").S   \* extended twice
                ELSE LET s1 == Log(r.S, <<"load", E.tpl, p.n>>)
                         s2 == RegisterBlocks(s1, E.cx, p.n) IN
                     [s2 EXCEPT !.cx[E.cx].par = p.n]
      [] st.k = "include" ->
           LET r == Ev(st.e, s, E) IN
           IF Suppressed(s, E) THEN s       \* outside of blocks a child template includes nothing
           ELSE IF Bad(r) THEN r.S
           ELSE LET p == PickTemplate(r.v) IN
                IF p.n = "?" THEN Fail(r.S, "EXCLUDED").S
                ELSE IF ~p.ok THEN (IF st.ignore_missing THEN r.S ELSE Fail(r.S, "TemplateNotFound").S)
                ELSE LET s1 == Log(r.S, <<"load", E.tpl, p.n>>) IN
                     IF st.with_context THEN
                         LET s2 == ChildCtx([s1 EXCEPT !.out = <<>>], p.n, Visible(s1, E))
                             rr == RenderTemplateBody(p.n, LastCtx(s2), s2, E.dep + 1) IN
                         IF rr.err # "" THEN [rr EXCEPT !.out = s1.out]
                         ELSE [rr EXCEPT !.out = s1.out \o rr.out]
                     ELSE LET m == DefaultModule(p.n, s1, E) IN
                          IF Bad(m) THEN m.S
                          ELSE Emit(m.S, m.v.body.s)
      [] st.k \in {"import", "fromimport"} ->
           LET r == Ev(st.e, s, E) IN
           IF Bad(r) THEN r.S
           ELSE LET p == PickTemplate(r.v) IN
                IF p.n = "?" THEN Fail(r.S, "EXCLUDED").S
                ELSE IF ~p.ok THEN Fail(r.S, "TemplateNotFound").S
                ELSE LET s1 == Log(r.S, <<"load", E.tpl, p.n>>)
                         \* an importer whose context has template-level globals the imported template lacks
                         \* gets a fresh module that can see them; it is never cached (documented)
                         xg == s1.cx[E.cx].xg
                         m == IF st.with_context THEN MakeModule(p.n, Visible(s1, E), s1, E)
                              ELSE IF DOMAIN xg # {} THEN MakeModule(p.n, xg @@ Globals, s1, E)
                              ELSE DefaultModule(p.n, s1, E) IN
                     IF Bad(m) THEN m.S
                     ELSE IF st.k = "import" THEN
                          \* imported names are assigned but never exported; at the top level a name that an
                          \* earlier assignment exported stops being exported (the binding is the import's now)
                          Unexport(SetVar(m.S, Head(E.sc), st.target, m.v), E, {st.target})
                     ELSE LET RECURSIVE Go(_, _)
                              Go(i, ss) ==
                                IF i > Len(st.names) THEN ss
                                ELSE LET nm == st.names[i]
                                         val == IF MapHas(m.v.attrs, nm.n) THEN m.v.attrs[nm.n]
                                                ELSE VUndef([k |-> "hint", n |-> "does not export " \o nm.n]) IN
                                     Go(i + 1, SetVar(ss, Head(E.sc), nm.as, val))
                          \* it is the local names (the aliases) that stop being exported, not the names they have in
                          \* the imported template
                          IN Unexport(Go(1, m.S), E, {st.names[i].as : i \in 1..Len(st.names)})
      [] OTHER -> Fail(s, "EXCLUDED").S

(* ================================================================================= *)
(* The state machine                                                                 *)
(* ================================================================================= *)
Data == Case.datas[did]          \* record: name -> value (render arguments)
\* globals given to get_template() for the main template only ("template-level globals")
TGlobals == IF "tglobals" \in DOMAIN Case THEN Case.tglobals ELSE EmptyMap
\* the second render of a case may fetch the main template again with other template-level globals
\* (get_template(name, globals=...) on a cached template updates its globals)
HasTG2 == "tglobals2" \in DOMAIN Case
TGlobals2 == IF HasTG2 THEN Case.tglobals2 ELSE TGlobals

InitS ==
    LET top == EmptyMap IN
    [fr |-> <<top>>, ns |-> <<>>,
     cx |-> <<[vars |-> 1, parent |-> Data @@ TGlobals @@ Globals, exported |-> {}, blocks |-> EmptyMap,
               par |-> "", tpl |-> Case.main, chain |-> <<>>, xg |-> TGlobals,
               da |-> Tpls[Case.main].auto, ev |-> 1]>>,
     out |-> <<>>, log |-> <<>>, err |-> "", flow |-> "", mods |-> EmptyMap]

Init ==
    /\ cid \in 1..Len(Cases)
    /\ did \in 1..Len(Cases[cid].datas)
    /\ phase = "render"
    /\ S = LET s0 == RegisterBlocks(InitS, 1, Cases[cid].main) IN
           [s0 EXCEPT !.fr[1] = IF Cases[cid].cfg.predeclare /\ "pre" \in DOMAIN Cases[cid].tpls[Cases[cid].main]
                                  THEN LET pr == Cases[cid].tpls[Cases[cid].main].pre IN
                                       [n \in {pr[i] : i \in 1..Len(pr)} |-> VMissing]
                                  ELSE EmptyMap]
    /\ todo = Cases[cid].tpls[Cases[cid].main].body
    /\ rootcx = 1
    /\ result = <<>>
    /\ npass = 1
    /\ first = <<>>

\* one top-level statement of the template currently being rendered at the root
StepTop ==
    /\ phase = "render"
    /\ todo # <<>> /\ S.err = ""
    /\ S' = Ex(Head(todo), S, RootEnv(S, rootcx, S.cx[rootcx].tpl, 0))
    /\ todo' = Tail(todo)
    /\ UNCHANGED <<cid, did, phase, rootcx, result, npass, first>>

\* the template extended another one: continue with the parent's root, same context
StepParent ==
    /\ phase = "render"
    /\ todo = <<>> /\ S.err = "" /\ S.cx[rootcx].par # ""
    /\ LET p == S.cx[rootcx].par IN
       /\ S' = [S EXCEPT !.cx[rootcx].par = "", !.cx[rootcx].tpl = p,
                          !.fr[S.cx[rootcx].vars] = @ @@ PreMap(Tpls[p], "pre")]
       /\ todo' = Tpls[p].body
    /\ UNCHANGED <<cid, did, phase, rootcx, result, npass, first>>

Observable ==
    [id |-> Case.id, d |-> did, err |-> S.err,
     out |-> IF S.err = "" THEN NormSegs(S.out) ELSE <<>>,
     log |-> S.log]

Finish ==
    /\ phase = "render"
    /\ S.err # "" \/ (todo = <<>> /\ S.cx[rootcx].par = "")
    /\ phase' = IF npass = 1 /\ Fld(Cfg, "rerender", FALSE) THEN "again" ELSE "done"
    /\ result' = Observable
    /\ first' = IF npass = 1 THEN [err |-> Observable.err, out |-> Observable.out] ELSE first
    /\ IF npass = 1 THEN PrintT(ToJson(Observable))
       ELSE IF HasTG2 THEN PrintT(ToJson([Observable EXCEPT !.d = did + 1000]))     \* the second render is observed too
       ELSE TRUE
    /\ UNCHANGED <<cid, did, S, todo, rootcx, npass>>

\* C29: render the same template on the same data again in the same engine: everything
\* starts afresh except what the engine keeps between renders (the cached default modules)
Again ==
    /\ phase = "again"
    /\ phase' = "render"
    /\ npass' = 2
    /\ LET s0 == NewFrame([S EXCEPT !.out = <<>>, !.log = <<>>, !.err = "", !.flow = ""], PreMap(Tpls[Case.main], "pre"))
           s1 == NewCtx(s0, [vars |-> LastFrame(s0), parent |-> Data @@ TGlobals2 @@ Globals, exported |-> {}, blocks |-> EmptyMap,
                             par |-> "", tpl |-> Case.main, chain |-> <<>>, xg |-> TGlobals2,
                             da |-> Tpls[Case.main].auto, ev |-> Len(s0.cx) + 1])
       IN /\ S' = RegisterBlocks(s1, LastCtx(s1), Case.main)
          /\ rootcx' = LastCtx(s1)
    /\ todo' = Tpls[Case.main].body
    /\ UNCHANGED <<cid, did, result, first>>

Next == StepTop \/ StepParent \/ Finish \/ Again

Spec == Init /\ [][Next]_vars

(* -- properties checked on every state -------------------------------------------------- *)
\* C15: every output segment that stems from context data or from a string literal has been escaped
\* at least once, unless the program itself marks values safe (Case.marks_safe) or the segment was
\* written by a statement whose autoescape mode is off (a template the selector does not escape, an
\* {% autoescape false %} block: origin tags "off-data" / "off-lit", see OffTag)
C15_NoLeak ==
    ~Case.marks_safe =>
        \A i \in 1..Len(S.out) : S.out[i].o \in {"data", "lit"} => S.out[i].e >= 1

\* C16: escaping-neutral programs escape every such segment exactly once
C16_ExactlyOnce ==
    (Cfg.all_auto /\ Case.neutral) =>
        \A i \in 1..Len(S.out) : S.out[i].o \in {"data", "lit"} => S.out[i].e = 1

\* under autoescaping template text is never escaped (captured text is Markup); without
\* autoescaping a captured block is a plain string and an explicit |e may escape it
C15_TemplateTextVerbatim == Cfg.all_auto => \A i \in 1..Len(S.out) : S.out[i].o = "tpl" => S.out[i].e = 0

\* without autoescaping anywhere nothing is ever escaped unless the program asks for it
C16_OffNeverEscapes ==
    (Cfg.none_auto /\ Case.neutral) => \A i \in 1..Len(S.out) : S.out[i].e = 0

\* C32: the interpreter only looks up, in a template's context, names that occur in that template
\* (syntactic fact `names` supplied with the program), and only loads templates that the loading
\* template references by a constant name, unless that template has a dynamic reference ("?")
SeqToSet(q) == {q[j] : j \in 1..Len(q)}
C32_LookupsSyntactic ==
    \A j \in 1..Len(S.log) :
        /\ S.log[j][1] = "resolve" => S.log[j][3] \in SeqToSet(Tpls[S.log[j][2]].names)
        /\ S.log[j][1] = "load" =>
              (S.log[j][3] \in SeqToSet(Tpls[S.log[j][2]].refs) \/ "?" \in SeqToSet(Tpls[S.log[j][2]].refs))

\* C29: a second render in the same engine gives the same result as the first
C29_Repeatable == (phase = "done" /\ npass = 2 /\ ~HasTG2) => [err |-> result.err, out |-> result.out] = first

\* C04: in every context the stack of definitions of a block lists, most derived first, exactly
\* the templates of the inheritance chain (in chain order) that define the block
RECURSIVE ChainDefs(_, _)
ChainDefs(chain, n) ==
    IF chain = <<>> THEN <<>>
    ELSE (IF n \in DOMAIN Tpls[Head(chain)].blocks THEN <<Head(chain)>> ELSE <<>>) \o ChainDefs(Tail(chain), n)
C04_StackIsChainOrder ==
    \A c \in 1..Len(S.cx) : \A n \in DOMAIN S.cx[c].blocks :
        [i \in 1..Len(S.cx[c].blocks[n]) |-> S.cx[c].blocks[n][i].tpl] = ChainDefs(S.cx[c].chain, n)

\* C03: statement execution leaves no control-flow residue at top level and every
\* context's variable frame exists
C03_WellFormed ==
    /\ S.flow \in {"", "break", "continue"}
    /\ \A c \in 1..Len(S.cx) : S.cx[c].vars \in 1..Len(S.fr)
    /\ \A c \in 1..Len(S.cx) : S.cx[c].exported \subseteq DOMAIN S.fr[S.cx[c].vars]
=============================================================================
