----------------------------- MODULE DataFault -----------------------------
(***************************************************************************)
(* C38, code -> spec: every exception a data object raises ends the render  *)
(* with that exception, at whatever access of the object it is raised -     *)
(* including the accesses the engine makes on its own (the jinja_pass_arg   *)
(* probe before a call, the __html__ probe before escaping ...).            *)
(*                                                                         *)
(* The harness renders a template over a callable data object whose        *)
(* __getattr__ records every name it is asked for, once without a fault    *)
(* and once for every recorded access k with a private exception raised    *)
(* exactly there.  A recorded run is the sequence of events                *)
(*    access  (an access answered normally: a value or AttributeError)     *)
(*    fault   (the access that raises the private exception object X)      *)
(* followed by how the render ended: "ok" (returned text), "same" (raised  *)
(* the very object X), "other" (raised anything else).                     *)
(*                                                                         *)
(* The specification: accesses happen while the render runs; a fault moves *)
(* it to "faulted", from where the only step is Propagate, which ends the  *)
(* render with X.  There is deliberately no step that swallows a fault, no *)
(* access after a fault and no normal end after a fault, so a recorded run *)
(* in which the engine absorbs X, wraps it or carries on is not a          *)
(* behaviour of the specification and is rejected.                          *)
(* (Exceptions of the documented absorbing classes - AttributeError,       *)
(* LookupError, TypeError, StopIteration - are modelled in Jinja.tla; the  *)
(* private exception used here is none of them.)                           *)
(***************************************************************************)
EXTENDS Naturals, Sequences, FiniteSets, TLC, Json, IOUtils

Traces == JsonDeserialize(IOEnv.TRACE_FILE)       \* [ev: Seq("access" | "fault"), end: "ok" | "same" | "other"]

VARIABLES tid, l, phase
vars == <<tid, l, phase>>

Ev == Traces[tid].ev

Init == tid \in 1..Len(Traces) /\ l = 1 /\ phase = "run"

Access ==                      \* the engine or the template asks the object for something; it answers
    /\ phase = "run" /\ l <= Len(Ev) /\ Ev[l] = "access"
    /\ l' = l + 1 /\ UNCHANGED <<tid, phase>>

Fault ==                       \* the object raises its private exception at this access
    /\ phase = "run" /\ l <= Len(Ev) /\ Ev[l] = "fault"
    /\ phase' = "faulted" /\ l' = l + 1 /\ UNCHANGED tid

Propagate ==                   \* the render ends with that very exception
    /\ phase = "faulted" /\ l = Len(Ev) + 1 /\ Traces[tid].end = "same"
    /\ phase' = "raised" /\ UNCHANGED <<tid, l>>

Return ==                      \* no fault: the render returns
    /\ phase = "run" /\ l = Len(Ev) + 1 /\ Traces[tid].end = "ok"
    /\ phase' = "returned" /\ UNCHANGED <<tid, l>>

Next == Access \/ Fault \/ Propagate \/ Return
Spec == Init /\ [][Next]_vars

\* C38 on the model: a fault is never followed by a normal return
C38_FaultPropagates == phase = "returned" => \A i \in 1..Len(Ev) : Ev[i] # "fault"

Accepting == phase \in {"raised", "returned"}
Collect ==
    /\ TLCSet(2, [TLCGet(2) EXCEPT ![tid] = IF l - 1 > @ THEN l - 1 ELSE @])
    /\ IF Accepting THEN TLCSet(1, TLCGet(1) \cup {tid}) ELSE TRUE
ASSUME TLCSet(1, {})
ASSUME TLCSet(2, [t \in 1..Len(Traces) |-> 0])
Post ==
    LET rejected == (1..Len(Traces)) \ TLCGet(1) IN
    /\ PrintT(ToJson([rejected |-> [t \in rejected |-> TLCGet(2)[t]]]))
    /\ TRUE
=============================================================================
