---------------------------- MODULE LexerCache ----------------------------
(***************************************************************************)
(* C13, last sentence: "Creating and using such environments never changes *)
(* how previously configured environments render."                         *)
(*                                                                         *)
(* Lexers are shared between environments through the module-level         *)
(* lexer._lexer_cache (an LRU keyed by 12 environment options, get_lexer),  *)
(* and Template(source, options...) shares whole environments through       *)
(* get_spontaneous_environment (lru_cache keyed by the constructor          *)
(* arguments).  Environment.overlay copies an environment and changes some  *)
(* options.  Every access of env.lexer goes through get_lexer.              *)
(*                                                                         *)
(* Configurations: 0 is the base configuration, configuration f (1..12)    *)
(* differs from it in exactly field f of the 12 fields get_lexer keys on:  *)
(*  1 block_start 2 block_end 3 variable_start 4 variable_end              *)
(*  5 comment_start 6 comment_end 7 line_statement_prefix                  *)
(*  8 line_comment_prefix 9 trim_blocks 10 lstrip_blocks                   *)
(*  11 newline_sequence 12 keep_trailing_newline                           *)
(*                                                                         *)
(* Actions  NewEnv(c)        Environment with the options of c                *)
(*          Overlay(e, c)    envs[e].overlay(<the one option that differs>)*)
(*          TemplateCtor(c)  Template(source, options of c as keywords)          *)
(*          UseLexer(e)      envs[e] lexes / renders a template            *)
(*          Flood            enough other configurations are used to evict *)
(*                           every cached lexer and spontaneous environment*)
(* A lexer BEHAVES as the configuration it was built from.                 *)
(***************************************************************************)
EXTENDS Naturals, Sequences, FiniteSets, TLC, Json

CONSTANTS Cfgs,        \* configurations in play, a subset of 0..12
          KeyFields,   \* the fields get_lexer puts into the cache key (12 in the real code)
          Cap,         \* capacity of _lexer_cache (50 in the real code)
          SpontCap,    \* capacity of the spontaneous environment cache (10)
          MaxHist,     \* histories of at most MaxHist actions
          Emit         \* print every maximal history as JSON

VARIABLES envs,    \* sequence of environments, each the id of its configuration
          cache,   \* _lexer_cache: sequence of [key, lex] in recency order (oldest first)
          spont,   \* spontaneous environments: sequence of [cfg, env] in recency order
          obs,     \* last use: [env |-> configuration of the environment, lex |-> of the lexer it got]
          hist

vars == <<envs, cache, spont, obs, hist>>

Fields == 1..12
Val(c, f) == IF c = f THEN 1 ELSE 0            \* value of field f in configuration c
Key(c) == [f \in KeyFields |-> Val(c, f)]      \* get_lexer's key

\* configurations that differ in exactly one field (what overlay(option=...) can reach)
OneFieldApart(c, d) == Cardinality({f \in Fields : Val(c, f) # Val(d, f)}) = 1

Init ==
    /\ envs = <<>> /\ cache = <<>> /\ spont = <<>>
    /\ obs = [env |-> 0, lex |-> 0]
    /\ hist = <<>>

Log(ev) ==
    /\ Len(hist) < MaxHist
    /\ hist' = Append(hist, ev)
    /\ (Emit /\ Len(hist) + 1 = MaxHist) => PrintT(ToJson(Append(hist, ev)))

NewEnv(c) ==
    /\ envs' = Append(envs, c)
    /\ Log(<<"new", c>>)
    /\ UNCHANGED <<cache, spont, obs>>

Overlay(e, c) ==
    /\ OneFieldApart(envs[e], c)
    /\ envs' = Append(envs, c)
    /\ Log(<<"overlay", e, c>>)
    /\ UNCHANGED <<cache, spont, obs>>

\* get_spontaneous_environment: an environment for these arguments is
\* reused when still cached, otherwise created (and the oldest one dropped)
TemplateCtor(c) ==
    /\ LET hit == {i \in 1..Len(spont) : spont[i].cfg = c}
       IN  IF hit # {}
           THEN LET i == CHOOSE i \in hit : TRUE
                IN  /\ spont' = Append(SelectSeq(spont, LAMBDA x : x.cfg # c), spont[i])
                    /\ envs' = envs
                    /\ Log(<<"template", c, spont[i].env>>)
           ELSE LET new == Append(spont, [cfg |-> c, env |-> Len(envs) + 1])
                IN  /\ spont' = IF Len(new) > SpontCap THEN Tail(new) ELSE new
                    /\ envs' = Append(envs, c)
                    /\ Log(<<"template", c, Len(envs) + 1>>)
    /\ UNCHANGED <<cache, obs>>

\* env.lexer -> get_lexer(env): cache hit returns the cached lexer (whatever
\* it was built from), a miss builds one from this environment
UseLexer(e) ==
    /\ LET k == Key(envs[e])
           hit == {i \in 1..Len(cache) : cache[i].key = k}
       IN  IF hit # {}
           THEN LET i == CHOOSE i \in hit : TRUE
                IN  /\ obs' = [env |-> envs[e], lex |-> cache[i].lex]
                    /\ cache' = Append(SelectSeq(cache, LAMBDA x : x.key # k), cache[i])
           ELSE LET new == Append(cache, [key |-> k, lex |-> envs[e]])
                IN  /\ obs' = [env |-> envs[e], lex |-> envs[e]]
                    /\ cache' = IF Len(new) > Cap THEN Tail(new) ELSE new
    /\ Log(<<"use", e>>)
    /\ UNCHANGED <<envs, spont>>

Flood ==
    /\ cache # <<>> \/ spont # <<>>
    /\ cache' = <<>> /\ spont' = <<>>
    /\ Log(<<"flood">>)
    /\ UNCHANGED <<envs, obs>>

Next ==
    \/ \E c \in Cfgs : NewEnv(c)
    \/ \E e \in 1..Len(envs) : \E c \in Cfgs : Overlay(e, c)
    \/ \E c \in Cfgs : TemplateCtor(c)
    \/ \E e \in 1..Len(envs) : UseLexer(e)
    \/ Flood

Spec == Init /\ [][Next]_vars

(* every environment lexes as configured by its OWN options, whatever other *)
(* environments were created or used before or in between                   *)
C13_CacheKeepsConfigsApart == obs.lex = obs.env

\* a cached lexer was built from a configuration with exactly this key
C13_CacheEntriesConsistent == \A i \in 1..Len(cache) : cache[i].key = Key(cache[i].lex)

\* a reused spontaneous environment has the requested configuration
C13_SpontaneousEnvsConsistent == \A i \in 1..Len(spont) : envs[spont[i].env] = spont[i].cfg
=============================================================================
