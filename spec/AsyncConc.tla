------------------------------ MODULE AsyncConc ------------------------------
(***************************************************************************)
(* Concurrent async renders on one environment (property C37).             *)
(*                                                                         *)
(* N tasks each render their own template.  A task runs until it awaits a  *)
(* gate (an async data function that blocks); the scheduler then resumes   *)
(* any suspended task.  One TLA+ step = one scheduler step (run task t up  *)
(* to its next await), so the behaviours of the model are exactly the      *)
(* interleavings of await points.                                          *)
(*                                                                         *)
(* State every render has for itself (the abstract layer: a render is a    *)
(* function of its own template and variables): output so far, a counter   *)
(* (stands for namespace attributes, cycler position, top-level set        *)
(* variables), the loop stack (loop.index), the autoescape stack of its    *)
(* evaluation context, the module bound by its last import, its call       *)
(* stack (include / module body / macro body of an imported module, which  *)
(* may await).  Tasks may render the very same template                    *)
(* object (same name, same Template instance) with different variables.    *)
(*                                                                         *)
(* State the engine really shares between tasks (operational layer):       *)
(*   tcache  the environment's template cache: an LRU list of              *)
(*           (name, template object), capacity Cap (0 = no cache)          *)
(*   mcache  Template._module of every template object, filled by          *)
(*           _get_default_module_async: check - await (render the module   *)
(*           body, which may suspend) - set.  Only modules rendered        *)
(*           without importer-specific globals are cached; imports `with   *)
(*           context` and imports from a template that has extra globals   *)
(*           build a private module.                                       *)
(*                                                                         *)
(*   glob    a mutable object every render can reach (an environment       *)
(*           global / the same object passed to every render: a dict or a  *)
(*           list).  The runtime builds per-render objects FROM it         *)
(*           (namespace(glob), dict(glob), glob|list: op Copy): these are  *)
(*           copies, owned by the render (its counter starts at the shared *)
(*           value); the shared object itself is never written by Inc.     *)
(*           Mutant AliasCopy: the built object IS the shared one.         *)
(*                                                                         *)
(* C37_OutputsAsIfAlone: whenever a task finishes, its output equals what  *)
(* the same task produces when it runs alone from the initial state.       *)
(* Mutant switches (Placeholder, CacheCtx) describe two plausible wrong    *)
(* designs; TLC must refute them (detection self-test).                    *)
(***************************************************************************)
EXTENDS Naturals, Sequences, FiniteSets, TLC, Json, IOUtils

CONSTANTS Placeholder,   \* mutant: _module is set to an empty module before the body is awaited
          CacheCtx,      \* mutant: a module rendered with importer-specific globals is cached too
          AliasCopy,     \* mutant: an object built from a shared mutable object aliases it instead of copying
          MaxObj         \* bound on template objects created per behaviour

Sets == JsonDeserialize(IOEnv.SET_FILE)

VARIABLES sid,      \* scenario
          ts,       \* per task state
          sh,       \* shared engine state
          sched,    \* history: the scheduler's choices so far
          alone     \* per task: the output of the isolated render (abstract layer), fixed at Init

vars == <<sid, ts, sh, sched, alone>>

Sc == Sets[sid]
NTasks == Len(Sc.tasks)
Tasks == 1..NTasks

NoMod == [name |-> "", me |-> "", tg |-> "", text |-> <<>>, complete |-> FALSE, none |-> TRUE]

Frame(kind, code) ==
    [kind |-> kind, code |-> code, pc |-> 1, loops |-> <<>>, mod |-> "", obj |-> 0, me |-> "", tg |-> "",
     cache |-> FALSE, buf |-> <<>>, bind |-> TRUE, autos |-> <<>>, auto0 |-> FALSE]

InitTask(sc, t) ==
    [stack |-> <<[Frame("main", sc.tasks[t].prog) EXCEPT !.auto0 = sc.tasks[t].html]>>, ctr |-> 0, al |-> FALSE, alias |-> NoMod,
     out |-> <<>>, done |-> FALSE, started |-> FALSE]

InitShared(sc) == [tcache |-> <<>>, next |-> 1, mcache |-> [o \in 1..MaxObj |-> NoMod], glob |-> sc.g0]

(* -- the environment's template cache (atomic: get_template never awaits) --- *)
Hit(tc, name) == {i \in 1..Len(tc) : tc[i].name = name}

GetTemplate(s, name, cap) ==
    LET h == Hit(s.tcache, name) IN
    IF h # {}
    THEN LET i == CHOOSE i \in h : TRUE
             e == s.tcache[i]
             rest == SelectSeq(s.tcache, LAMBDA x : x.name # name)
         IN [s |-> [s EXCEPT !.tcache = <<e>> \o rest], obj |-> e.obj]
    ELSE LET e == [name |-> name, obj |-> s.next]
             full == <<e>> \o s.tcache
             kept == IF cap = 0 THEN <<>> ELSE SubSeq(full, 1, IF Len(full) > cap THEN cap ELSE Len(full))
         IN [s |-> [s EXCEPT !.tcache = kept, !.next = s.next + 1], obj |-> s.next]

(* -- running one task up to its next await ------------------------------------ *)
Top(st) == st.stack[Len(st.stack)]
SetTop(st, f) == [st EXCEPT !.stack[Len(st.stack)] = f]
Pop(st) == [st EXCEPT !.stack = SubSeq(st.stack, 1, Len(st.stack) - 1)]
Push(st, f) == [st EXCEPT !.stack = Append(st.stack, f)]
Adv(st) == SetTop(st, [Top(st) EXCEPT !.pc = @ + 1])
\* output goes to the render's stream, or - while a module body is rendered - to that module's body
Emit(st, s) == IF Top(st).kind = "modbody"
               THEN SetTop(st, [Top(st) EXCEPT !.buf = Append(@, s)])
               ELSE [st EXCEPT !.out = Append(st.out, s)]
EmitAll(st, ss) == [st EXCEPT !.out = st.out \o ss]
\* every template activation (main, include) has its own evaluation context; its initial
\* autoescape mode comes from the template (task.html: the task's own template autoescapes,
\* e.g. page.html vs mail.txt under select_autoescape; shared templates do not)
Auto(st) == LET a == Top(st).autos IN IF a = <<>> THEN Top(st).auto0 ELSE a[Len(a)]

MacroText(m) == IF m.complete THEN "[" \o m.name \o m.tg \o m.me \o "]" ELSE "!undefined"

RECURSIVE Run(_, _, _, _)
\* sc scenario, task = its static description, st task state, s shared state
\* result: [st, s] at the next suspension (or st.done)
Run(sc, task, st, s) ==
    IF st.stack = <<>> THEN [st |-> [st EXCEPT !.done = TRUE], s |-> s]
    ELSE
    LET f == Top(st) IN
    IF f.pc > Len(f.code)
    THEN IF f.kind = "modbody"
         THEN LET mv == [name |-> f.mod, me |-> f.me, tg |-> f.tg, text |-> f.buf, complete |-> TRUE, none |-> FALSE]
                  s2 == IF f.cache THEN [s EXCEPT !.mcache[f.obj] = mv] ELSE s
              IN IF f.bind THEN Run(sc, task, [Pop(st) EXCEPT !.alias = mv], s2)
                 ELSE Run(sc, task, EmitAll(Pop(st), mv.text), s2)     \* include without context
         ELSE Run(sc, task, Pop(st), s)
    ELSE
    LET o == f.code[f.pc] IN
    CASE o.op = "T" -> Run(sc, task, Emit(Adv(st), o.s), s)
      [] o.op = "G" -> [st |-> Adv(st), s |-> s]                       \* await: suspend here
      [] o.op = "Me" -> Run(sc, task, Emit(Adv(st), task.me), s)
      [] o.op = "Reset" -> Run(sc, task, [Adv(st) EXCEPT !.ctr = 0, !.al = FALSE], s)    \* a fresh object
      [] o.op = "Copy" ->   \* the render's counter object is built from the shared object: a copy of it
            IF AliasCopy THEN Run(sc, task, [Adv(st) EXCEPT !.al = TRUE], s)
            ELSE Run(sc, task, [Adv(st) EXCEPT !.ctr = s.glob, !.al = FALSE], s)
      [] o.op = "Inc" -> IF st.al THEN Run(sc, task, Adv(st), [s EXCEPT !.glob = @ + 1])
                         ELSE Run(sc, task, [Adv(st) EXCEPT !.ctr = @ + 1], s)
      [] o.op = "Show" -> Run(sc, task, Emit(Adv(st), ToString(IF st.al THEN s.glob ELSE st.ctr)), s)
      [] o.op = "AutoSet" -> Run(sc, task, SetTop(st, [f EXCEPT !.pc = @ + 1, !.autos = Append(@, o.b)]), s)
      [] o.op = "AutoEnd" -> Run(sc, task, SetTop(st, [f EXCEPT !.pc = @ + 1,
                                                              !.autos = SubSeq(@, 1, Len(@) - 1)]), s)
      [] o.op = "Esc" -> Run(sc, task, Emit(Adv(st), IF Auto(st) THEN "&lt;" ELSE "<"), s)
      [] o.op = "LoopBegin" ->
            Run(sc, task, SetTop(st, [f EXCEPT !.pc = @ + 1,
                                              !.loops = Append(@, [pc |-> f.pc, i |-> 1, n |-> o.n])]), s)
      [] o.op = "Idx" -> Run(sc, task, Emit(Adv(st), ToString(f.loops[Len(f.loops)].i)), s)
      [] o.op = "LoopEnd" ->
            LET l == f.loops[Len(f.loops)] IN
            IF l.i < l.n
            THEN Run(sc, task, SetTop(st, [f EXCEPT !.pc = l.pc + 1, !.loops[Len(f.loops)].i = l.i + 1]), s)
            ELSE Run(sc, task, SetTop(st, [f EXCEPT !.pc = @ + 1,
                                                    !.loops = SubSeq(@, 1, Len(@) - 1)]), s)
      [] o.op = "Get" ->    \* extends: the parent template is fetched through the template cache
            Run(sc, task, Adv(st), GetTemplate(s, o.t, sc.cap).s)
      [] o.op = "Inc_" ->   \* include a shared template with context
            LET g == GetTemplate(s, o.t, sc.cap) IN
            Run(sc, task, Push(Adv(st), Frame("inc", sc.tmpls[o.t])), g.s)
      [] o.op = "Imp" ->
            LET g == GetTemplate(s, o.m, sc.cap)
                private == o.ctx \/ task.tg # ""
                cacheable == ~private \/ (CacheCtx /\ ~o.ctx)
                cached == g.s.mcache[g.obj]
                body == [Frame("modbody", sc.mods[o.m]) EXCEPT
                            !.mod = o.m, !.obj = g.obj, !.cache = cacheable,
                            !.me = IF o.ctx THEN task.me ELSE "",
                            !.tg = task.tg]
                s3 == IF Placeholder /\ cacheable
                      THEN [g.s EXCEPT !.mcache[g.obj] = [NoMod EXCEPT !.none = FALSE, !.name = o.m]]
                      ELSE g.s
            IN IF cacheable /\ ~cached.none
               THEN Run(sc, task, [Adv(st) EXCEPT !.alias = cached], g.s)
               ELSE Run(sc, task, Push(Adv(st), body), s3)
      [] o.op = "Call" -> Run(sc, task, Emit(Adv(st), MacroText(st.alias)), s)
      [] o.op = "CallG" ->  \* {{ m.gmac() }}: a macro of the bound module whose body awaits.  Its text is
                            \* markup-safe for an autoescaping caller and plain otherwise: the same characters
            IF st.alias.complete
            THEN Run(sc, task, Push(Adv(st), Frame("mac", sc.macs[st.alias.name])), s)
            ELSE Run(sc, task, Emit(Adv(st), "!undefined"), s)
      [] o.op = "Str" -> Run(sc, task, EmitAll(Adv(st), st.alias.text), s)    \* {{ m }}: the module's body
      [] o.op = "IncN" ->  \* include without context: the (always cacheable) default module's body
            LET g == GetTemplate(s, o.m, sc.cap)
                cached == g.s.mcache[g.obj]
                body == [Frame("modbody", sc.mods[o.m]) EXCEPT
                            !.mod = o.m, !.obj = g.obj, !.cache = TRUE, !.bind = FALSE]
                s3 == IF Placeholder
                      THEN [g.s EXCEPT !.mcache[g.obj] = [NoMod EXCEPT !.none = FALSE, !.name = o.m]]
                      ELSE g.s
            IN IF ~cached.none
               THEN Run(sc, task, EmitAll(Adv(st), cached.text), g.s)
               ELSE Run(sc, task, Push(Adv(st), body), s3)

RECURSIVE RunAlone(_, _, _, _)
RunAlone(sc, task, st, s) ==
    IF st.done THEN st.out
    ELSE LET r == Run(sc, task, st, s) IN RunAlone(sc, task, r.st, r.s)

\* abstract layer: what task t of scenario sc renders when nobody else uses the environment
AloneOut(sc, t) == RunAlone(sc, sc.tasks[t], InitTask(sc, t), InitShared(sc))
Alone(t) == alone[t]

(* -- the scheduler ------------------------------------------------------------------- *)
Init ==
    /\ sid \in 1..Len(Sets)
    /\ ts = [t \in 1..Len(Sets[sid].tasks) |-> InitTask(Sets[sid], t)]
    /\ sh = InitShared(Sets[sid])
    /\ sched = <<>>
    /\ alone = [t \in 1..Len(Sets[sid].tasks) |-> AloneOut(Sets[sid], t)]

Step(t) ==
    /\ ~ts[t].done
    /\ sh.next <= MaxObj
    /\ LET r == Run(Sc, Sc.tasks[t], ts[t], sh) IN
       /\ ts' = [ts EXCEPT ![t] = [r.st EXCEPT !.started = TRUE]]
       /\ sh' = r.s
    /\ sched' = Append(sched, t)
    /\ UNCHANGED <<sid, alone>>

AllDone == \A t \in Tasks : ts[t].done

\* terminal states print the schedule and the outputs the specification expects
Finish ==
    /\ AllDone
    /\ sched # <<>> /\ sched[Len(sched)] # 0
    /\ PrintT(ToJson([sid |-> sid, sched |-> sched, outs |-> [t \in Tasks |-> ts[t].out]]))
    /\ sched' = Append(sched, 0)
    /\ UNCHANGED <<sid, ts, sh, alone>>

Next == (\E t \in Tasks : Step(t)) \/ Finish

Spec == Init /\ [][Next]_vars

(* -- properties ------------------------------------------------------------------------ *)
C37_OutputsAsIfAlone == \A t \in Tasks : ts[t].done => ts[t].out = Alone(t)

\* every prefix of a running task's output is a prefix of its isolated output
IsPrefix(a, b) == Len(a) <= Len(b) /\ SubSeq(b, 1, Len(a)) = a
C37_PrefixAsIfAlone == \A t \in Tasks : IsPrefix(ts[t].out, Alone(t))

\* the module cache only ever holds complete modules rendered without importer-specific state
C37_CacheContextFree ==
    \A o \in 1..MaxObj : ~sh.mcache[o].none => (sh.mcache[o].me = "" /\ sh.mcache[o].tg = "")
C37_CacheComplete ==
    \A o \in 1..MaxObj : ~sh.mcache[o].none => sh.mcache[o].complete

\* no render ever writes the object every render can reach
C37_SharedObjectUntouched == sh.glob = Sc.g0

\* the template cache respects its capacity and never holds a name twice
C37_TemplateCacheBound ==
    /\ Len(sh.tcache) <= (IF Sc.cap = 0 THEN 0 ELSE Sc.cap)
    /\ \A i, j \in 1..Len(sh.tcache) : i # j => sh.tcache[i].name # sh.tcache[j].name
=============================================================================
