--------------------------- MODULE NativeSession ---------------------------
(***************************************************************************)
(* Property C34, quantified over SEQUENCES of renders in one process.      *)
(*                                                                         *)
(* Native.tla states what ONE render returns.  The rule names nothing but  *)
(* the template's own output: "the Python literal value of its concatenated*)
(* text output".  So the result of a render is a function of the text of   *)
(* THAT render -- not of what was rendered before, and not of what the      *)
(* callers of earlier renders did with the values they were given (a       *)
(* returned list / dict / set belongs to the caller, who may change it).   *)
(*                                                                         *)
(* ABSTRACT LAYER.  A session is a sequence of steps                       *)
(*    Render(t)   some template / entry point / environment produces the   *)
(*                text t and returns a value                               *)
(*    Mutate(k)   the caller changes, in place, the value step k returned  *)
(* over four kinds of text:                                                *)
(*    m1, m2   two different texts that are literals of a mutable value    *)
(*             (list, dict, set, or a tuple holding one)                   *)
(*    imm      a literal of an immutable value                             *)
(*    txt      not a literal                                               *)
(* The template shape, the entry point and the environment are NOT         *)
(* parameters of Render: the rule does not mention them, every way of      *)
(* producing the text must behave the same (the harness varies them).      *)
(*                                                                         *)
(* OPERATIONAL LAYER, shaped like native_concat's last step: parsing the   *)
(* text (ast.literal_eval) builds a NEW object on the heap; the heap keeps *)
(* for every object the text it was parsed from and whether a caller has   *)
(* changed it since ("dirty").  Memoised = TRUE is the variant in which    *)
(* parse results are kept per text and handed out again; TLC shows that it *)
(* violates both properties (the harness asserts that it does).            *)
(*                                                                         *)
(* PROPERTIES                                                              *)
(*  C34_ValueOfOwnText      every render of a literal text returns an      *)
(*                          object that, at the moment it is returned, has *)
(*                          the literal value of that text (not dirty)     *)
(*  C34_ResultsNotShared    two renders never return the same mutable      *)
(*                          object                                         *)
(* Every complete session is printed with the expected observation of each *)
(* step (kind of result, the heap object, pristine) and replayed on the    *)
(* real NativeEnvironment.                                                 *)
(***************************************************************************)
EXTENDS Naturals, Sequences, FiniteSets, TLC, Json

CONSTANTS MaxSteps,     \* length of a session
          Memoised      \* FALSE: the documented behaviour; TRUE: parse results cached per text

Texts == {"m1", "m2", "imm", "txt"}
IsLiteral(t) == t # "txt"
IsMutable(t) == t \in {"m1", "m2"}

VARIABLES hist,   \* the session so far: sequence of step records (with the expected observation)
          heap,   \* objects built by parsing: sequence of [text, dirty]
          memo,   \* Memoised only: text -> heap id of its cached parse result (0 = none)
          pc      \* "run" | "reported"

vars == <<hist, heap, memo, pc>>

Init ==
    /\ hist = <<>> /\ heap = <<>>
    /\ memo = [t \in Texts |-> 0]
    /\ pc = "run"

\* a render whose output text is t
Render(t) ==
    /\ pc = "run" /\ Len(hist) < MaxSteps
    /\ LET hit == Memoised /\ memo[t] # 0
           id  == IF ~IsLiteral(t) THEN 0 ELSE IF hit THEN memo[t] ELSE Len(heap) + 1
       IN /\ heap' = IF IsLiteral(t) /\ ~hit THEN Append(heap, [text |-> t, dirty |-> FALSE]) ELSE heap
          /\ memo' = IF Memoised /\ IsLiteral(t) THEN [memo EXCEPT ![t] = id] ELSE memo
          /\ hist' = Append(hist, [op |-> "render", text |-> t, of |-> 0,
                                   kind |-> IF IsLiteral(t) THEN "literal" ELSE "text",
                                   obj |-> id,
                                   pristine |-> (id = 0 \/ ~heap'[id].dirty)])
    /\ UNCHANGED pc

\* the caller of step k changes the value it was given (only a mutable value can be changed)
Mutate(k) ==
    /\ pc = "run" /\ Len(hist) < MaxSteps - 1          \* a session ends with a render
    /\ k \in 1..Len(hist)
    /\ hist[k].op = "render" /\ IsMutable(hist[k].text)
    /\ heap' = [heap EXCEPT ![hist[k].obj].dirty = TRUE]
    /\ hist' = Append(hist, [op |-> "mutate", text |-> hist[k].text, of |-> k, kind |-> "-",
                             obj |-> hist[k].obj, pristine |-> FALSE])
    /\ UNCHANGED <<memo, pc>>

Report ==
    /\ pc = "run" /\ Len(hist) = MaxSteps /\ hist[Len(hist)].op = "render"
    /\ pc' = "reported"
    /\ PrintT(ToJson([session |-> hist]))
    /\ UNCHANGED <<hist, heap, memo>>

Next == (\E t \in Texts : Render(t)) \/ (\E k \in 1..MaxSteps : Mutate(k)) \/ Report

Spec == Init /\ [][Next]_vars

(* ---- properties ------------------------------------------------------------- *)
TypeOK ==
    /\ Len(hist) <= MaxSteps
    /\ \A k \in 1..Len(hist) : hist[k].op \in {"render", "mutate"} /\ hist[k].text \in Texts
    /\ \A i \in 1..Len(heap) : IsLiteral(heap[i].text) /\ heap[i].dirty \in BOOLEAN
    /\ pc \in {"run", "reported"}

\* what a render returns is the literal value of ITS text, whatever happened before
C34_ValueOfOwnText ==
    \A k \in 1..Len(hist) :
        hist[k].op = "render" /\ IsLiteral(hist[k].text) =>
            /\ hist[k].obj \in 1..Len(heap) /\ heap[hist[k].obj].text = hist[k].text
            /\ hist[k].pristine

\* the value belongs to the caller: no later render hands out the same mutable object
C34_ResultsNotShared ==
    \A j, k \in 1..Len(hist) :
        (j < k /\ hist[j].op = "render" /\ hist[k].op = "render" /\ IsMutable(hist[j].text) /\ IsMutable(hist[k].text))
            => hist[j].obj # hist[k].obj

\* a non-literal text is returned as text and allocates nothing
C34_TextIsText ==
    \A k \in 1..Len(hist) : (hist[k].op = "render" /\ ~IsLiteral(hist[k].text)) => hist[k].kind = "text" /\ hist[k].obj = 0
=============================================================================
