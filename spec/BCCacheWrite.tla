---------------------------- MODULE BCCacheWrite ----------------------------
(***************************************************************************)
(* The write path of jinja2.bccache.FileSystemBytecodeCache.dump_bytecode  *)
(* at file-operation granularity (property C27: "tolerates interrupted     *)
(* writes"), for ONE cache key, with several processes that write, read,   *)
(* clear and die at arbitrary points.                                      *)
(*                                                                         *)
(*   CreateTemp   tempfile.NamedTemporaryFile(dir, prefix=<final>, ".tmp") *)
(*   Write        bytes reach the temp file (one length class at a time:   *)
(*                0 empty .. 6 complete, as in BCCache.tla)                *)
(*   WriteFails   an exception while writing: the temp file is removed     *)
(*   CloseTemp    the with-block ends                                      *)
(*   Replace      os.replace(temp, final)  -- atomic                       *)
(*   ReplaceFails os.replace raised OSError: the temp file is removed      *)
(*   Crash        the process dies; its temp file stays behind as junk     *)
(*   Read         another process opens the final file and reads it        *)
(*   ClearAll     clear() by any process: the final file is removed (temp  *)
(*                files do not match the pattern and stay -- a writer in   *)
(*                progress is not disturbed)                               *)
(*                                                                         *)
(* UseTemp = FALSE is the naive protocol (open the final file for writing) *)
(* and exists so that TLC shows what the temp file + replace buys: it      *)
(* refutes C27_FinalNeverPartial at once.                                  *)
(***************************************************************************)
EXTENDS Naturals, FiniteSets, TLC

CONSTANTS Procs, Tags, UseTemp, MaxJunk, None

VARIABLES final,   \* None or [tag, len]: the entry under the final name
          temp,    \* process -> its open temporary file (None or [tag, len])
          pc,      \* process -> "idle" | "open" | "closed" | "direct"
          junk,    \* number of left-over temporary files
          seen     \* what the last reader got

vars == <<final, temp, pc, junk, seen>>

File == [tag : Tags, len : 0..6]

Init ==
    /\ final = None
    /\ temp = [p \in Procs |-> None]
    /\ pc = [p \in Procs |-> "idle"]
    /\ junk = 0
    /\ seen = None

CreateTemp(p, tag) ==
    /\ UseTemp /\ pc[p] = "idle"
    /\ temp' = [temp EXCEPT ![p] = [tag |-> tag, len |-> 0]]
    /\ pc' = [pc EXCEPT ![p] = "open"]
    /\ UNCHANGED <<final, junk, seen>>

DirectOpen(p, tag) ==          \* open(final, "wb") truncates what was there
    /\ ~UseTemp /\ pc[p] = "idle" /\ \A q \in Procs : pc[q] # "direct"
    /\ final' = [tag |-> tag, len |-> 0]
    /\ pc' = [pc EXCEPT ![p] = "direct"]
    /\ UNCHANGED <<temp, junk, seen>>

Write(p) ==
    /\ pc[p] = "open" /\ temp[p].len < 6
    /\ temp' = [temp EXCEPT ![p] = [@ EXCEPT !.len = @ + 1]]
    /\ UNCHANGED <<final, pc, junk, seen>>

DirectWrite(p) ==
    /\ pc[p] = "direct" /\ final # None /\ final.len < 6
    /\ final' = [final EXCEPT !.len = @ + 1]
    /\ UNCHANGED <<temp, pc, junk, seen>>

WriteFails(p) ==               \* except BaseException: remove_silent(); raise
    /\ pc[p] = "open"
    /\ temp' = [temp EXCEPT ![p] = None]
    /\ pc' = [pc EXCEPT ![p] = "idle"]
    /\ UNCHANGED <<final, junk, seen>>

CloseTemp(p) ==
    /\ pc[p] = "open" /\ temp[p].len = 6
    /\ pc' = [pc EXCEPT ![p] = "closed"]
    /\ UNCHANGED <<final, temp, junk, seen>>

DirectClose(p) ==
    /\ pc[p] = "direct" /\ (final = None \/ final.len = 6)
    /\ pc' = [pc EXCEPT ![p] = "idle"]
    /\ UNCHANGED <<final, temp, junk, seen>>

Replace(p) ==
    /\ pc[p] = "closed"
    /\ final' = temp[p]
    /\ temp' = [temp EXCEPT ![p] = None]
    /\ pc' = [pc EXCEPT ![p] = "idle"]
    /\ UNCHANGED <<junk, seen>>

ReplaceFails(p) ==             \* except OSError: remove_silent()
    /\ pc[p] = "closed"
    /\ temp' = [temp EXCEPT ![p] = None]
    /\ pc' = [pc EXCEPT ![p] = "idle"]
    /\ UNCHANGED <<final, junk, seen>>

Crash(p) ==
    /\ pc[p] # "idle"
    /\ pc' = [pc EXCEPT ![p] = "idle"]
    /\ temp' = [temp EXCEPT ![p] = None]
    /\ junk' = IF temp[p] # None THEN junk + 1 ELSE junk
    /\ UNCHANGED <<final, seen>>

Read(p) ==
    /\ pc[p] = "idle"
    /\ seen' = final
    /\ UNCHANGED <<final, temp, pc, junk>>

ClearAll ==
    /\ final # None
    /\ final' = None
    /\ UNCHANGED <<temp, pc, junk, seen>>

Next ==
    \/ \E p \in Procs, tag \in Tags : CreateTemp(p, tag) \/ DirectOpen(p, tag)
    \/ \E p \in Procs : Write(p) \/ WriteFails(p) \/ CloseTemp(p) \/ Replace(p) \/ ReplaceFails(p)
                           \/ DirectWrite(p) \/ DirectClose(p) \/ Crash(p) \/ Read(p)
    \/ ClearAll

Spec == Init /\ [][Next]_vars

JunkBound == junk <= MaxJunk

TypeOK ==
    /\ final \in File \cup {None}
    /\ temp \in [Procs -> File \cup {None}]
    /\ pc \in [Procs -> {"idle", "open", "closed", "direct"}]
    /\ \A p \in Procs : (pc[p] \in {"open", "closed"}) <=> (temp[p] # None)

\* whatever was interrupted, the entry under the final name is complete
C27_FinalNeverPartial == final # None => final.len = 6

\* no reader ever gets a partial entry
C27_ReaderSeesWholeEntries == seen # None => seen.len = 6

\* clear() removes entries only: a step that empties the final name leaves every writer's
\* temporary file and progress alone, so a writer that got as far as closing its file can
\* always finish (a concurrent clear can only cause misses, never a failed load)
C27_ClearLeavesWritersAlone == [][(final # None /\ final' = None) => UNCHANGED <<temp, pc>>]_vars
C27_ClosedTempIsWhole == \A p \in Procs : pc[p] = "closed" => (temp[p] # None /\ temp[p].len = 6)

\* the final entry only ever changes to "nothing" or to a complete entry, in one step
C27_FinalChangesAtomically == [][final' = final \/ final' = None \/ final'.len = 6]_vars
=============================================================================
