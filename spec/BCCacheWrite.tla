---------------------------- MODULE BCCacheWrite ----------------------------
(***************************************************************************)
(* The write path of jinja2.bccache.FileSystemBytecodeCache.dump_bytecode  *)
(* at file-operation granularity (property C27: "tolerates interrupted     *)
(* writes"), for ONE cache key, with several processes that write, read,   *)
(* clear and die at arbitrary points.                                      *)
(*                                                                         *)
(*   CreateTemp   tempfile.NamedTemporaryFile(dir, prefix=<final>, ".tmp") *)
(*   Write        bytes reach the temp file (one length class at a time:   *)
(*                0 empty .. 6 complete, as in BCCache.tla)                *)
(*   WriteFails   an exception while writing: the temp file is removed     *)
(*   CloseTemp    the with-block ends                                      *)
(*   Replace      os.replace(temp, final)  -- atomic                       *)
(*   ReplaceFails os.replace raised OSError: the temp file is removed      *)
(*   Crash        the process dies; its temp file stays behind as junk     *)
(*   Read         another process opens the final file and reads it        *)
(*   ClearAll     clear() by any process: the final file is removed (temp  *)
(*                files do not match the pattern and stay -- a writer in   *)
(*                progress is not disturbed)                               *)
(*                                                                         *)
(* The NAME of a temporary file matters: tempfile.NamedTemporaryFile opens  *)
(* with O_EXCL under a fresh random name, so a temporary file belongs to    *)
(* exactly one writer (`tname`, `left` = names of the files dead writers    *)
(* left behind; CreateTemp picks a name nothing in the directory has).      *)
(* UniqueTemp = FALSE is the protocol with ONE fixed temporary name per     *)
(* entry, opened with "wb": all writers of the key share (and truncate)     *)
(* one file -- TLC refutes C27_TempNamesPrivate, C27_ClosedTempIsWhole and  *)
(* C27_FinalNeverPartial for it (coarse negative control: it shows what the *)
(* private name buys; it is not a model of everything that then goes wrong).*)
(*                                                                         *)
(* UseTemp = FALSE is the naive protocol (open the final file for writing) *)
(* and exists so that TLC shows what the temp file + replace buys: it      *)
(* refutes C27_FinalNeverPartial at once.                                  *)
(***************************************************************************)
EXTENDS Naturals, FiniteSets, TLC

CONSTANTS Procs, Tags, UseTemp, MaxJunk, None,
          TempIds,     \* names available for temporary files
          UniqueTemp   \* TRUE: a fresh private name per writer (mkstemp); FALSE: one fixed name

VARIABLES final,   \* None or [tag, len]: the entry under the final name
          temp,    \* process -> its open temporary file (None or [tag, len])
          pc,      \* process -> "idle" | "open" | "closed" | "direct"
          tname,   \* process -> the name of its temporary file (None when it has none)
          left,    \* names of the temporary files dead writers left behind
          seen     \* what the last reader got

vars == <<final, temp, pc, tname, left, seen>>

junk == Cardinality(left)      \* number of left-over temporary files
FixedId == CHOOSE i \in TempIds : TRUE
Sharers(p) == {q \in Procs : tname[q] # None /\ tname[q] = tname[p]}

File == [tag : Tags, len : 0..6]

Init ==
    /\ final = None
    /\ temp = [p \in Procs |-> None]
    /\ pc = [p \in Procs |-> "idle"]
    /\ tname = [p \in Procs |-> None]
    /\ left = {}
    /\ seen = None

CreateTemp(p, tag, id) ==
    /\ UseTemp /\ pc[p] = "idle"
    /\ IF UniqueTemp
         THEN \* O_EXCL + fresh name: nothing in the directory is called `id`
              /\ id \notin left /\ \A q \in Procs : tname[q] # id
              /\ temp' = [temp EXCEPT ![p] = [tag |-> tag, len |-> 0]]
              /\ left' = left
         ELSE \* open(<final>.tmp, "wb"): whoever has that file open sees it truncated
              /\ id = FixedId
              /\ temp' = [q \in Procs |-> IF q = p \/ tname[q] = id THEN [tag |-> tag, len |-> 0] ELSE temp[q]]
              /\ left' = left \ {id}
    /\ tname' = [tname EXCEPT ![p] = id]
    /\ pc' = [pc EXCEPT ![p] = "open"]
    /\ UNCHANGED <<final, seen>>

DirectOpen(p, tag) ==          \* open(final, "wb") truncates what was there
    /\ ~UseTemp /\ pc[p] = "idle" /\ \A q \in Procs : pc[q] # "direct"
    /\ final' = [tag |-> tag, len |-> 0]
    /\ pc' = [pc EXCEPT ![p] = "direct"]
    /\ UNCHANGED <<temp, tname, left, seen>>

Write(p) ==
    /\ pc[p] = "open" /\ temp[p].len < 6
    /\ temp' = [q \in Procs |-> IF q \in Sharers(p) THEN [temp[p] EXCEPT !.len = @ + 1] ELSE temp[q]]
    /\ UNCHANGED <<final, pc, tname, left, seen>>

DirectWrite(p) ==
    /\ pc[p] = "direct" /\ final # None /\ final.len < 6
    /\ final' = [final EXCEPT !.len = @ + 1]
    /\ UNCHANGED <<temp, pc, tname, left, seen>>

WriteFails(p) ==               \* except BaseException: remove_silent(); raise
    /\ pc[p] = "open"
    /\ temp' = [temp EXCEPT ![p] = None]
    /\ tname' = [tname EXCEPT ![p] = None]
    /\ pc' = [pc EXCEPT ![p] = "idle"]
    /\ UNCHANGED <<final, left, seen>>

CloseTemp(p) ==
    /\ pc[p] = "open" /\ temp[p].len = 6
    /\ pc' = [pc EXCEPT ![p] = "closed"]
    /\ UNCHANGED <<final, temp, tname, left, seen>>

DirectClose(p) ==
    /\ pc[p] = "direct" /\ (final = None \/ final.len = 6)
    /\ pc' = [pc EXCEPT ![p] = "idle"]
    /\ UNCHANGED <<final, temp, tname, left, seen>>

Replace(p) ==
    /\ pc[p] = "closed"
    /\ final' = temp[p]
    /\ temp' = [temp EXCEPT ![p] = None]
    /\ tname' = [tname EXCEPT ![p] = None]
    /\ pc' = [pc EXCEPT ![p] = "idle"]
    /\ UNCHANGED <<left, seen>>

ReplaceFails(p) ==             \* except OSError: remove_silent()
    /\ pc[p] = "closed"
    /\ temp' = [temp EXCEPT ![p] = None]
    /\ tname' = [tname EXCEPT ![p] = None]
    /\ pc' = [pc EXCEPT ![p] = "idle"]
    /\ UNCHANGED <<final, left, seen>>

Crash(p) ==
    /\ pc[p] # "idle"
    /\ pc' = [pc EXCEPT ![p] = "idle"]
    /\ temp' = [temp EXCEPT ![p] = None]
    /\ tname' = [tname EXCEPT ![p] = None]
    /\ left' = IF temp[p] # None THEN left \cup {tname[p]} ELSE left
    /\ UNCHANGED <<final, seen>>

Read(p) ==
    /\ pc[p] = "idle"
    /\ seen' = final
    /\ UNCHANGED <<final, temp, pc, tname, left>>

ClearAll ==
    /\ final # None
    /\ final' = None
    /\ UNCHANGED <<temp, pc, tname, left, seen>>

Next ==
    \/ \E p \in Procs, tag \in Tags : (\E id \in TempIds : CreateTemp(p, tag, id)) \/ DirectOpen(p, tag)
    \/ \E p \in Procs : Write(p) \/ WriteFails(p) \/ CloseTemp(p) \/ Replace(p) \/ ReplaceFails(p)
                           \/ DirectWrite(p) \/ DirectClose(p) \/ Crash(p) \/ Read(p)
    \/ ClearAll

Spec == Init /\ [][Next]_vars

JunkBound == junk <= MaxJunk
TempSymmetry == Permutations(TempIds)    \* names of temporary files are interchangeable

TypeOK ==
    /\ final \in File \cup {None}
    /\ temp \in [Procs -> File \cup {None}]
    /\ pc \in [Procs -> {"idle", "open", "closed", "direct"}]
    /\ \A p \in Procs : (pc[p] \in {"open", "closed"}) <=> (temp[p] # None)
    /\ tname \in [Procs -> TempIds \cup {None}]
    /\ \A p \in Procs : (tname[p] # None) <=> (temp[p] # None)
    /\ left \subseteq TempIds

\* a temporary file belongs to exactly one writer: no two writers in progress use the same name,
\* and no writer uses the name of a file that a dead writer left behind
C27_TempNamesPrivate ==
    /\ \A p, q \in Procs : (p # q /\ tname[p] # None) => tname[p] # tname[q]
    /\ \A p \in Procs : tname[p] \notin left

\* the entry under the final name is what ONE writer wrote (never a mix of two writers' bytes):
\* File has a single tag, so this is TypeOK of `final`; the trace validation compares the tag of
\* the checksum AND of the code of the real entry with it

\* whatever was interrupted, the entry under the final name is complete
C27_FinalNeverPartial == final # None => final.len = 6

\* no reader ever gets a partial entry
C27_ReaderSeesWholeEntries == seen # None => seen.len = 6

\* clear() removes entries only: a step that empties the final name leaves every writer's
\* temporary file and progress alone, so a writer that got as far as closing its file can
\* always finish (a concurrent clear can only cause misses, never a failed load)
C27_ClearLeavesWritersAlone == [][(final # None /\ final' = None) => UNCHANGED <<temp, pc>>]_vars
C27_ClosedTempIsWhole == \A p \in Procs : pc[p] = "closed" => (temp[p] # None /\ temp[p].len = 6)

\* the final entry only ever changes to "nothing" or to a complete entry, in one step
C27_FinalChangesAtomically == [][final' = final \/ final' = None \/ final'.len = 6]_vars
=============================================================================
