---------------------------- MODULE SandboxGate ----------------------------
(***************************************************************************)
(* The gates of the Jinja sandbox as a state machine (properties C17-C20). *)
(*                                                                         *)
(* Every attribute-like access a sandboxed template performs (dot,         *)
(* subscript with a string, the attr filter, attribute arguments of        *)
(* filters, str.format / format_map / Markup.format field lookups) is      *)
(*     Fetch(o, kind, a, v, how)   Python getattr / getitem on the data    *)
(*                                 object o (unavoidable: the gate needs   *)
(*                                 the value); v identifies the value      *)
(*     Gate(ok)                    is_safe_attribute's verdict             *)
(*     Deliver | DeliverUndefined  the value, or an undefined that raises  *)
(*                                 SecurityError when used, reaches the    *)
(*                                 template                                *)
(* every call written in the template is                                   *)
(*     CallGate(f, ok)             is_safe_callable's verdict; a refusal   *)
(*                                 raises SecurityError at once            *)
(*     Run(f, arg)                 the callable runs (container methods    *)
(*                                 act on `data` as SandboxData says)      *)
(* an environment may serve several renders (conf.multi):                  *)
(*     NewRender                   the previous render is over (finished   *)
(*                                 or failed); the next one starts with no *)
(*                                 verdict standing: a grant is good for   *)
(*                                 one call of one render                  *)
(* every arithmetic operator application is                                *)
(*     OpHook(op, l, r) | NativeOp(op, l, r)                               *)
(* and the template may Use(v) any value it was handed.                    *)
(*                                                                         *)
(* Ghost state:  tainted = values fetched as a forbidden attribute,        *)
(* handed = values the template holds, used, ran, data, changed, hookLog,  *)
(* apps (every operator application).                                      *)
(*                                                                         *)
(* The same actions are used twice: `Next` lets an adversarial template    *)
(* choose the parameters (model checking of the design, with the abstract  *)
(* gate or the transcription of sandbox.py: Impl), and SandboxTrace binds  *)
(* the parameters to events recorded from the real engine (conformance).   *)
(***************************************************************************)
EXTENDS SandboxRules

CONSTANTS
    Confs,        \* model checking: set of configurations
                  \*   [env |-> "sandbox" | "immutable",
                  \*    impl |-> "abstract" | "operational" | "legacy"   (which gate decides),
                  \*    policy |-> "default" | "denyname" | "denyobj" | "denyrecv",
                  \*    icept |-> set of intercepted operators ("u-" / "u+" = the unary ones),
                  \*    multi |-> whether the environment serves more than one render]
    MaxSteps,     \* model checking: number of Fetch / operator / NewRender steps explored
    ModelKinds,   \* model checking: object kinds the adversary pokes at
    ModelOps      \* model checking: operators the adversary applies

VARIABLES conf,   \* the configuration of this render (never changes)
          pend, tainted, handed, used, granted, ran, data, changed,
          hookLog, apps, outcome, steps

vars == <<conf, pend, tainted, handed, used, granted, ran, data, changed,
          hookLog, apps, outcome, steps>>

Env == conf.env
Impl == conf.impl
Policy == conf.policy
Intercepted == conf.icept

(* value id of things that are not tracked (plain Python values); value ids are
   tuples: <<kind, name, how>> in the model, <<tracer number>> in recorded traces *)
Opaque == <<>>

NoPend == [st |-> "none"]

Data0 == [k \in ContainerKinds |->
            CASE k \in {"list", "deque"} -> <<1, 2>>
              [] k = "set" -> {1, 2}
              [] k = "dict" -> [x \in {"k1"} |-> 1]]

InitGate ==
    /\ pend = NoPend
    /\ tainted = {} /\ handed = {} /\ used = {}
    /\ granted = {} /\ ran = {}
    /\ data = Data0 /\ changed = {}
    /\ hookLog = <<>> /\ apps = <<>>
    /\ outcome = "none"
    /\ steps = 0

Running == outcome = "none"

(* -- attribute-like access ---------------------------------------------------- *)
Fetch(o, kind, a, v, how) ==
    /\ Running
    /\ pend.st \in {"none", "fetched"}      \* a fetched value may be dropped unseen
    /\ pend' = [st |-> "fetched", o |-> o, kind |-> kind, a |-> a, v |-> v, how |-> how, ok |-> FALSE]
    /\ tainted' = IF how = "attr" /\ Forbidden(kind, a) /\ v # Opaque THEN tainted \cup {v} ELSE tainted
    /\ steps' = steps + 1
    /\ UNCHANGED <<conf, handed, used, granted, ran, data, changed, hookLog, apps, outcome>>

(* the verdict may be stricter than the rule (over-blocking breaks nothing) but
   never more permissive *)
Gate(ok) ==
    /\ Running
    /\ pend.st = "fetched" /\ pend.how = "attr"
    /\ ok => GateAllows(Impl, Env, pend.kind, pend.a)
    /\ pend' = [pend EXCEPT !.st = "gated", !.ok = ok]
    /\ UNCHANGED <<conf, tainted, handed, used, granted, ran, data, changed, hookLog, apps, outcome, steps>>

(* objects that cannot log their own fetch: is_safe_attribute is the first we hear *)
GateFresh(o, kind, a, v, ok) ==
    /\ Running
    /\ pend.st \in {"none", "fetched"}
    /\ ok => GateAllows(Impl, Env, kind, a)
    /\ pend' = [st |-> "gated", o |-> o, kind |-> kind, a |-> a, v |-> v, how |-> "attr", ok |-> ok]
    /\ tainted' = IF Forbidden(kind, a) /\ v # Opaque THEN tainted \cup {v} ELSE tainted
    /\ steps' = steps + 1
    /\ UNCHANGED <<conf, handed, used, granted, ran, data, changed, hookLog, apps, outcome>>

Deliver ==
    /\ Running
    /\ \/ pend.st = "gated" /\ pend.ok
       \/ pend.st = "fetched" /\ pend.how = "item"     \* items are not attributes
    /\ handed' = IF pend.v # Opaque THEN handed \cup {pend.v} ELSE handed
    /\ pend' = NoPend
    /\ UNCHANGED <<conf, tainted, used, granted, ran, data, changed, hookLog, apps, outcome, steps>>

DeliverUndefined ==
    /\ Running
    /\ pend.st \in {"gated", "fetched"}
    /\ pend' = NoPend
    /\ UNCHANGED <<conf, tainted, handed, used, granted, ran, data, changed, hookLog, apps, outcome, steps>>

Use(v) ==
    /\ Running
    /\ v \in handed
    /\ used' = used \cup {v}
    /\ UNCHANGED <<conf, pend, tainted, handed, granted, ran, data, changed, hookLog, apps, outcome, steps>>

(* -- calls -------------------------------------------------------------------- *)
CallGate(f, ok) ==
    /\ Running
    /\ ok => ~UnsafeCallable(Policy, f)
    /\ granted' = IF ok THEN granted \cup {f.id} ELSE granted
    /\ outcome' = IF ok THEN outcome ELSE "SecurityError"   \* raised before the callable runs
    /\ UNCHANGED <<conf, pend, tainted, handed, used, ran, data, changed, hookLog, apps, steps>>

Run(f, newdata) ==
    /\ Running
    /\ f.id \in granted
    /\ granted' = granted \ {f.id}
    /\ ran' = ran \cup {f.id}
    /\ data' = newdata
    /\ changed' = changed \cup {k \in ContainerKinds : newdata[k] # data[k]}
    /\ UNCHANGED <<conf, pend, tainted, handed, used, hookLog, apps, outcome, steps>>

(* -- the environment outlives the render ----------------------------------------- *)
(* The application renders again with the same environment (and, possibly, the same
   objects: `handed` stays).  Whatever the gate said during earlier renders is void:
   every call of the new render needs its own CallGate. *)
NewRender ==
    /\ conf.multi
    /\ pend' = NoPend
    /\ granted' = {}
    /\ outcome' = "none"
    /\ steps' = steps + 1
    /\ UNCHANGED <<conf, tainted, handed, used, ran, data, changed, hookLog, apps>>

(* -- operators ------------------------------------------------------------------ *)
OpHook(op, l, r) ==
    /\ Running
    /\ op \in Intercepted
    /\ hookLog' = Append(hookLog, <<op, l, r>>)
    /\ apps' = Append(apps, <<op, l, r>>)
    /\ steps' = steps + 1
    /\ UNCHANGED <<conf, pend, tainted, handed, used, granted, ran, data, changed, outcome>>

NativeOp(op, l, r) ==
    /\ Running
    /\ op \notin Intercepted
    /\ apps' = Append(apps, <<op, l, r>>)
    /\ steps' = steps + 1
    /\ UNCHANGED <<conf, pend, tainted, handed, used, granted, ran, data, changed, hookLog, outcome>>

(* using an unsafe undefined, or any other failure, ends the render *)
Raise(exc) ==
    /\ Running
    /\ outcome' = exc
    /\ UNCHANGED <<conf, pend, tainted, handed, used, granted, ran, data, changed, hookLog, apps, steps>>

(* -- the adversarial template (model checking) ------------------------------------ *)
ModelNames ==
    {Nm("ok", "o", "k"), Nm("_p", "_", "p"), Nm("__class__", "_", "_"),
     Nm("__globals__", "_", "_"), Nm("mro", "m", "r"), Nm("gi_frame", "g", "i"),
     Nm("gi_code", "g", "i"), Nm("cr_frame", "c", "r"), Nm("cr_code", "c", "r"),
     Nm("ag_frame", "a", "g"), Nm("ag_code", "a", "g"), Nm("gi_running", "g", "i"),
     Nm("co_consts", "c", "o"), Nm("f_locals", "f", "_"), Nm("tb_frame", "t", "b"),
     Nm("format", "f", "o"), Nm("run", "r", "u"), Nm("delete", "d", "e"),
     Nm("save", "s", "a"), Nm("denied", "d", "e"), Nm("locked", "l", "o")}

(* a public method name: by definition it does not start with an underscore, so the
   two prefix characters carry no information ("a" stands for any letter) *)
MethodNm(m) == Nm(m, "a", "a")

NamesOf(kind) ==
    IF kind \in ContainerKinds
    THEN {MethodNm(m) : m \in Methods(kind)} \cup {Nm("_p", "_", "p"), Nm("__class__", "_", "_")}
    ELSE ModelNames

Val(kind, a, how) == <<kind, a.n, how>>

(* what a handed value is when called *)
IsCallableVal(v) ==
    \/ v[1] \in ContainerKinds /\ v[3] = "attr" /\ v[2] \in Methods(v[1]) \ DataAttrs(v[1])
    \/ v[2] \in {"run", "delete", "save", "denied", "locked"}
(* "denied" is on the deny list of the identity policy; "locked" is a method of a frozen receiver *)
CallableOf(v) == [id |-> v, unsafe |-> (v[2] = "delete"), alters |-> (v[2] = "save"), name |-> v[2],
                  denied |-> (v[2] = "denied"), recv |-> (v[2] = "locked")]

MFetch ==
    \/ \E kind \in ModelKinds : \E a \in NamesOf(kind) :
          steps < MaxSteps /\ Fetch(kind, kind, a, Val(kind, a, "attr"), "attr")
    \/ \E a \in {Nm("_p", "_", "p"), Nm("k1", "k", "1")} :
          /\ "dict" \in ModelKinds /\ steps < MaxSteps
          /\ Fetch("dict", "dict", a, Val("dict", a, "item"), "item")
MGate == \E ok \in BOOLEAN : Gate(ok)
MUse == \E v \in handed : Use(v)
MCallGate ==
    \E v \in handed : IsCallableVal(v) /\ CallGate(CallableOf(v), ~UnsafeCallable(Policy, CallableOf(v)))
MRun ==
    \E v \in granted :
          IF v[1] \in ContainerKinds /\ v[3] = "attr"
          THEN \E arg \in Args(v[1], v[2]) :
                  Run(CallableOf(v), [data EXCEPT ![v[1]] = Effect(v[1], v[2], @, arg)])
          ELSE Run(CallableOf(v), data)
MOp ==
    \E op \in ModelOps : \E l, r \in {1, 2} :
          steps < MaxSteps /\ (OpHook(op, l, r) \/ NativeOp(op, l, r))
MRaise == Raise("SecurityError")
MNewRender == steps < MaxSteps /\ NewRender

NextModel ==
    MFetch \/ MGate \/ Deliver \/ DeliverUndefined \/ MUse \/ MCallGate \/ MRun \/ MOp \/ MRaise
    \/ MNewRender

Spec == conf \in Confs /\ InitGate /\ [][NextModel]_vars

(* -- properties ------------------------------------------------------------------- *)
TypeOK ==
    /\ pend.st \in {"none", "fetched", "gated"}
    /\ outcome \in {"none", "SecurityError"}
    /\ changed \subseteq ContainerKinds

\* C17: nothing fetched under a private / internal name is ever handed to, or used by, the template
C17_NoTaintedUse == (handed \cup used) \cap tainted = {}

\* C17: is_safe_attribute as written in sandbox.py decides exactly like the rule
\* (constant-level: evaluated once)
RefinesTable ==
    \A kind \in ObjKinds : \A a \in ModelNames :
        (~(a.c1 = "_" \/ OpInternal(kind, a))) = (~Forbidden(kind, a))
C17_OperationalGateRefinesRule == RefinesTable

\* C18: a callable the sandbox deems unsafe never runs
C18_UnsafeNeverRuns == \A v \in ran : ~UnsafeCallable(Policy, CallableOf(v))

C18_GrantedAreSafe == \A v \in granted : ~UnsafeCallable(Policy, CallableOf(v))

\* C19: in the immutable sandbox the containers stay as they were
C19_DataUnchanged == Env = "immutable" => (data = Data0 /\ changed = {})

\* C19: every mutating method (by the semantics in SandboxData) is refused by the gate
\* (a zero-arity constant table: TLC evaluates it once)
CoversTable ==
    [impl \in {"abstract", "operational", "legacy"} |->
        \A k \in ContainerKinds : \A m \in Mutators(k) : ~GateAllows(impl, "immutable", k, MethodNm(m))]
C19_GateCoversMutators == Env = "immutable" => CoversTable[Impl]

\* C20: the hook log is exactly the sub-sequence of intercepted applications
RECURSIVE OnlyIntercepted(_)
OnlyIntercepted(s) ==
    IF s = <<>> THEN <<>>
    ELSE IF Head(s)[1] \in Intercepted THEN <<Head(s)>> \o OnlyIntercepted(Tail(s))
    ELSE OnlyIntercepted(Tail(s))
C20_AllAndOnlyIntercepted == hookLog = OnlyIntercepted(apps)
=============================================================================
