------------------------------ MODULE LeakScan ------------------------------
(***************************************************************************)
(* Property C15, scanner binding: the text a template renders under        *)
(* autoescaping is validated, character by character, against the HtmlScan *)
(* automaton.  The template text of the generated programs contains no     *)
(* HTML metacharacter and every data string / literal consists of          *)
(* metacharacters, so a rendered text is acceptable iff it contains no raw *)
(* < > " ' outside the anchor markup urlize is documented to emit (mode    *)
(* "html") or the attribute list xmlattr is documented to emit (mode       *)
(* "attrs").  One record per rendered output: [id, mode, out] with out the *)
(* sequence of code points.                                                *)
(***************************************************************************)
EXTENDS HtmlScan, Json, IOUtils

Recs == JsonDeserialize(IOEnv.TRACE_FILE)

VARIABLES i, verdict
vars == <<i, verdict>>

Init == i \in 1..Len(Recs) /\ verdict = "?"

\* C15 is about raw < > " ' only: an ampersand that does not start one of MarkupSafe's five
\* entities (e.g. the upper-cased &LT; produced by |upper on an escaped string) is not a leak,
\* so it is neutralised before the automaton runs
Neutral(cs) == [j \in 1..Len(cs) |-> IF cs[j] = 38 /\ EntLenAt(cs, j) = 0 THEN 120 ELSE cs[j]]

C15_Accepts(r) ==
    IF r.mode = "attrs" THEN AcceptsAttrs(Neutral(r.out))
    ELSE AcceptsHtml(Neutral(r.out))

Judge ==
    /\ verdict = "?"
    /\ verdict' = IF C15_Accepts(Recs[i]) THEN "ok" ELSE "leak"
    /\ PrintT(ToJson([id |-> Recs[i].id, verdict |-> verdict']))
    /\ UNCHANGED i

Spec == Init /\ [][Judge]_vars
=============================================================================
