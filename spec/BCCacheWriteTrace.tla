------------------------- MODULE BCCacheWriteTrace -------------------------
(***************************************************************************)
(* Trace validation (code -> spec) for the write path of                   *)
(* FileSystemBytecodeCache (property C27).  The driver runs the real       *)
(* dump_bytecode -- undisturbed, killed at every file operation / byte     *)
(* class, with a failing write, with a failing os.replace -- and records   *)
(* what it did to the file system (audit hook: tempfile.mkstemp,           *)
(* os.rename, os.remove; a logging wrapper around the file handed to       *)
(* Bucket.write_bytecode) followed by what is then stored under the final  *)
(* name.  A trace is accepted iff it is a behaviour of BCCacheWrite.tla    *)
(* (steps the code does not announce -- bytes arriving class by class,     *)
(* closing the temp file -- are taken as internal steps).                  *)
(*                                                                         *)
(* Events  [ev |-> "create"]  [ev |-> "write", c |-> length class now]     *)
(*         [ev |-> "rename"]  [ev |-> "rename-failed"]  [ev |-> "remove"]  *)
(*         [ev |-> "killed"]  [ev |-> "clear"] (possibly by another cache     *)
(*         object in the middle of the write)  [ev |-> "fault"] (the driver *)
(*         made the next operation fail)  [ev |-> "loaded"] / "raised"      *)
(*         (how the load that did the write ended: it may only raise after  *)
(*         an injected fault)                                               *)
(*         [ev |-> "final", c |-> length class of the final entry or -1,   *)
(*          junk |-> number of left-over temp files]                       *)
(* Every event of a writer carries  p |-> which process did it  (two        *)
(* writers of the same key are interleaved: while writer 1 is inside its    *)
(* write, the source changes and writer 2 -- another environment with its   *)
(* own cache object on the same directory -- loads and stores the entry),   *)
(* "create" also  name |-> the temporary file's name (numbered in order of  *)
(* first appearance in the trace)  and  tag |-> the source version the      *)
(* writer compiled;  "final" with c = 6 also  tag |-> the version BOTH the  *)
(* stored checksum and the stored code belong to (0 when they disagree:     *)
(* no state of BCCacheWrite.tla has such an entry).                         *)
(* Many traces per TLC run: `tid` picks the trace, `i` walks it.           *)
(***************************************************************************)
EXTENDS BCCacheWrite, Integers, Sequences, Json, IOUtils

Traces == JsonDeserialize(IOEnv.TRACE_FILE)

VARIABLES tid, i, faulted

tvars == <<final, temp, pc, tname, left, seen, tid, i, faulted>>

P == Traces[tid][i].p

HasEv == i <= Len(Traces[tid])
Ev == Traces[tid][i]
Consume == i' = i + 1 /\ UNCHANGED <<tid, faulted>>
Internal == UNCHANGED <<tid, i, faulted>>
Same == UNCHANGED vars

TInit == Init /\ tid \in 1..Len(Traces) /\ i = 1 /\ faulted = FALSE

TNext ==
    /\ HasEv
    /\ \/ Ev.ev = "create" /\ CreateTemp(P, Ev.tag, Ev.name) /\ Consume
       \/ Ev.ev = "write" /\ pc[P] = "open" /\ temp[P].len < Ev.c /\ Write(P) /\ Internal
       \/ Ev.ev = "write" /\ pc[P] = "open" /\ temp[P].len = Ev.c /\ Same /\ Consume
       \/ Ev.ev \in {"rename", "rename-failed"} /\ CloseTemp(P) /\ Internal
       \/ Ev.ev = "rename" /\ Replace(P) /\ Consume
       \/ Ev.ev = "rename-failed" /\ pc[P] = "closed" /\ Same /\ Consume
       \/ Ev.ev = "remove" /\ (WriteFails(P) \/ ReplaceFails(P)) /\ Consume
       \/ Ev.ev = "killed" /\ (Crash(P) \/ (pc[P] = "idle" /\ Same)) /\ Consume
       \/ Ev.ev = "clear" /\ (ClearAll \/ (final = None /\ Same)) /\ Consume
       \/ Ev.ev = "fault" /\ Same /\ i' = i + 1 /\ faulted' = TRUE /\ UNCHANGED tid
       \/ Ev.ev = "loaded" /\ pc[P] = "idle" /\ Same /\ i' = i + 1 /\ faulted' = FALSE /\ UNCHANGED tid
       \/ Ev.ev = "raised" /\ faulted /\ pc[P] = "idle" /\ Same /\ i' = i + 1 /\ faulted' = FALSE /\ UNCHANGED tid
       \/ /\ Ev.ev = "final"
          /\ \A p \in Procs : pc[p] = "idle"
          /\ IF Ev.c < 0 THEN final = None
                         ELSE final # None /\ final.len = Ev.c /\ (Ev.c = 6 => final.tag = Ev.tag)
          /\ junk = Ev.junk
          /\ Same /\ Consume

TSpec == TInit /\ [][TNext]_tvars

\* every accepted prefix is a behaviour of BCCacheWrite, so its invariants hold along real traces
Accepting == i = Len(Traces[tid]) + 1

Collect == IF Accepting THEN TLCSet(1, TLCGet(1) \cup {tid}) ELSE TRUE

ASSUME TLCSet(1, {})

Post ==
    LET rejected == (1..Len(Traces)) \ TLCGet(1) IN
    /\ PrintT(ToJson([rejected |-> rejected]))
    /\ TRUE
=============================================================================
