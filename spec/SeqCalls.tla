------------------------------ MODULE SeqCalls ------------------------------
(***************************************************************************)
(* Property C22: a SEQUENCE of filter calls on one environment, with an    *)
(* object heap.  Two clauses that a single (input, arguments) -> value     *)
(* comparison cannot show:                                                 *)
(*                                                                         *)
(*  C22_HistoryFree   the value of every call is the contract function of  *)
(*                    the arguments of THAT call (SeqFilters!Map with the  *)
(*                    default exactly as passed: 1, True, 'D', Markup('D') *)
(*                    are four different defaults although Python's ==     *)
(*                    and hash identify 1/True and 'D'/Markup('D'));       *)
(*  C22_ResultFresh / C22_MutationLocal                                    *)
(*                    `list` (Python's list()) returns a NEW object, so    *)
(*                    appending to a result never changes the argument.    *)
(*                                                                         *)
(* Operational layer, shaped like the code: CallMap goes through a getter  *)
(* table (make_attrgetter); CacheByEq = TRUE reuses the getter built for   *)
(* an earlier default that is ==/hash-equal (an untyped memo table);       *)
(* ListAliases = TRUE lets CallList hand back the argument when it already *)
(* is a list.  Both switches are self-tests: TLC must report the clause    *)
(* violated.  The real filters are bound by SeqFiltersTrace (every record  *)
(* of a call sequence is validated against the history-free Contract;      *)
(* x.alias / x.inp3 are the observations of C22_ResultFresh).              *)
(***************************************************************************)
EXTENDS SeqFilters

CONSTANTS MaxCalls, CacheByEq, ListAliases

VARIABLES heap,     \* object id (index) -> content of the list object
          hist,     \* the calls made so far
          getters   \* defaults for which a getter has been built (attribute x)

vars == <<heap, hist, getters>>

AttrX == S(<<120>>)
WithX == D(<<<<AttrX, S(<<97>>)>>>>)          \* {"x": "a"}
NoX   == D(<<>>)                               \* {}
Orig  == <<WithX, NoX>>
Defaults == {I(1), B(TRUE), I(0), B(FALSE), S(<<68>>), M(<<68>>)}
Probe == S(<<112>>)

\* Python's == together with hash(): 1 == True, 0 == False, 'D' == Markup('D')
Num(a) == IF a.t = "b" THEN (IF a.v THEN 1 ELSE 0) ELSE a.v
HashEq(a, b) == IF a.t \in {"i", "b"} /\ b.t \in {"i", "b"} THEN Num(a) = Num(b) ELSE PyEq(a, b)

Init == heap = <<Orig>> /\ hist = <<>> /\ getters = <<>>

CallMap(o, d) ==
    LET hit == {k \in 1..Len(getters) : HashEq(getters[k], d)}
        used == IF CacheByEq /\ hit # {} THEN getters[CHOOSE k \in hit : \A j \in hit : k <= j] ELSE d
    IN /\ Len(hist) < MaxCalls
       /\ hist' = Append(hist, [f |-> "map", arg |-> o, inp |-> heap[o], dflt |-> d, res |-> 0,
                                nobj |-> Len(heap), val |-> Map(heap[o], "", AttrX, used)])
       /\ getters' = IF hit # {} /\ CacheByEq THEN getters ELSE Append(getters, d)
       /\ UNCHANGED heap

CallList(o) ==
    LET res == IF ListAliases THEN o ELSE Len(heap) + 1
    IN /\ Len(hist) < MaxCalls
       /\ heap' = IF ListAliases THEN heap ELSE Append(heap, ListOf(L(heap[o])))
       /\ hist' = Append(hist, [f |-> "list", arg |-> o, inp |-> heap[o], dflt |-> NoneV, res |-> res,
                                nobj |-> Len(heap), val |-> ListOf(L(heap[o]))])
       /\ UNCHANGED getters

\* the template goes on working on a RESULT (rest.append(..) / rest.pop(..))
MutateResult(k) ==
    /\ hist[k].f = "list" /\ Len(heap[hist[k].res]) < Len(Orig) + 1
    /\ heap' = [heap EXCEPT ![hist[k].res] = Append(@, Probe)]
    /\ UNCHANGED <<hist, getters>>

Next ==
    \/ \E o \in 1..Len(heap), d \in Defaults : CallMap(o, d)
    \/ \E o \in 1..Len(heap) : CallList(o)
    \/ \E k \in 1..Len(hist) : MutateResult(k)

Spec == Init /\ [][Next]_vars

C22_HistoryFree ==
    \A k \in 1..Len(hist) :
        hist[k].f = "map" => hist[k].val = Map(hist[k].inp, "", AttrX, hist[k].dflt)

C22_ResultFresh ==
    \A k \in 1..Len(hist) :
        hist[k].f = "list" => hist[k].res > hist[k].nobj /\ hist[k].val = hist[k].inp

\* object 1 is never a result: nothing the template does to results reaches it
C22_MutationLocal == heap[1] = Orig

\* the distinction is observable: equal-but-different defaults give different values
C22_DefaultKindObservable ==
    \A d1, d2 \in Defaults : (d1 # d2) => Map(Orig, "", AttrX, d1) # Map(Orig, "", AttrX, d2)
=============================================================================
