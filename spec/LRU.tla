------------------------------- MODULE LRU -------------------------------
(***************************************************************************)
(* Abstract least-recently-used map: the sequential meaning of             *)
(* jinja2.utils.LRUCache (property C26) and the building block of the      *)
(* template cache (C25) and lexer cache (C13).                              *)
(*                                                                         *)
(* State:   mapping  key -> value or NoVal (absent)                        *)
(*          order    present keys, least recently used first              *)
(*          ret      result of the last operation (observable)             *)
(*          hist     ghost: the sequence of recency-relevant events, used  *)
(*                   only to state what "recency" means independently of   *)
(*                   how `order` is maintained                             *)
(***************************************************************************)
EXTENDS Naturals, Sequences, FiniteSets, TLC

CONSTANTS Keys, Vals, Cap, NoVal, MaxHist

VARIABLES mapping, order, ret, hist

vars == <<mapping, order, ret, hist>>

Present == {k \in Keys : mapping[k] # NoVal}

SeqSet(s) == {s[i] : i \in 1..Len(s)}

Without(s, k) == SelectSeq(s, LAMBDA x : x # k)

Promote(s, k) == Append(Without(s, k), k)

KeyErr(k) == <<"KeyError", k>>

Init ==
    /\ mapping = [k \in Keys |-> NoVal]
    /\ order = <<>>
    /\ ret = <<"init">>
    /\ hist = <<>>

(* -- the sequential meaning of every operation as a function ----------------
   Apply(m, o, op) = [m |-> mapping', o |-> order', r |-> result, ev |-> ghost event or <<>>]
   op is a tuple: <<"getitem",k>> <<"get",k>> <<"setitem",k,v>> <<"delitem",k>>
   <<"setdefault",k,v>> <<"contains",k>> <<"len">> <<"clear">> <<"keys">>
   <<"copy">> <<"pickle">>.  The actions below and the linearizability checkers
   (LRUConc, LRULin) all use this one definition.                            *)

Insert(m, o, k, v) ==
    IF m[k] # NoVal
    THEN [m |-> [m EXCEPT ![k] = v], o |-> Promote(o, k)]
    ELSE IF Len(o) >= Cap /\ Len(o) > 0
         THEN [m |-> [m EXCEPT ![Head(o)] = NoVal, ![k] = v], o |-> Append(Tail(o), k)]
         ELSE [m |-> [m EXCEPT ![k] = v], o |-> Append(o, k)]

RevSeq(s) == [i \in 1..Len(s) |-> s[Len(s) + 1 - i]]

Apply(m, o, op) ==
    LET kind == op[1] IN
    CASE kind = "getitem" ->
           IF m[op[2]] # NoVal
           THEN [m |-> m, o |-> Promote(o, op[2]), r |-> <<"val", m[op[2]]>>, ev |-> <<"touch", op[2]>>]
           ELSE [m |-> m, o |-> o, r |-> KeyErr(op[2]), ev |-> <<>>]
      [] kind = "get" ->
           IF m[op[2]] # NoVal
           THEN [m |-> m, o |-> Promote(o, op[2]), r |-> <<"val", m[op[2]]>>, ev |-> <<"touch", op[2]>>]
           ELSE [m |-> m, o |-> o, r |-> <<"default">>, ev |-> <<>>]
      [] kind = "setitem" ->
           LET i == Insert(m, o, op[2], op[3]) IN
           [m |-> i.m, o |-> i.o, r |-> <<"none">>, ev |-> <<"touch", op[2]>>]
      [] kind = "delitem" ->
           IF m[op[2]] # NoVal
           THEN [m |-> [m EXCEPT ![op[2]] = NoVal], o |-> Without(o, op[2]), r |-> <<"none">>,
                 ev |-> <<"drop", op[2]>>]
           ELSE [m |-> m, o |-> o, r |-> KeyErr(op[2]), ev |-> <<>>]
      [] kind = "setdefault" ->
           IF m[op[2]] # NoVal
           THEN [m |-> m, o |-> Promote(o, op[2]), r |-> <<"val", m[op[2]]>>, ev |-> <<"touch", op[2]>>]
           ELSE LET i == Insert(m, o, op[2], op[3]) IN
                [m |-> i.m, o |-> i.o, r |-> <<"val", op[3]>>, ev |-> <<"touch", op[2]>>]
      [] kind = "contains" ->
           [m |-> m, o |-> o, r |-> <<"bool", m[op[2]] # NoVal>>, ev |-> <<>>]
      [] kind = "len" ->
           [m |-> m, o |-> o, r |-> <<"int", Cardinality({k \in Keys : m[k] # NoVal})>>, ev |-> <<>>]
      [] kind = "clear" ->
           [m |-> [k \in Keys |-> NoVal], o |-> <<>>, r |-> <<"none">>, ev |-> <<"clear">>]
      [] kind = "keys" ->
           \* keys()/iteration: most recent first, with the values (items())
           [m |-> m, o |-> o, r |-> <<"items", [i \in 1..Len(o) |-> <<RevSeq(o)[i], m[RevSeq(o)[i]]>>]>>,
            ev |-> <<>>]
      [] kind = "copy" -> [m |-> m, o |-> o, r |-> <<"copied">>, ev |-> <<>>]
      [] kind = "pickle" -> [m |-> m, o |-> o, r |-> <<"pickled">>, ev |-> <<>>]

Step(op) ==
    LET a == Apply(mapping, order, op) IN
    /\ mapping' = a.m
    /\ order' = a.o
    /\ ret' = a.r
    /\ hist' = IF a.ev = <<>> THEN hist ELSE Append(hist, a.ev)

(* -- one action per public method ------------------------------------------ *)
GetItem(k) == Step(<<"getitem", k>>)       \* cache[k]
Get(k) == Step(<<"get", k>>)               \* cache.get(k)
SetItem(k, v) == Step(<<"setitem", k, v>>) \* cache[k] = v
DelItem(k) == Step(<<"delitem", k>>)       \* del cache[k]
SetDefault(k, v) == Step(<<"setdefault", k, v>>)
Contains(k) == Step(<<"contains", k>>)     \* k in cache (no promotion)
LenOp == Step(<<"len">>)
Clear == Step(<<"clear">>)
KeysOp == Step(<<"keys">>)                 \* keys()/values()/items()/iter/reversed
Copy == Step(<<"copy">>)                   \* object replaced by its copy()
Pickle == Step(<<"pickle">>)               \* object replaced by its pickle round trip

Next ==
    \/ \E k \in Keys : GetItem(k) \/ Get(k) \/ DelItem(k) \/ Contains(k)
    \/ \E k \in Keys, v \in Vals : SetItem(k, v) \/ SetDefault(k, v)
    \/ LenOp \/ Clear \/ KeysOp \/ Copy \/ Pickle

Spec == Init /\ [][Next]_vars

(* -- properties ------------------------------------------------------------ *)

TypeOK ==
    /\ mapping \in [Keys -> Vals \cup {NoVal}]
    /\ order \in Seq(Keys)

C26_Capacity == Cardinality(Present) <= Cap /\ Len(order) <= Cap

C26_OrderMatchesKeys ==
    /\ SeqSet(order) = Present
    /\ Len(order) = Cardinality(Present)

(* What "recency" means, stated on the event history alone: replay the      *)
(* history keeping, for every live key, only its last touch.                *)
RECURSIVE Recency(_)
Recency(h) ==
    IF h = <<>> THEN <<>>
    ELSE LET e == h[Len(h)]
             r == Recency(SubSeq(h, 1, Len(h) - 1))
         IN  IF e[1] = "clear" THEN <<>>
             ELSE IF e[1] = "drop" THEN Without(r, e[2])
             ELSE LET p == Promote(r, e[2]) IN
                  IF Len(p) > Cap THEN Tail(p) ELSE p

C26_OrderIsRecency == order = Recency(hist)

\* the least recently used key is the victim: any key evicted by a step was
\* the head of `order` and the capacity was reached
C26_EvictsLRU ==
    [][\A k \in Keys :
          (mapping[k] # NoVal /\ mapping'[k] = NoVal
             /\ hist' # Append(hist, <<"drop", k>>) /\ hist' # Append(hist, <<"clear">>))
          => (k = Head(order) /\ Len(order) = Cap)]_vars

HistBound == Len(hist) <= MaxHist

\* the graph dumped for replay ignores the ghost history
View == <<mapping, order, ret>>
=============================================================================
