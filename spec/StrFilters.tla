---------------------------- MODULE StrFilters ----------------------------
(***************************************************************************)
(* Contracts of the string and number filters (property C23; the text      *)
(* functions are also the algebra of the Markup-argument rule of C24).     *)
(*                                                                         *)
(* Text is a sequence of code points (FVal).  Functions are written from   *)
(* the filter documentation; where the documentation only gives a          *)
(* contract (wordwrap, round, filesizeformat) the module defines a         *)
(* relation *OK(input, args, output) instead of a function.                *)
(***************************************************************************)
EXTENDS SeqFilters

(* code points used below *)
cLF == 10   cCR == 13   cSP == 32   cTAB == 9
cAMP == 38  cLT == 60   cGT == 62   cDQ == 34   cSQ == 39
cPCT == 37  cMINUS == 45 cPLUS == 43 cDOT == 46 cUS == 95

Str(cs) == cs        \* readability only
T(s) == s            \* (TLA+ strings are never used as text)

(* ---------------------------------------------------------------- escaping *)
EscC(c) == CASE c = cAMP -> <<38, 97, 109, 112, 59>>         \* &amp;
             [] c = cLT  -> <<38, 108, 116, 59>>             \* &lt;
             [] c = cGT  -> <<38, 103, 116, 59>>             \* &gt;
             [] c = cDQ  -> <<38, 35, 51, 52, 59>>           \* &#34;
             [] c = cSQ  -> <<38, 35, 51, 57, 59>>           \* &#39;
             [] OTHER    -> <<c>>
Esc(cs) == Flatten([k \in 1..Len(cs) |-> EscC(cs[k])])
IsMeta(c) == c \in {cAMP, cLT, cGT, cDQ, cSQ}

\* escape(): safe strings pass, everything else is converted to text and escaped
EscapeV(a) == IF a.t = "m" THEN a ELSE M(Esc(StrOf(a)))
\* forceescape(): the markup form of the value is escaped (again)
ForceEscapeV(a) == M(Esc(StrOf(a)))

(* ------------------------------------------------------------------- lines *)
IsBreakAt(cs, i) == cs[i] = cLF \/ cs[i] = cCR
\* pieces of cs between line breaks (\n, \r, \r\n); always at least one piece,
\* a trailing line break yields a final empty piece
RECURSIVE Lines(_)
Lines(cs) ==
    IF \A k \in 1..Len(cs) : ~IsBreakAt(cs, k) THEN <<cs>>
    ELSE LET p == CHOOSE k \in 1..Len(cs) : IsBreakAt(cs, k) /\ \A j \in 1..(k - 1) : ~IsBreakAt(cs, j)
             w == IF cs[p] = cCR /\ p < Len(cs) /\ cs[p + 1] = cLF THEN 2 ELSE 1
         IN <<SubSeq(cs, 1, p - 1)>> \o Lines(SubSeq(cs, p + w, Len(cs)))

\* str.splitlines(): like Lines but without the final empty piece
SplitLines(cs) ==
    LET ls == Lines(cs) IN IF ls[Len(ls)] = <<>> THEN SubSeq(ls, 1, Len(ls) - 1) ELSE ls

(* ------------------------------------------------------------------ indent *)
\* every line after the first is prefixed with `ind` unless it is empty and
\* `blank` is off; the first line is prefixed iff `first`; lines are joined by \n
Indent(cs, ind, first, blank) ==
    LET ls == Lines(cs)
        Line(k) == IF k = 1 THEN (IF first THEN ind \o ls[1] ELSE ls[1])
                   ELSE IF blank \/ ls[k] # <<>> THEN ind \o ls[k] ELSE ls[k]
    IN JoinSeqs([k \in 1..Len(ls) |-> Line(k)], <<cLF>>)

IndentWidth(w) == IF w.t = "i" THEN [k \in 1..w.v |-> cSP] ELSE w.v

\* the C23 clause: deleting the inserted indentation gives the text back
\* (up to line-break normalisation)
IndentOnlyInserts(cs, ind, out) ==
    LET ls == Lines(cs)
        os == Lines(out)
    IN /\ Len(os) = Len(ls)
       /\ \A k \in 1..Len(ls) : os[k] = ls[k] \/ os[k] = ind \o ls[k]

(* ----------------------------------------------------------------- replace *)
\* non-overlapping occurrences from the left; only the first `count` (count < 0: all)
RECURSIVE Replace(_, _, _, _)
Replace(cs, old, new, count) ==
    IF count = 0 \/ Len(cs) < Len(old) \/ old = <<>> THEN cs
    ELSE IF MatchAt(cs, 1, old)
         THEN new \o Replace(SubSeq(cs, Len(old) + 1, Len(cs)), old, new, count - 1)
         ELSE <<cs[1]>> \o Replace(Tail(cs), old, new, count)

\* number of non-overlapping occurrences from the left
RECURSIVE OccCount(_, _)
OccCount(cs, old) ==
    IF old = <<>> \/ Len(cs) < Len(old) THEN 0
    ELSE IF MatchAt(cs, 1, old) THEN 1 + OccCount(SubSeq(cs, Len(old) + 1, Len(cs)), old)
    ELSE OccCount(Tail(cs), old)

\* the filter on values, per autoescape setting `ae` (C23: the count means the same in every configuration).
\* Autoescaping off, or nothing safe involved: a plain replacement on the texts.  Autoescaping on and the
\* subject, the search string or the replacement is safe: the replacement is done on markup -- whatever is
\* not safe of the subject and the replacement is escaped first -- and the result is safe; the search string
\* never reaches the output and is looked for in the markup text as it is (MarkupSafe 3).
AnySafe(s, old, new) == s.t = "m" \/ old.t = "m" \/ new.t = "m"
ReplaceV(ae, s, old, new, count) ==
    IF ~ae \/ ~AnySafe(s, old, new)
    THEN S(Replace(StrOf(s), StrOf(old), StrOf(new), count))
    ELSE M(Replace(EscapeV(s).v, StrOf(old), EscapeV(new).v, count))

\* the C23 clause "only the first `count` occurrences": stated on lengths
ReplaceCountOK(base, old, new, count, out) ==
    LET n == OccCount(base, old)
        k == IF count < 0 THEN n ELSE MinI(count, n)
    IN /\ Len(out) = Len(base) + k * (Len(new) - Len(old))
       /\ k = 0 => out = base

(* ---------------------------------------------------------------- truncate *)
\* `endlen` is the length the cut is computed with, `endtxt` what is appended
\* (they differ only when the ellipsis has been escaped, C24)
LastSpace(cs) == IF \E k \in 1..Len(cs) : cs[k] = cSP
                 THEN CHOOSE k \in 1..Len(cs) : cs[k] = cSP /\ \A j \in (k + 1)..Len(cs) : cs[j] # cSP
                 ELSE 0
TruncateX(cs, length, killwords, endlen, endtxt, leeway) ==
    IF Len(cs) <= length + leeway THEN cs
    ELSE LET pre == SubSeq(cs, 1, length - endlen)
         IN IF killwords THEN pre \o endtxt
            ELSE (IF LastSpace(pre) = 0 THEN pre ELSE SubSeq(pre, 1, LastSpace(pre) - 1)) \o endtxt
Truncate(cs, length, killwords, end, leeway) == TruncateX(cs, length, killwords, Len(end), end, leeway)

\* the C23 clause
TruncateBounded(cs, length, leeway, out) ==
    \/ out = cs /\ Len(cs) <= length + leeway
    \/ Len(out) <= length

(* ------------------------------------------------------------------ format *)
\* printf-style with %s and %% only
RECURSIVE Format(_, _)
Format(fmt, args) ==
    IF fmt = <<>> THEN <<>>
    ELSE IF fmt[1] = cPCT /\ Len(fmt) >= 2 /\ fmt[2] = 115 /\ args # <<>>      \* %s
         THEN Head(args) \o Format(SubSeq(fmt, 3, Len(fmt)), Tail(args))
    ELSE IF fmt[1] = cPCT /\ Len(fmt) >= 2 /\ fmt[2] = cPCT
         THEN <<cPCT>> \o Format(SubSeq(fmt, 3, Len(fmt)), args)
    ELSE <<fmt[1]>> \o Format(Tail(fmt), args)

\* the filter on values: `fmt|format(a1, ..., an)` is `fmt % (a1, ..., an)` -- every positional argument is
\* ONE item whatever its type (a tuple or a list is printed, not unpacked); the number of %s directives
\* must be the number of arguments, else TypeError.  Tuples carry the tag "t" (C23 only), lists "l".
\* ReprOf: texts without quotes, backslashes and control characters; no safe strings inside containers.
RECURSIVE ReprOf(_)
ReprOf(a) ==
    CASE a.t = "s" -> <<cSQ>> \o a.v \o <<cSQ>>
      [] a.t = "t" -> IF Len(a.v) = 1 THEN <<40>> \o ReprOf(a.v[1]) \o <<44, 41>>
                      ELSE <<40>> \o JoinSeqs([k \in 1..Len(a.v) |-> ReprOf(a.v[k])], <<44, cSP>>) \o <<41>>
      [] a.t = "l" -> <<91>> \o JoinSeqs([k \in 1..Len(a.v) |-> ReprOf(a.v[k])], <<44, cSP>>) \o <<93>>
      [] OTHER -> StrOf(a)
PrintOf(a) == IF a.t \in {"t", "l"} THEN ReprOf(a) ELSE StrOf(a)

RECURSIVE NDirectives(_)
NDirectives(fmt) ==
    IF Len(fmt) < 2 THEN 0
    ELSE IF fmt[1] = cPCT /\ fmt[2] = cPCT THEN NDirectives(SubSeq(fmt, 3, Len(fmt)))
    ELSE IF fmt[1] = cPCT /\ fmt[2] = 115 THEN 1 + NDirectives(SubSeq(fmt, 3, Len(fmt)))
    ELSE NDirectives(Tail(fmt))

FormatV(fmt, args) ==
    IF NDirectives(fmt) # Len(args) THEN X("TypeError")
    ELSE S(Format(fmt, [k \in 1..Len(args) |-> PrintOf(args[k])]))

(* -------------------------------------------- center / trim / case / words *)
Spaces(n) == [k \in 1..n |-> cSP]
\* str.center: the extra blank goes to the left when both the padding and the
\* width are odd (CPython), otherwise to the right
Center(cs, width) ==
    IF width <= Len(cs) THEN cs
    ELSE LET pad == width - Len(cs)
             left == pad \div 2 + (IF pad % 2 = 1 /\ width % 2 = 1 THEN 1 ELSE 0)
         IN Spaces(left) \o cs \o Spaces(pad - left)
\* what the documentation promises: "centers the value in a field of a given width"
CenterOK(cs, width, out) ==
    IF width <= Len(cs) THEN out = cs
    ELSE \E left \in 0..(width - Len(cs)) :
            /\ out = Spaces(left) \o cs \o Spaces(width - Len(cs) - left)
            /\ left - (width - Len(cs) - left) \in {-1, 0, 1}

IsWs(c) == c \in {cSP, cTAB, cLF, cCR, 11, 12}
\* strip(chars): chars = <<>> means whitespace
Trim(cs, chars) ==
    LET Drop(c) == IF chars = <<>> THEN IsWs(c) ELSE \E k \in 1..Len(chars) : chars[k] = c
    IN IF \A k \in 1..Len(cs) : Drop(cs[k]) THEN <<>>
       ELSE LET lo == CHOOSE k \in 1..Len(cs) : ~Drop(cs[k]) /\ \A j \in 1..(k - 1) : Drop(cs[j])
                hi == CHOOSE k \in 1..Len(cs) : ~Drop(cs[k]) /\ \A j \in (k + 1)..Len(cs) : Drop(cs[j])
            IN SubSeq(cs, lo, hi)

Capitalize(cs) == IF cs = <<>> THEN <<>> ELSE <<UpperC(cs[1])>> \o LowerS(Tail(cs))

\* title: "words will start with uppercase letters, all remaining characters are
\* lowercase"; words are separated by whitespace, hyphens and opening brackets
IsWordSep(c) == IsWs(c) \/ c \in {cMINUS, 40, 123, 91, cLT}       \* - ( { [ <
Title(cs) == [k \in 1..Len(cs) |->
                 IF k = 1 \/ IsWordSep(cs[k - 1]) THEN UpperC(cs[k]) ELSE LowerC(cs[k])]

\* wordcount: maximal runs of word characters (letters, digits, underscore)
IsWordC(c) == IsAlphaC(c) \/ IsDigitC(c) \/ c = cUS
WordCount(cs) == Cardinality({k \in 1..Len(cs) : IsWordC(cs[k]) /\ (k = 1 \/ ~IsWordC(cs[k - 1]))})

(* ---------------------------------------------------------------- wordwrap *)
\* relation only: all non-whitespace text in order, and -- when long words may
\* be broken -- no line longer than the width
NonWs(cs) == SelectSeq(cs, LAMBDA c : ~IsWs(c))
WrapOK(cs, width, breaklong, wrapstr, out) ==
    LET outlines == Lines(out)          \* wrapstr is a line break in the checked shapes
    IN /\ NonWs(out) = NonWs(cs)
       /\ breaklong => \A k \in 1..Len(outlines) : Len(outlines[k]) <= width

(* --------------------------------------------------- striptags / urlencode *)
\* striptags on the entity-free, comment-free sub-domain: remove <...> tags,
\* collapse every whitespace run to one blank, strip both ends
\* a tag is `<` up to the next `>`; a `<` that is never closed is text
RECURSIVE DropTags(_)
DropTags(cs) ==
    IF cs = <<>> THEN <<>>
    ELSE IF cs[1] = cLT /\ \E k \in 2..Len(cs) : cs[k] = cGT
         THEN LET e == CHOOSE k \in 2..Len(cs) : cs[k] = cGT /\ \A j \in 2..(k - 1) : cs[j] # cGT
              IN DropTags(SubSeq(cs, e + 1, Len(cs)))
    ELSE <<cs[1]>> \o DropTags(Tail(cs))
CollapseWs(cs) ==
    LET t == Trim(cs, <<>>)
    IN SelectSeq([k \in 1..Len(t) |-> IF IsWs(t[k]) THEN (IF k > 1 /\ IsWs(t[k - 1]) THEN 0 ELSE cSP) ELSE t[k]],
                 LAMBDA c : c # 0)
StripTags(cs) == CollapseWs(DropTags(cs))

\* urlencode: the text is encoded as UTF-8; unreserved ASCII characters (and "/" in
\* the path form) stay, every other byte is written as percent-XX.  Code points >= 128 are
\* never "safe", whatever their Unicode category.
HexD(n) == IF n < 10 THEN 48 + n ELSE 55 + n                    \* upper-case hex
Utf8(c) ==
    IF c < 128 THEN <<c>>
    ELSE IF c < 2048 THEN <<192 + (c \div 64), 128 + (c % 64)>>
    ELSE IF c < 65536 THEN <<224 + (c \div 4096), 128 + ((c \div 64) % 64), 128 + (c % 64)>>
    ELSE <<240 + (c \div 262144), 128 + ((c \div 4096) % 64), 128 + ((c \div 64) % 64), 128 + (c % 64)>>
PctBytes(bs) == Flatten([k \in 1..Len(bs) |-> <<cPCT, HexD(bs[k] \div 16), HexD(bs[k] % 16)>>])
UrlUnreserved(c) == IsAlphaC(c) \/ IsDigitC(c) \/ c \in {cUS, cDOT, cMINUS, 126}
UrlSafeC(c) == UrlUnreserved(c) \/ c = 47
UrlQuote(cs) == Flatten([k \in 1..Len(cs) |->
                    IF UrlSafeC(cs[k]) THEN <<cs[k]>> ELSE PctBytes(Utf8(cs[k]))])
\* query-string form: "/" is quoted too and a blank becomes "+"
UrlQuoteQS(cs) == Flatten([k \in 1..Len(cs) |->
                    IF UrlUnreserved(cs[k]) THEN <<cs[k]>>
                    ELSE IF cs[k] = cSP THEN <<cPLUS>> ELSE PctBytes(Utf8(cs[k]))])
\* Values that are not strings are "converted to string" (url_quote) before they are quoted: the
\* text is str(value), and str() tells an int from a float from a bool -- 1, 1.0 and True compare
\* equal in Python but are quoted as "1", "1.0" and "True".  str() of a float that is exact in
\* thousandths (FVal "f", |x| < 2^31 / 1000: repr never uses an exponent there): sign, integer
\* part, ".", the decimals without trailing zeros but at least one digit.
FloatStr(m) ==
    LET a    == IF m < 0 THEN 0 - m ELSE m
        frac == a % 1000
        ds   == IF frac % 100 = 0 THEN <<48 + (frac \div 100)>>
                ELSE IF frac % 10 = 0 THEN <<48 + (frac \div 100), 48 + ((frac \div 10) % 10)>>
                ELSE <<48 + (frac \div 100), 48 + ((frac \div 10) % 10), 48 + (frac % 10)>>
    IN (IF m < 0 THEN <<45>> ELSE <<>>) \o NatDigits(a \div 1000) \o <<cDOT>> \o ds
UrlTextOf(a) == IF a.t = "f" THEN FloatStr(a.v) ELSE StrOf(a)
IsScalarV(a) == a.t \in {"i", "b", "n", "f"}
\* a mapping / sequence of pairs: key=value joined by "&"
UrlEncodePairs(ps) ==
    JoinSeqs([k \in 1..Len(ps) |-> UrlQuoteQS(UrlTextOf(ps[k][1])) \o <<61>> \o UrlQuoteQS(UrlTextOf(ps[k][2]))], <<cAMP>>)
\* the clause "nothing but unreserved ASCII, / + = & and percent-XX reaches a URL"
UrlClean(out) == \A k \in 1..Len(out) : UrlSafeC(out[k]) \/ out[k] \in {cPCT, cPLUS, 61, cAMP}

(* ------------------------------------------------------------ int / float *)
\* Value classes (the harness generates one or more concrete values per class):
\*   strings: dec signed spaced hex oct bin floatstr expstr infstr nanstr hugestr empty garbage
\*   others:  int hugeint float inf nan bool none list dict object
\* IntConv / FloatConv say whether the documented conversion exists for the class
\* ("converted") or the default must be returned ("default"); never an exception.
IntConv(cls, base) ==
    CASE cls \in {"dec", "signed", "spaced", "hugestr"} -> "converted"          \* (base 10 only)
      [] cls = "hex" -> IF base = 16 THEN "converted" ELSE "default"
      [] cls = "oct" -> IF base = 8 THEN "converted" ELSE "default"
      [] cls = "bin" -> IF base = 2 THEN "converted" ELSE "default"
      [] cls \in {"floatstr", "expstr"} -> "converted"           \* "42.23"|int gives 42
      [] cls \in {"infstr", "nanstr", "empty", "garbage"} -> "default"
      [] cls \in {"int", "hugeint", "float", "bool"} -> "converted"
      [] cls \in {"inf", "nan", "none", "list", "dict", "object"} -> "default"
FloatConv(cls) ==
    CASE cls \in {"dec", "signed", "spaced", "hugestr", "floatstr", "expstr", "infstr", "nanstr"} -> "converted"
      [] cls \in {"hex", "oct", "bin", "empty", "garbage"} -> "default"
      [] cls \in {"int", "float", "inf", "nan", "bool"} -> "converted"
      [] cls \in {"hugeint", "none", "list", "dict", "object"} -> "default"     \* 10**400 has no float

\* exact value of small numeric texts:  [sign] digits [. digits]  with optional
\* blanks around, or 0x / 0o / 0b prefixed digits in the matching base
DigitVal(c) == IF IsDigitC(c) THEN c - 48 ELSE LowerC(c) - 87
RECURSIVE BaseVal(_, _)
BaseVal(cs, base) == IF cs = <<>> THEN 0 ELSE BaseVal(SubSeq(cs, 1, Len(cs) - 1), base) * base + DigitVal(cs[Len(cs)])
\* value in thousandths, truncating further digits
MilliOfText(cs0) ==
    LET cs == Trim(cs0, <<>>)
        neg == cs # <<>> /\ cs[1] = cMINUS
        body == IF cs # <<>> /\ cs[1] \in {cMINUS, cPLUS} THEN Tail(cs) ELSE cs
        parts == SplitOn(body, cDOT)
        frac == IF Len(parts) > 1 THEN parts[2] ELSE <<>>
        f3 == SubSeq(frac \o <<48, 48, 48>>, 1, 3)
        mag == DigitsVal(parts[1]) * 1000 + DigitsVal(f3)
    IN IF neg THEN 0 - mag ELSE mag
TruncToInt(milli) == IF milli >= 0 THEN milli \div 1000 ELSE 0 - ((0 - milli) \div 1000)
IntOfText(cs0, base) ==
    LET cs == Trim(cs0, <<>>)
    IN IF Len(cs) > 2 /\ cs[1] = 48 /\ LowerC(cs[2]) \in {120, 111, 98}
       THEN BaseVal(SubSeq(cs, 3, Len(cs)), base)
       ELSE TruncToInt(MilliOfText(cs))

(* ------------------------------------------------------------------ round *)
\* x and y in thousandths; precision 0..3
Pow10(n) == IF n = 0 THEN 1 ELSE IF n = 1 THEN 10 ELSE IF n = 2 THEN 100 ELSE 1000
AbsI(n) == IF n < 0 THEN 0 - n ELSE n
RoundOK(method, precision, x, y) ==
    LET unit == 1000 \div Pow10(precision)
    IN /\ y % unit = 0
       /\ CASE method = "ceil"   -> y >= x /\ y - x < unit
            [] method = "floor"  -> y <= x /\ x - y < unit
            [] method = "common" -> 2 * AbsI(y - x) <= unit      \* a tie may go either way

(* --------------------------------------------------------- filesizeformat *)
\* n bytes (n < 10^8), output text "<int> Bytes" / "1 Byte" / "<d+>.<d> <prefix>"
RECURSIVE PowI(_, _)
PowI(b, k) == IF k = 0 THEN 1 ELSE b * PowI(b, k - 1)
UnitName(k, binary) ==
    CASE k = 1 -> IF binary THEN <<75, 105, 66>> ELSE <<107, 66>>       \* KiB kB
      [] k = 2 -> IF binary THEN <<77, 105, 66>> ELSE <<77, 66>>        \* MiB MB
      [] k = 3 -> IF binary THEN <<71, 105, 66>> ELSE <<71, 66>>        \* GiB GB
FileSizeOK(n, binary, out) ==
    LET base == IF binary THEN 1024 ELSE 1000
        parts == SplitOn(out, cSP)
    IN /\ Len(parts) = 2
       /\ IF n = 1 THEN out = <<49, 32, 66, 121, 116, 101>>                                  \* 1 Byte
          ELSE IF n < base THEN parts[1] = IntStr(n) /\ parts[2] = <<66, 121, 116, 101, 115>>  \* n Bytes
          ELSE LET k == CHOOSE j \in 1..2 : PowI(base, j) <= n /\ n < PowI(base, j + 1)
                   num == SplitOn(parts[1], cDOT)
                   m == DigitsVal(num[1]) * 10 + DigitsVal(num[2])          \* tenths
               IN /\ Len(num) = 2 /\ Len(num[2]) = 1 /\ IsDigits(num[1]) /\ IsDigits(num[2])
                  \* the unit: normally base^k <= n < base^(k+1); rounding may print 1000.0 / 1024.0
                  /\ parts[2] = UnitName(k, binary)
                  \* |m/10 - n/base^k| <= 1/20  (either direction at an exact tie)
                  /\ 2 * AbsI(m * PowI(base, k) - 10 * n) <= PowI(base, k)

=============================================================================
