---------------------------- MODULE TemplateCache ----------------------------
(***************************************************************************)
(* The template cache of jinja2.Environment (property C25).                *)
(*                                                                         *)
(* A loader holds, per template name, the current source version (or       *)
(* nothing).  An environment looks templates up by name through a cache    *)
(* that is either absent (size 0), an unbounded dict (size -1) or an LRU   *)
(* map of `CacheSize` entries -- the LRU meaning is taken from LRU.tla     *)
(* (`L!Apply`), it is not restated here.                                   *)
(*                                                                         *)
(* State                                                                   *)
(*   kind        which loader the history runs on (chosen in Init):        *)
(*                 "dict"      DictLoader: up-to-date check compares the   *)
(*                             remembered source with the mapping          *)
(*                 "fnstr"     FunctionLoader returning a str: NO check    *)
(*                 "fntriple"  FunctionLoader returning (src, None, check) *)
(*                             where check compares a generation stamp     *)
(*                 "fs"        FileSystemLoader: check compares the mtime  *)
(*   autoReload  Environment(auto_reload=...) (chosen in Init)             *)
(*   src         name -> current version, Absent when the loader has none  *)
(*   mapping     name -> cached entry [v, fresh] or NoVal                  *)
(*                 v      the version the cached template was compiled from*)
(*                 fresh  (stamp kinds only) the stamp read at load time   *)
(*                        is still the loader's stamp; every Modify /      *)
(*                        Delete / Add / Touch of the name gives it a      *)
(*                        never-used stamp                                 *)
(*   order       cached names; LRU: least recently used first;             *)
(*               dict: insertion order                                     *)
(*   (observable outcome of a get / select: the result -- rendered version  *)
(*    / TemplateNotFound(name) / TemplatesNotFound -- and the sequence of   *)
(*    names the loader was asked for, each one (re)load = compile attempt;  *)
(*    it is a function of the state, `LoadOne` / `SelFold`, not a variable, *)
(*    so the properties below speak about EVERY get / select possible in a  *)
(*    state)                                                                *)
(*   bc          (UseBC) the bytecode cache configured next to the template *)
(*               cache: name -> [sum, code] | NoVal.  A (re)load makes a    *)
(*               bucket keyed by the name with the checksum of the CURRENT  *)
(*               source; the stored entry is used only under that checksum, *)
(*               otherwise the source is compiled and the entry replaced    *)
(*               (BCLoad).  Shared with overlays; observable: hit / miss /  *)
(*               dump events and the stored entries.                        *)
(*   rank        ghost: names in the order of their last *use* by the      *)
(*               cache (a lookup that finds the name cached, or a store).  *)
(*               Maintained without any reference to eviction, so that     *)
(*               "least recently used" can be stated independently of how  *)
(*               `order` is kept.                                          *)
(*                                                                         *)
(* Abstract layer  = the C25_* properties at the end (the rule as the      *)
(*                   property statement gives it).                         *)
(* Operational layer = LoadOne / SelFold, shaped like                      *)
(*                   Environment._load_template / select_template.         *)
(* TLC checks that the operational layer satisfies the abstract one; the   *)
(* real Environment is replayed against every transition of the graph.     *)
(***************************************************************************)
EXTENDS Integers, Sequences, FiniteSets, TLC, Json

CONSTANTS Names,       \* template names, e.g. {"a", "b", "c"}
          NVersions,   \* source versions are 1..NVersions
          CacheSize,   \* Environment(cache_size=...): 0 none, -1 unbounded dict, n > 0 LRU
          KindSet,     \* loader kinds explored, a subset of Kinds
          ReloadSet,   \* values of auto_reload explored, a subset of BOOLEAN
          NoVal,       \* "not cached" (a model value)
          EmitGraph,   \* TRUE: print every transition as a JSON line (graph export for the replay)
          UseBC        \* Environment(bytecode_cache=...): a bytecode cache sits between loader and compiler

VARIABLES kind, autoReload, src, mapping, order, rank,
          bc           \* the bytecode cache: name -> stored entry [sum, code] or NoVal
                       \*   sum   the source version whose checksum the entry carries
                       \*   code  the source version the stored code object was compiled from
                       \* (shared by an environment and its overlays; stays empty when ~UseBC)

vars == <<kind, autoReload, src, mapping, order, rank, bc>>

Absent == 0
Versions == 1..NVersions
Kinds == {"dict", "fnstr", "fntriple", "fs"}
ASSUME KindSet \subseteq Kinds /\ ReloadSet \subseteq BOOLEAN
StampKinds == {"fntriple", "fs"}
Entry == [v : Versions, fresh : BOOLEAN]
BCEntry == [sum : Versions, code : Versions]
ASSUME UseBC \in BOOLEAN

\* the dict never evicts; give the (unused) LRU instance room for every name
EffCap == IF CacheSize < 0 THEN Cardinality(Names) ELSE CacheSize

L == INSTANCE LRU WITH Keys <- Names, Vals <- Entry, Cap <- EffCap, MaxHist <- 0, hist <- <<>>, ret <- <<>>

\* lists tried by select_template: the empty list and every pair of distinct names
SelLists == {<<>>} \cup {p \in Names \X Names : p[1] # p[2]}

Render(n, v) == <<"render", n, v>>          \* template n rendered the text of version v
NotFound(n) == <<"notfound", n, 0>>         \* TemplateNotFound(n)
NoneFound == <<"nonefound", "", 0>>         \* TemplatesNotFound
NoRes == <<"none", "", 0>>


\* every loader state is reachable from the empty loader through Add / Modify / Delete
Init ==
    /\ kind \in KindSet
    /\ autoReload \in ReloadSet
    /\ src = [n \in Names |-> Absent]
    /\ mapping = [n \in Names |-> NoVal]
    /\ order = <<>>
    /\ rank = <<>>
    /\ bc = [n \in Names |-> NoVal]

(* -- the loader's up-to-date check ------------------------------------------ *)
HasUptodate == kind # "fnstr"

\* what Template.is_up_to_date answers for cached entry e of name n
UpToDate(n, e) ==
    CASE kind = "dict" -> src[n] = e.v      \* lambda: source == mapping.get(name)
      [] kind = "fnstr" -> TRUE             \* no callable => "always up to date"
      [] OTHER -> e.fresh                   \* stamp (generation / mtime) unchanged and still there

(* -- the cache as used by _load_template ------------------------------------ *)
CGet(m, o, n) ==       \* self.cache.get(key)
    IF CacheSize > 0 THEN L!Apply(m, o, <<"get", n>>) ELSE [m |-> m, o |-> o]

CSet(m, o, n, e) ==    \* self.cache[key] = template
    IF CacheSize > 0 THEN L!Apply(m, o, <<"setitem", n, e>>)
    ELSE IF CacheSize < 0
         THEN [m |-> [m EXCEPT ![n] = e], o |-> IF m[n] # NoVal THEN o ELSE Append(o, n)]
         ELSE [m |-> m, o |-> o]

\* BaseLoader.load(n) after get_source succeeded, shaped like the code: the bucket of n is
\* made with the checksum of the CURRENT source; a stored entry is taken only when it carries
\* that checksum (Bucket.load_bytecode resets otherwise); with no code in the bucket the
\* current source is compiled and the bucket is written back.
\*   [b: bytecode cache afterwards, code: the version whose code the template runs,
\*    ops: what the bytecode cache saw -- <<"hit", n>> | <<"miss", n>>, <<"dump", n>>]
BCLoad(b, n) ==
    IF ~UseBC THEN [b |-> b, code |-> src[n], ops |-> <<>>]
    ELSE IF b[n] # NoVal /\ b[n].sum = src[n]
         THEN [b |-> b, code |-> b[n].code, ops |-> << <<"hit", n>> >>]
         ELSE [b |-> [b EXCEPT ![n] = [sum |-> src[n], code |-> src[n]]], code |-> src[n],
               ops |-> << <<"miss", n>>, <<"dump", n>> >>]

\* one Environment._load_template(n):
\*   [m, o: cache afterwards, b: bytecode cache afterwards, res, loads: names asked of the loader,
\*    bcops: what the bytecode cache saw, used: n was used in the cache]
LoadOne(m, o, b, n) ==
    LET cached == CacheSize # 0 /\ m[n] # NoVal
        g == CGet(m, o, n)
    IN  IF cached /\ (~autoReload \/ UpToDate(n, m[n]))
        THEN [m |-> g.m, o |-> g.o, b |-> b, res |-> Render(n, m[n].v), loads |-> <<>>, bcops |-> <<>>, used |-> TRUE]
        ELSE IF src[n] = Absent
        THEN \* loader raises TemplateNotFound; a stale entry stays where the lookup left it
             [m |-> g.m, o |-> g.o, b |-> b, res |-> NotFound(n), loads |-> <<n>>, bcops |-> <<>>, used |-> cached]
        ELSE LET c == BCLoad(b, n)
                 s == CSet(g.m, g.o, n, [v |-> c.code, fresh |-> TRUE]) IN
             [m |-> s.m, o |-> s.o, b |-> c.b, res |-> Render(n, c.code), loads |-> <<n>>, bcops |-> c.ops,
              used |-> CacheSize # 0]

Use(rk, n, used) == IF used THEN L!Promote(rk, n) ELSE rk

\* select_template(ns): the first name that loads wins, every attempt goes through the cache
RECURSIVE SelFold(_, _, _, _, _, _)
SelFold(m, o, b, rk, ns, loads) ==
    IF ns = <<>> THEN [m |-> m, o |-> o, b |-> b, rk |-> rk, res |-> NoneFound, loads |-> loads, bcops |-> <<>>]
    ELSE LET r == LoadOne(m, o, b, Head(ns))
             rk2 == Use(rk, Head(ns), r.used)
         IN  IF r.res[1] = "render"
             THEN [m |-> r.m, o |-> r.o, b |-> r.b, rk |-> rk2, res |-> r.res, loads |-> loads \o r.loads,
                   bcops |-> r.bcops]
             ELSE \* a name that does not load never reaches the bytecode cache
                  SelFold(r.m, r.o, r.b, rk2, Tail(ns), loads \o r.loads)

(* -- actions ------------------------------------------------------------------ *)
\* With EmitGraph every transition is printed as one JSON line
\*   {s: state before, a: operation, out: observable outcome, t: state after}
\* (states projected by ViewRec: without the ghost).  Run with VIEW View the
\* printed lines are exactly the edges of the reachable state graph; the replay driver
\* walks the real Environment along every one of them.
ViewRec == [k |-> kind, ar |-> autoReload, src |-> src, m |-> mapping, o |-> order, bc |-> bc]
\* what Template.is_up_to_date answers for every cached template (derived, not state)
Fresh == [n \in {x \in Names : mapping[x] # NoVal} |-> UpToDate(n, mapping[n])]
Emit(op, res, loads, bcops) ==
    EmitGraph => PrintT(ToJson([s |-> ViewRec, a |-> op, res |-> res, loads |-> loads, bcops |-> bcops,
                                t |-> ViewRec', u |-> Fresh']))

Get(n) ==                                   \* env.get_template(n).render()
    LET r == LoadOne(mapping, order, bc, n) IN
    /\ mapping' = r.m
    /\ order' = r.o
    /\ bc' = r.b
    /\ rank' = Use(rank, n, r.used)
    /\ UNCHANGED <<kind, autoReload, src>>
    /\ Emit(<<"get", n>>, r.res, r.loads, r.bcops)

Select(ns) ==                               \* env.select_template(ns).render()
    LET r == SelFold(mapping, order, bc, rank, ns, <<>>) IN
    /\ mapping' = r.m
    /\ order' = r.o
    /\ bc' = r.b
    /\ rank' = r.rk
    /\ UNCHANGED <<kind, autoReload, src>>
    /\ Emit(<<"select", ns>>, r.res, r.loads, r.bcops)

\* the loader's stamp for n changes: a cached entry of n is no longer fresh
Staled(n) ==
    IF kind \in StampKinds /\ mapping[n] # NoVal
    THEN [mapping EXCEPT ![n] = [@ EXCEPT !.fresh = FALSE]]
    ELSE mapping

Change(n, v, what) ==
    /\ src' = [src EXCEPT ![n] = v]
    /\ mapping' = Staled(n)
    /\ UNCHANGED <<kind, autoReload, order, rank, bc>>
    /\ Emit(<<what, n, v>>, NoRes, <<>>, <<>>)

Modify(n, v) == src[n] # Absent /\ v # src[n] /\ Change(n, v, "modify")   \* new source text
Delete(n) == src[n] # Absent /\ Change(n, Absent, "delete")               \* template removed
Add(n, v) == src[n] = Absent /\ Change(n, v, "add")                       \* template (re)appears
Touch(n) ==                                 \* stamp changes, text does not (os.utime)
    kind \in StampKinds /\ src[n] # Absent /\ Change(n, src[n], "touch")

\* env.overlay(): the environment is replaced by an overlay of itself; the
\* overlay starts with an EMPTY cache of the same kind and capacity; the bytecode cache object
\* is shared with the overlay and keeps what it holds (like a restarted process over the
\* same bytecode cache directory)
Overlay ==
    /\ mapping' = [n \in Names |-> NoVal]
    /\ order' = <<>>
    /\ rank' = <<>>
    /\ UNCHANGED <<kind, autoReload, src, bc>>
    /\ Emit(<<"overlay">>, NoRes, <<>>, <<>>)

Next ==
    \/ \E n \in Names : Get(n) \/ Delete(n) \/ Touch(n)
    \/ \E ns \in SelLists : Select(ns)
    \/ \E n \in Names, v \in Versions : Modify(n, v) \/ Add(n, v)
    \/ Overlay

Spec == Init /\ [][Next]_vars

(* -- properties ----------------------------------------------------------------- *)
\* The outcome of a get / select is a function of the state, so every property about
\* "what a get shows" is a state invariant quantified over all gets possible in the state.
Present == {n \in Names : mapping[n] # NoVal}
SeqSet(s) == {s[i] : i \in 1..Len(s)}
GetR(n) == LoadOne(mapping, order, bc, n)
SelR(ns) == SelFold(mapping, order, bc, rank, ns, <<>>)

TypeOK ==
    /\ kind \in Kinds /\ autoReload \in BOOLEAN
    /\ src \in [Names -> Versions \cup {Absent}]
    /\ mapping \in [Names -> Entry \cup {NoVal}]
    /\ order \in Seq(Names)
    /\ bc \in [Names -> BCEntry \cup {NoVal}]
    /\ ~UseBC => \A n \in Names : bc[n] = NoVal
    /\ SeqSet(order) = Present /\ Len(order) = Cardinality(Present)

\* what "the current source" of name n renders to
Current(n) == IF src[n] = Absent THEN NotFound(n) ELSE Render(n, src[n])

\* auto-reload + a loader that supplies an up-to-date check: every get renders the
\* current source, deleted templates raise TemplateNotFound
C25_FreshWhenCheckable ==
    (autoReload /\ HasUptodate) => \A n \in Names : GetR(n).res = Current(n)

\* a served version that is not current is only possible when reloading is off or cannot be checked
C25_StaleOnlyWhenUncheckable ==
    \A n \in Names : LET r == GetR(n).res IN
        (r[1] = "render" /\ r[3] # src[n]) => (~autoReload \/ ~HasUptodate)

\* without auto-reload a cached template is served as cached and the loader is not asked
C25_NeverReloadWhenOff ==
    (~autoReload /\ CacheSize # 0) =>
        \A n \in Present : GetR(n).res = Render(n, mapping[n].v) /\ GetR(n).loads = <<>>

\* an up-to-date cached template is served from the cache (that is what the cache is for)
C25_HitWhenFresh ==
    CacheSize # 0 => \A n \in Present : UpToDate(n, mapping[n]) => GetR(n).loads = <<>>

C25_Capacity ==
    /\ CacheSize = 0 => Present = {}
    /\ CacheSize > 0 => Cardinality(Present) <= CacheSize /\ Len(order) <= CacheSize

\* a size-0 cache asks the loader (compiles) on every get
C25_Size0Recompiles ==
    CacheSize = 0 => \A n \in Names : GetR(n).loads = <<n>> /\ GetR(n).res = Current(n)

\* the victim of an eviction is the least recently used cached name, and nothing is
\* evicted before the cache is full.  "Least recently used" is read off the ghost `rank`
\* after the step: every name still cached was used later than the victim (a select may
\* use -- look up -- a stale cached name before it stores another one).
Before(rk, a, b) == \E i, j \in 1..Len(rk) : rk[i] = a /\ rk[j] = b /\ i < j
OverlayStep == mapping' = [n \in Names |-> NoVal] /\ rank' = <<>>
C25_EvictsLRU ==
    [][\A n \in Names :
         (mapping[n] # NoVal /\ mapping'[n] = NoVal /\ ~OverlayStep)
            => /\ CacheSize > 0 /\ Cardinality(Present) = CacheSize
               /\ \A k \in Names : mapping'[k] # NoVal => Before(rank', n, k)]_vars

\* the LRU order is exactly the order of last use
C25_OrderIsRecency ==
    CacheSize > 0 => order = SelectSeq(rank, LAMBDA k : mapping[k] # NoVal)

\* the unbounded cache never forgets
C25_UnboundedKeeps ==
    [][(CacheSize < 0 /\ ~OverlayStep) => \A n \in Names : mapping[n] # NoVal => mapping'[n] # NoVal]_vars

\* select_template: with checkable freshness (or no cache) the first name that currently
\* exists wins, rendered from its current source; TemplatesNotFound iff none exists
FirstExisting(ns) ==
    LET idx == {i \in 1..Len(ns) : src[ns[i]] # Absent} IN
    IF idx = {} THEN NoneFound
    ELSE LET i == CHOOSE i \in idx : \A j \in idx : i <= j IN Render(ns[i], src[ns[i]])
C25_SelectFirstExisting ==
    ((autoReload /\ HasUptodate) \/ CacheSize = 0) => \A ns \in SelLists : SelR(ns).res = FirstExisting(ns)

\* a select never answers TemplatesNotFound while one of its names exists
C25_SelectFindsSomething ==
    \A ns \in SelLists : SelR(ns).res = NoneFound => \A i \in 1..Len(ns) : src[ns[i]] = Absent

\* the freshness flag is only ever cleared for loaders whose check compares a stamp
C25_FreshFlag == \A n \in Present : kind \notin StampKinds => mapping[n].fresh

\* the bytecode cache never changes what is rendered: whatever a (re)load takes out of it was
\* compiled from the source it is keyed by, so every template that is (re)loaded -- by any
\* environment sharing the bytecode cache, with any template cache size -- runs the code of the
\* CURRENT source (the template cache above it would otherwise serve old code as "fresh")
C25_BytecodeOfItsSource == \A n \in Names : bc[n] # NoVal => bc[n].code = bc[n].sum
C25_LoadRunsCurrentSource ==
    \A n \in Names : LET r == GetR(n) IN
        (r.loads = <<n>> /\ r.res[1] = "render") => r.res = Current(n)
\* an entry is reused exactly when it was stored for the current source; a changed source is
\* recompiled and the entry replaced
C25_BytecodeReuse ==
    UseBC => \A n \in Names : LET r == GetR(n) IN
        (r.loads = <<n>> /\ r.res[1] = "render") =>
            /\ (r.bcops = << <<"hit", n>> >>) <=> (bc[n] # NoVal /\ bc[n].sum = src[n])
            /\ r.b[n] = [sum |-> src[n], code |-> src[n]]

\* the graph exported for the replay ignores the ghost
View == ViewRec
=============================================================================
