--------------------------- MODULE LoaderSession ---------------------------
(***************************************************************************)
(* Property C28, second sentence, over TIME: one ChoiceLoader / PrefixLoader *)
(* composition object is asked again and again while the templates its leaf *)
(* loaders hold come and go (a file is created in an override directory, a  *)
(* key is added to / deleted from a DictLoader mapping).  Every answer is   *)
(* the first candidate that has the name NOW -- it depends on the present   *)
(* contents of the leaves only, not on what was asked or answered before.   *)
(*                                                                         *)
(* A session of one composition `tree`:                                     *)
(*   Put(l, n) / Drop(l, n)   leaf l gains / loses the (local) name n       *)
(*   Get(n)                   the composition is asked for the name n: the  *)
(*                            operational machine of LoaderCompose.tla (the *)
(*                            for loop with try / except of ChoiceLoader,   *)
(*                            split / delegate of PrefixLoader) runs on the *)
(*                            present contents `has`                        *)
(*   End                      prints the session (events and the answer of  *)
(*                            every Get) for the replay on the real loaders *)
(* This module extends LoaderCompose.tla: its abstract layer (Candidates,   *)
(* AbstractResult, ...) and its machine read the variable `has`, which is   *)
(* constant there and changes here; LeafHas is the contents a session       *)
(* starts with, NameSet is not used (the names are part of Comps).          *)
(*                                                                         *)
(* Only the pairs <<leaf, local name>> that are candidates of a name of the *)
(* session change (`churn`); compositions that offer fewer than two or more *)
(* than MaxChurn such pairs have no session.                                *)
(***************************************************************************)
EXTENDS LoaderCompose

\* Comps here: set of [id |-> n, t |-> tree, ns |-> set of the names asked in the sessions of this tree]
CONSTANTS MaxOps,     \* events per session
          MaxChurn

VARIABLES ns, churn,  \* the names asked / the pairs that change in this session (fixed in Init)
          ops, log    \* number of events so far, the events with the answers

svars == <<c, tree, name, stack, ret, asked, want, has, ns, churn, ops, log>>

Range(s) == {s[x] : x \in 1..Len(s)}
ChurnOf(t, names) == UNION {Range(Candidates(t, n)) : n \in names}

Idle == stack = <<>>
Answered == stack = <<>> /\ ret # None
LastPair == IF log # <<>> /\ log[Len(log)].e # "get" THEN <<log[Len(log)].l, log[Len(log)].n>> ELSE <<>>

SInit ==
    /\ \E comp \in Comps :
          /\ c = comp.id /\ tree = comp.t /\ ns = comp.ns
          /\ churn = ChurnOf(comp.t, comp.ns)
          /\ Cardinality(ChurnOf(comp.t, comp.ns)) \in 2..MaxChurn
    /\ has = LeafHas
    /\ name = <<>> /\ stack = <<>> /\ ret = None /\ asked = <<>>
    /\ want = [res |-> None, asked |-> <<>>, cands |-> <<>>]
    /\ ops = 0 /\ log = <<>>

\* a toggle as the last event cannot be observed, the same pair twice in a row is no change
CanToggle(p) == Idle /\ ops + 1 < MaxOps /\ p \in churn /\ p # LastPair

Put(p) ==
    /\ CanToggle(p) /\ p[2] \notin has[p[1]]
    /\ has' = [has EXCEPT ![p[1]] = @ \cup {p[2]}]
    /\ log' = Append(log, [e |-> "put", l |-> p[1], n |-> p[2], r |-> <<>>])
    /\ ops' = ops + 1 /\ ret' = None
    /\ UNCHANGED <<c, tree, name, stack, asked, want, ns, churn>>

Drop(p) ==
    /\ CanToggle(p) /\ p[2] \in has[p[1]]
    /\ has' = [has EXCEPT ![p[1]] = @ \ {p[2]}]
    /\ log' = Append(log, [e |-> "drop", l |-> p[1], n |-> p[2], r |-> <<>>])
    /\ ops' = ops + 1 /\ ret' = None
    /\ UNCHANGED <<c, tree, name, stack, asked, want, ns, churn>>

\* loader.get_source(env, n) / loader.load(env, n, globals) on the composition object
Get(n) ==
    /\ Idle /\ ops < MaxOps /\ n \in ns
    /\ name' = n
    /\ stack' = <<Frame(tree, n, <<>>)>>
    /\ ret' = None /\ asked' = <<>>
    /\ want' = [res |-> AbstractResult(tree, n), asked |-> AbstractAsked(tree, n), cands |-> Candidates(tree, n)]
    /\ ops' = ops + 1
    /\ UNCHANGED <<c, tree, has, ns, churn, log>>

\* one step of the lookup machine on the present contents
Step ==
    /\ \/ LeafLookup \/ ChoiceTry \/ ChoiceCatch \/ ChoiceReturn \/ ChoiceExhausted
       \/ PrefixRoute \/ PrefixNoRoute \/ PrefixReturn
    /\ UNCHANGED <<has, ns, churn, ops>>
    /\ log' = IF stack' = <<>> THEN Append(log, [e |-> "get", l |-> "", n |-> name, r |-> ret']) ELSE log

End ==
    /\ Answered /\ ops = MaxOps
    /\ PrintT(ToJson([c |-> c, churn |-> churn, log |-> log]))
    /\ UNCHANGED svars

\* constant sets (TLC evaluates them once): bounds of the quantifiers of SNext
AllPairs == UNION {ChurnOf(comp.t, comp.ns) : comp \in Comps}
AllNames == UNION {comp.ns : comp \in Comps}

SNext == (\E p \in AllPairs : Put(p) \/ Drop(p)) \/ (\E n \in AllNames : Get(n)) \/ Step \/ End

SSpec == SInit /\ [][SNext]_svars /\ WF_svars(SNext)

(* ---- properties ----------------------------------------------------------- *)
\* the answer is the source of the first candidate that has the name now, whatever happened before
C28_FirstNow == Answered => ret = AbstractResult(tree, name)

\* TemplateNotFound exactly when no candidate has the name now
C28_NotFoundIffNoneNow ==
    Answered => (ret = NF <=> \A k \in 1..Len(Candidates(tree, name)) : ~Has(Candidates(tree, name)[k]))

\* contents change between lookups only (the abstract answer computed at Get is the one at the answer)
C28_StableDuringLookup == ~Idle => want.res = AbstractResult(tree, name)

C28_SessionRouting == C28_PrefixRouting
C28_SessionAskedInOrder == C28_AskedInOrder

\* every lookup of a session comes to an answer
C28_SessionTerminates == []<>Idle
=============================================================================
