------------------------------- MODULE FVal -------------------------------
(***************************************************************************)
(* Value algebra shared by the filter specifications (SeqFilters,          *)
(* StrFilters, HtmlScan; properties C22, C23, C24).                        *)
(*                                                                         *)
(* A template value is a tagged record [t |-> tag, v |-> payload]:         *)
(*   "i" integer            v = the integer (small; 32 bit)                *)
(*   "b" boolean            v = TRUE / FALSE                               *)
(*   "n" none, "u" undefined                    v = 0                      *)
(*   "s" plain string       v = sequence of code points (ints)             *)
(*   "m" safe string (Markup)  v = sequence of code points                 *)
(*   "l" list / tuple / materialised iterator   v = sequence of values     *)
(*   "d" dict               v = sequence of <<key, value>> in insertion    *)
(*                              order                                      *)
(*   "o" object with attributes  v = sequence of <<name, value>>           *)
(*   "x" raised exception   v = class name (TLA+ string)                   *)
(*   "c" opaque class label v = TLA+ string (value classes of C23)         *)
(*   "f" float              v = its value in thousandths (exact decimals   *)
(*                              only; other floats are class labels)       *)
(* Text is never a TLA+ string: TLC strings are atoms.  Code points keep   *)
(* Python's str ordering (lexicographic by code point) and make the ASCII  *)
(* case map a two-line definition.                                         *)
(***************************************************************************)
EXTENDS Integers, Sequences, FiniteSets, TLC

I(n)  == [t |-> "i", v |-> n]
B(b)  == [t |-> "b", v |-> b]
S(cs) == [t |-> "s", v |-> cs]
M(cs) == [t |-> "m", v |-> cs]
L(xs) == [t |-> "l", v |-> xs]
D(ps) == [t |-> "d", v |-> ps]
O(ps) == [t |-> "o", v |-> ps]
X(name) == [t |-> "x", v |-> name]
NoneV  == [t |-> "n", v |-> 0]
UndefV == [t |-> "u", v |-> 0]

IsStr(a) == a.t \in {"s", "m"}

MinI(a, b) == IF a < b THEN a ELSE b
MaxI(a, b) == IF a > b THEN a ELSE b

(* -- structural equality that never compares payloads of different type -- *)
RECURSIVE VEq(_, _)
VEq(a, b) ==
    /\ a.t = b.t
    /\ CASE a.t \in {"i", "b", "x", "c", "f"} -> a.v = b.v
         [] a.t \in {"s", "m"} -> a.v = b.v
         [] a.t = "l" -> /\ Len(a.v) = Len(b.v)
                         /\ \A k \in 1..Len(a.v) : VEq(a.v[k], b.v[k])
         [] a.t \in {"d", "o"} ->
                /\ Len(a.v) = Len(b.v)
                /\ \A k \in 1..Len(a.v) : /\ VEq(a.v[k][1], b.v[k][1])
                                          /\ VEq(a.v[k][2], b.v[k][2])
         [] OTHER -> TRUE

\* Python's == between template values of the modelled universe: a safe and a
\* plain string with the same text are equal; everything else is structural.
RECURSIVE PyEq(_, _)
PyEq(a, b) ==
    IF IsStr(a) /\ IsStr(b) THEN a.v = b.v
    ELSE IF a.t = "l" /\ b.t = "l"
         THEN Len(a.v) = Len(b.v) /\ \A k \in 1..Len(a.v) : PyEq(a.v[k], b.v[k])
    ELSE VEq(a, b)

(* -- text ------------------------------------------------------------------ *)
LowerC(c) == IF c >= 65 /\ c <= 90 THEN c + 32 ELSE c
UpperC(c) == IF c >= 97 /\ c <= 122 THEN c - 32 ELSE c
IsAlphaC(c) == (c >= 65 /\ c <= 90) \/ (c >= 97 /\ c <= 122)
IsDigitC(c) == c >= 48 /\ c <= 57
LowerS(cs) == [k \in 1..Len(cs) |-> LowerC(cs[k])]
UpperS(cs) == [k \in 1..Len(cs) |-> UpperC(cs[k])]

RECURSIVE Flatten(_)
Flatten(ss) == IF ss = <<>> THEN <<>> ELSE Head(ss) \o Flatten(Tail(ss))

RECURSIVE JoinSeqs(_, _)
JoinSeqs(ss, sep) ==
    IF ss = <<>> THEN <<>>
    ELSE IF Len(ss) = 1 THEN ss[1]
    ELSE ss[1] \o sep \o JoinSeqs(Tail(ss), sep)

Rev(s) == [k \in 1..Len(s) |-> s[Len(s) + 1 - k]]

\* lexicographic order on sequences of ints (Python str ordering)
IntSeqLess(a, b) ==
    \E k \in 1..(MinI(Len(a), Len(b)) + 1) :
        /\ \A j \in 1..(k - 1) : a[j] = b[j]
        /\ \/ (k > Len(a) /\ k <= Len(b))
           \/ (k <= Len(a) /\ k <= Len(b) /\ a[k] < b[k])

\* starts s with prefix p at position i (1-based)?
MatchAt(s, i, p) ==
    /\ i + Len(p) - 1 <= Len(s)
    /\ \A k \in 1..Len(p) : s[i + k - 1] = p[k]

\* split on a one-character separator (str.split(sep) semantics: always >= 1 piece)
RECURSIVE SplitOn(_, _)
SplitOn(cs, sep) ==
    IF \A k \in 1..Len(cs) : cs[k] # sep THEN <<cs>>
    ELSE LET p == CHOOSE k \in 1..Len(cs) : cs[k] = sep /\ \A j \in 1..(k - 1) : cs[j] # sep
         IN <<SubSeq(cs, 1, p - 1)>> \o SplitOn(SubSeq(cs, p + 1, Len(cs)), sep)

\* decimal digits of a natural number / str() of a small integer
RECURSIVE NatDigits(_)
NatDigits(n) == IF n < 10 THEN <<48 + n>> ELSE Append(NatDigits(n \div 10), 48 + (n % 10))
IntStr(n) == IF n < 0 THEN <<45>> \o NatDigits(0 - n) ELSE NatDigits(n)

RECURSIVE DigitsVal(_)
DigitsVal(cs) == IF cs = <<>> THEN 0 ELSE DigitsVal(SubSeq(cs, 1, Len(cs) - 1)) * 10 + (cs[Len(cs)] - 48)

\* str(v) for the values whose text form the documentation fixes
StrOf(a) == CASE IsStr(a) -> a.v
              [] a.t = "i" -> IntStr(a.v)
              [] a.t = "b" -> IF a.v THEN <<84, 114, 117, 101>> ELSE <<70, 97, 108, 115, 101>>
              [] a.t = "n" -> <<78, 111, 110, 101>>
              [] a.t = "u" -> <<>>

(* -- ordering of sort keys (same-type operands only; mixed types are excluded) *)
RECURSIVE KeyLess(_, _)
KeyLess(a, b) ==
    CASE a.t = "i" /\ b.t = "i" -> a.v < b.v
      [] IsStr(a) /\ IsStr(b) -> IntSeqLess(a.v, b.v)
      [] a.t = "l" /\ b.t = "l" ->
            \E k \in 1..(MinI(Len(a.v), Len(b.v)) + 1) :
                /\ \A j \in 1..(k - 1) : PyEq(a.v[j], b.v[j])
                /\ \/ (k > Len(a.v) /\ k <= Len(b.v))
                   \/ (k <= Len(a.v) /\ k <= Len(b.v) /\ KeyLess(a.v[k], b.v[k]))

\* "ignore_case": strings are lower-cased, anything else is left alone
FoldCase(a) == IF IsStr(a) THEN [t |-> a.t, v |-> LowerS(a.v)] ELSE a

(* -- attribute / item lookup (Environment.getitem: subscript first, then attribute) *)
RECURSIVE Assoc(_, _)
Assoc(ps, key) ==
    IF ps = <<>> THEN UndefV
    ELSE IF PyEq(ps[1][1], key) THEN ps[1][2] ELSE Assoc(Tail(ps), key)

\* last binding wins in a dict literal; inputs never repeat a key, so first = last
GetPart(item, part) ==
    CASE item.t = "d" -> Assoc(item.v, part)
      [] item.t = "o" -> IF IsStr(part) THEN Assoc(item.v, part) ELSE UndefV
      [] item.t = "l" -> IF part.t = "i" /\ part.v >= 0 /\ part.v < Len(item.v)
                         THEN item.v[part.v + 1] ELSE UndefV
      [] IsStr(item) -> IF part.t = "i" /\ part.v >= 0 /\ part.v < Len(item.v)
                        THEN [t |-> item.t, v |-> <<item.v[part.v + 1]>>] ELSE UndefV
      [] OTHER -> UndefV

\* "a.b.0" -> parts; all-digit parts are integers
IsDigits(cs) == cs # <<>> /\ \A k \in 1..Len(cs) : IsDigitC(cs[k])
PartOf(cs) == IF IsDigits(cs) THEN I(DigitsVal(cs)) ELSE S(cs)
PathOf(attr) ==
    CASE attr.t = "n" -> <<>>
      [] attr.t = "i" -> <<attr>>
      [] IsStr(attr) -> LET ps == SplitOn(attr.v, 46) IN [k \in 1..Len(ps) |-> PartOf(ps[k])]

\* make_attrgetter: walk the path; after every step an undefined value is
\* replaced by `dflt` when one is given (dflt = NoneV means "no default")
RECURSIVE WalkPath(_, _, _)
WalkPath(item, path, dflt) ==
    IF path = <<>> THEN item
    ELSE LET nxt == GetPart(item, path[1])
             nx2 == IF dflt.t # "n" /\ nxt.t = "u" THEN dflt ELSE nxt
         IN WalkPath(nx2, Tail(path), dflt)

GetAttr(item, attr, dflt) == WalkPath(item, PathOf(attr), dflt)

\* make_multi_attrgetter: "a,b.c" -> list of looked-up values (always a list)
MultiPaths(attr) ==
    IF IsStr(attr)
    THEN LET ps == SplitOn(attr.v, 44) IN [k \in 1..Len(ps) |-> PathOf(S(ps[k]))]
    ELSE <<PathOf(attr)>>

(* -- truthiness ------------------------------------------------------------ *)
Truth(a) == CASE a.t = "i" -> a.v # 0
              [] a.t = "b" -> a.v
              [] a.t \in {"n", "u"} -> FALSE
              [] a.t \in {"s", "m", "l", "d"} -> Len(a.v) > 0
              [] OTHER -> TRUE

\* subsequence of s at the indices satisfying P, in order
KeepIdx(s, P(_)) ==
    LET F[k \in 0..Len(s)] ==
            IF k = 0 THEN <<>> ELSE IF P(k) THEN Append(F[k - 1], s[k]) ELSE F[k - 1]
    IN F[Len(s)]

=============================================================================
