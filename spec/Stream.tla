------------------------------ MODULE Stream ------------------------------
(***************************************************************************)
(* TemplateStream buffering (property C10, second sentence): with          *)
(* buffering enabled every chunk except the last combines exactly `size`   *)
(* non-empty pieces, and the concatenation of all chunks is the            *)
(* concatenation of all pieces.                                            *)
(*                                                                         *)
(* Operational layer = the loop of TemplateStream._buffered_generator:     *)
(*   Pull   one piece from the underlying generator into the buffer        *)
(*   Flush  yield the buffer as one chunk once `size` non-empty pieces are *)
(*          buffered                                                       *)
(*   End    the generator is exhausted: yield what is buffered if it holds *)
(*          a non-empty piece, then stop                                   *)
(* Abstract layer = ExpectedChunks(input, size), stated on the piece list  *)
(* alone.                                                                  *)
(***************************************************************************)
EXTENDS Naturals, Sequences, FiniteSets, TLC, Json

CONSTANTS PieceVals,   \* e.g. {"", "a", "bb"}; "" is the empty piece
          MaxLen,      \* inputs are all piece sequences of length 0..MaxLen
          Sizes        \* buffer sizes to explore (>= 2)

VARIABLES input, size, pending, buf, csize, chunks, done

vars == <<input, size, pending, buf, csize, chunks, done>>

RECURSIVE Flat(_)
Flat(ss) == IF ss = <<>> THEN <<>> ELSE Head(ss) \o Flat(Tail(ss))

NonEmpty(s) == Len(SelectSeq(s, LAMBDA p : p # ""))

Init ==
    /\ input \in UNION {[1..n -> PieceVals] : n \in 0..MaxLen}
    /\ size \in Sizes
    /\ pending = input
    /\ buf = <<>>
    /\ csize = 0
    /\ chunks = <<>>
    /\ done = FALSE

Pull ==
    /\ ~done /\ csize < size /\ pending # <<>>
    /\ buf' = Append(buf, Head(pending))
    /\ csize' = IF Head(pending) # "" THEN csize + 1 ELSE csize
    /\ pending' = Tail(pending)
    /\ UNCHANGED <<input, size, chunks, done>>

Flush ==
    /\ ~done /\ csize >= size
    /\ chunks' = Append(chunks, buf)
    /\ buf' = <<>>
    /\ csize' = 0
    /\ UNCHANGED <<input, size, pending, done>>

End ==
    /\ ~done /\ csize < size /\ pending = <<>>
    /\ chunks' = IF csize > 0 THEN Append(chunks, buf) ELSE chunks
    /\ buf' = <<>>
    /\ csize' = 0
    /\ done' = TRUE
    /\ PrintT(ToJson([input |-> input, size |-> size, chunks |-> chunks']))
    /\ UNCHANGED <<input, size, pending>>

Next == Pull \/ Flush \/ End

Spec == Init /\ [][Next]_vars /\ WF_vars(Next)

(* -- abstract layer --------------------------------------------------------- *)
\* chunk boundaries are placed right after every size-th non-empty piece
RECURSIVE Cut(_, _, _, _)
Cut(rest, cur, n, sz) ==
    IF rest = <<>> THEN (IF n > 0 THEN <<cur>> ELSE <<>>)
    ELSE LET p == Head(rest)
             cur2 == Append(cur, p)
             n2 == IF p # "" THEN n + 1 ELSE n
         IN IF n2 = sz THEN <<cur2>> \o Cut(Tail(rest), <<>>, 0, sz)
            ELSE Cut(Tail(rest), cur2, n2, sz)

ExpectedChunks(inp, sz) == Cut(inp, <<>>, 0, sz)

(* -- properties -------------------------------------------------------------- *)
\* nothing but empty pieces is ever lost, order is kept
C10_ConcatPreserved ==
    SelectSeq(Flat(chunks) \o buf \o pending, LAMBDA p : p # "")
        = SelectSeq(input, LAMBDA p : p # "")

C10_ChunkSize ==
    /\ \A i \in 1..Len(chunks) : i < Len(chunks) \/ ~done => NonEmpty(chunks[i]) = size
    /\ done /\ chunks # <<>> => NonEmpty(chunks[Len(chunks)]) \in 1..size

C10_MatchesAbstract == done => chunks = ExpectedChunks(input, size)

C10_Terminates == <>done
=============================================================================
