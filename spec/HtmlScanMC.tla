---------------------------- MODULE HtmlScanMC ----------------------------
(***************************************************************************)
(* The HtmlScan automaton as a machine (property C24).                     *)
(*                                                                         *)
(*   Pick(t)   appends one token of a small adversarial alphabet to the    *)
(*             text once the scanner has consumed everything so far and    *)
(*             has not rejected (a rejected prefix stays rejected, so      *)
(*             every accepted text of up to MaxToks tokens is explored,    *)
(*             and every minimal rejected one)                             *)
(*   TextChar, Entity, CutEntity, OpenAnchor, HrefChar, HrefEnd, AttrStart, AttrChar, *)
(*   AttrEnd, TagClose, CloseAnchor, Reject                                *)
(*             one action per transition kind of HtmlScan!Delta            *)
(*                                                                         *)
(* Ghost variables record which positions were consumed as part of a tag   *)
(* (`intag`) and the spans of the opening tags, so that the invariants can *)
(* state the property clauses on the accepted text itself, independently   *)
(* of the automaton's states.                                              *)
(***************************************************************************)
EXTENDS HtmlScan

CONSTANT MaxToks

VARIABLES cs, ntok, st, pos, intag, opens, closes, tags, tagstart

vars == <<cs, ntok, st, pos, intag, opens, closes, tags, tagstart>>

Tokens == { AOpen,                                  \* <a href="
            <<34, 62>>,                             \* ">
            <<34>>, <<60>>, <<62>>, <<39>>,         \* " < > '
            AClose,                                 \* </a>
            <<120>>, <<32>>,                        \* x space
            <<38>>, <<38, 97, 109, 112, 59>>,       \* & &amp;
            <<34, 32, 114, 101, 108, 61, 34>>,      \* " rel="
            <<38, 97, 109, 46, 46, 46>> }           \* &am...  (entity cut by a trim ellipsis)

Init ==
    /\ cs = <<>> /\ ntok = 0 /\ st = "text" /\ pos = 1
    /\ intag = {} /\ opens = 0 /\ closes = 0 /\ tags = <<>> /\ tagstart = 0

Pick(t) ==
    /\ st # "reject" /\ pos > Len(cs) /\ ntok < MaxToks
    /\ cs' = cs \o t /\ ntok' = ntok + 1
    /\ UNCHANGED <<st, pos, intag, opens, closes, tags, tagstart>>

Scanning == st # "reject" /\ pos <= Len(cs)

\* one automaton transition of kind `a`; `tagpart` says whether the consumed
\* characters belong to a tag
StepAct(a, tagpart) ==
    /\ Scanning
    /\ LET d == Delta(cs, st, pos)
       IN /\ d.act = a
          /\ st' = d.st /\ pos' = d.i
          /\ intag' = IF tagpart THEN intag \cup (pos..(d.i - 1)) ELSE intag
    /\ UNCHANGED <<cs, ntok>>

TextChar    == StepAct("TextChar", FALSE) /\ UNCHANGED <<opens, closes, tags, tagstart>>
CutEntity   == StepAct("CutEntity", FALSE) /\ UNCHANGED <<opens, closes, tags, tagstart>>
Entity      == StepAct("Entity", st \in {"href0", "href", "aval", "xval"}) /\ UNCHANGED <<opens, closes, tags, tagstart>>
OpenAnchor  == StepAct("OpenAnchor", TRUE) /\ opens' = opens + 1 /\ tagstart' = pos /\ UNCHANGED <<closes, tags>>
HrefChar    == StepAct("HrefChar", TRUE) /\ UNCHANGED <<opens, closes, tags, tagstart>>
HrefEnd     == StepAct("HrefEnd", TRUE) /\ UNCHANGED <<opens, closes, tags, tagstart>>
AttrStart   == StepAct("AttrStart", TRUE) /\ UNCHANGED <<opens, closes, tags, tagstart>>
AttrChar    == StepAct("AttrChar", TRUE) /\ UNCHANGED <<opens, closes, tags, tagstart>>
AttrEnd     == StepAct("AttrEnd", TRUE) /\ UNCHANGED <<opens, closes, tags, tagstart>>
TagClose    == StepAct("TagClose", TRUE) /\ tags' = Append(tags, <<tagstart, pos>>) /\ UNCHANGED <<opens, closes, tagstart>>
CloseAnchor == StepAct("CloseAnchor", TRUE) /\ closes' = closes + 1 /\ UNCHANGED <<opens, tags, tagstart>>
Reject      == StepAct("Reject", FALSE) /\ UNCHANGED <<opens, closes, tags, tagstart>>

Next ==
    \/ \E t \in Tokens : Pick(t)
    \/ TextChar \/ Entity \/ CutEntity \/ OpenAnchor \/ HrefChar \/ HrefEnd \/ AttrStart \/ AttrChar \/ AttrEnd
    \/ TagClose \/ CloseAnchor \/ Reject

Spec == Init /\ [][Next]_vars

Finished == st = "reject" \/ pos > Len(cs)
Accepted == Finished /\ st = "text"

(* ---------------------------------------------------------------- invariants *)
C24_TypeOK ==
    /\ st \in {"text", "href0", "href", "tag", "aval", "atext", "reject"}
    /\ pos \in 1..(Len(cs) + 1)
    /\ opens - closes \in {0, 1}
    /\ (st \in {"href0", "href", "tag", "aval", "atext"}) => opens = closes + 1
    /\ st = "text" => opens = closes

\* outside the tags an accepted text has no raw < > " ' and every & starts an entity
C24_NoRawMetaOutsideTags ==
    Accepted =>
        \A k \in 1..Len(cs) :
            k \notin intag => /\ ~IsRawMeta(cs[k])
                              /\ cs[k] = cAMP => EntLenAt(cs, k) > 0 \/ CutEntLenAt(cs, k) > 0

\* every opening tag is  <a href="H"( name="V")*>  with a non-empty, quoted,
\* whitespace-free, escaped H and quoted, escaped V
C24_HrefQuotedNoSpace ==
    Accepted =>
        \A n \in 1..Len(tags) :
            LET a == tags[n][1]
                b == tags[n][2]
                body == SubSeq(cs, a + Len(AOpen), b - 1)       \* H"( name="V")*
                q == CHOOSE k \in 1..Len(body) : body[k] = cDQ /\ \A j \in 1..(k - 1) : body[j] # cDQ
                H == SubSeq(body, 1, q - 1)
            IN /\ MatchAt(cs, a, AOpen) /\ cs[b] = cGT
               /\ \E k \in 1..Len(body) : body[k] = cDQ
               /\ H # <<>>
               /\ \A k \in 1..Len(H) : ~IsWs(H[k]) /\ ~IsRawMeta(H[k])
               /\ body[Len(body)] = cDQ
               \* quotes are balanced and no < > ' occurs anywhere in the tag body
               /\ Cardinality({k \in 1..Len(body) : body[k] = cDQ}) % 2 = 1
               /\ \A k \in 1..Len(body) : body[k] \notin {cLT, cGT, cSQ}

C24_AnchorsWellFormed ==
    /\ Accepted => opens = closes /\ Len(tags) = opens
    /\ \A n \in 1..(Len(tags) - 1) : tags[n][2] < tags[n + 1][1]

\* the fold used for trace validation is this machine
C24_RunMatchesMachine ==
    Finished => RunFrom(cs, "text", 1) = st

\* escaped text is always accepted, and contains no anchor
C24_EscIsAccepted ==
    Finished => AcceptsHtml(Esc(cs)) /\ (\A k \in 1..Len(Esc(cs)) : ~IsRawMeta(Esc(cs)[k]))

\* tojson of any text the machine can build, however it reaches the filter and whether or not it
\* carries a safety mark, is the serialisation of the text and contains none of < > & '
C24_JsonIgnoresSafetyMark ==
    Finished =>
        /\ JsonOf(M(cs)) = JsonOf(S(cs))
        /\ \A src \in Sources : \A a \in {S(cs), M(cs)} :
              LET v == Reaches(src, a, <<cLT, cSQ>>, <<cAMP, cGT>>)
              IN /\ v.t \in {"s", "m"}
                 /\ JsonOf(v) = JsonStr(v.v)
                 /\ HtmlSafeJson(JsonOf(v))
                 /\ src \notin {"data", "string"} => v.t = "m"
=============================================================================
