--------------------------- MODULE UndefinedEnvs ---------------------------
(***************************************************************************)
(* Property C21, second part: WHICH undefined type governs the undefined   *)
(* values of a template, for every way an environment comes to be and      *)
(* every order in which environments load the template.                    *)
(*                                                                         *)
(* Undefined.tla says what an undefined value of type T does.  This module *)
(* says which T that is:                                                   *)
(*   - Environment(undefined=T): "undefined: Undefined or a subclass of it *)
(*     that is used to represent undefined values in the template";        *)
(*   - the sandboxed environments are environments: "works like the        *)
(*     regular environment but tells the compiler to generate sandboxed    *)
(*     code"; nothing in the sandbox documentation changes what an         *)
(*     undefined value does, so the table of Undefined.tla holds for the   *)
(*     kinds "plain", "sandbox" and "immutable" alike;                     *)
(*   - Environment.overlay(undefined=T): "Create a new overlay environment *)
(*     that shares all the data with the current environment except for    *)
(*     cache and the overridden attributes" - a template obtained through  *)
(*     the overlay behaves as the OVERLAY's undefined type, whatever its   *)
(*     parent has loaded before or loads afterwards, and vice versa.       *)
(*                                                                         *)
(* ABSTRACT LAYER: Governs(e) = the undefined type environment e was given.*)
(* OPERATIONAL LAYER (shaped like Environment._load_template / overlay /   *)
(* copy_cache): every environment has a template cache; a template object  *)
(* is bound to the environment that compiled it ("owner") and asks THAT    *)
(* environment for its undefined type at render time; get_template hands   *)
(* out the cached object when there is one; an overlay starts with an      *)
(* EMPTY cache ("Create an empty copy of the given cache").                *)
(* C21_TemplateBehavesAsItsEnvironment: the two layers agree after every   *)
(* step.  WarmOverlay = TRUE (the overlay inherits the entries of its      *)
(* parent) is the negative control: TLC must report the invariant violated.*)
(*                                                                         *)
(* Every history that ends in a Get is printed (Emit): the harness replays *)
(* it on real environments and executes cases of the table of              *)
(* Undefined.tla for the type named in the last step.                      *)
(***************************************************************************)
EXTENDS Naturals, Sequences, FiniteSets, TLC, Json

CONSTANTS Kinds,         \* environment classes: "plain", "sandbox", "immutable"
          OverlayKinds,  \* kinds of root environments overlays are made of
          Types,         \* names of the undefined types (base, base+log)
          MaxEnvs,       \* environments per history
          MaxSteps,      \* steps per history (the creation of the root included)
          WarmOverlay,   \* negative control: overlays start with the parent's cache entries
          Emit

VARIABLES envs,   \* sequence of [kind, ty, parent]
          cache,  \* cache[e] = the environment the cached template object of e is bound to, 0 = not cached
          hist,   \* the steps so far
          got     \* what the last Get handed out: [env, owner]

vars == <<envs, cache, hist, got>>

NoGot == [env |-> 0, owner |-> 0]

\* abstract layer
Governs(e) == envs[e].ty
\* operational layer: the template object asks its owner
Behaves(g) == envs[g.owner].ty

Init == envs = <<>> /\ cache = <<>> /\ hist = <<>> /\ got = NoGot

New(k, ty) ==
    /\ envs = <<>>
    /\ envs' = <<[kind |-> k, ty |-> ty, parent |-> 0]>>
    /\ cache' = <<0>>
    /\ hist' = <<[act |-> "new", env |-> 1, kind |-> k, ty |-> ty, parent |-> 0]>>
    /\ got' = NoGot

Overlay(p, ty) ==
    /\ p \in 1..Len(envs) /\ Len(envs) < MaxEnvs /\ Len(hist) < MaxSteps
    /\ envs[p].kind \in OverlayKinds
    /\ envs' = Append(envs, [kind |-> envs[p].kind, ty |-> ty, parent |-> p])
    /\ cache' = Append(cache, IF WarmOverlay THEN cache[p] ELSE 0)
    /\ hist' = Append(hist, [act |-> "overlay", env |-> Len(envs) + 1, kind |-> envs[p].kind, ty |-> ty, parent |-> p])
    /\ got' = NoGot

\* get_template + render through environment e
Get(e) ==
    /\ e \in 1..Len(envs) /\ Len(hist) < MaxSteps
    /\ LET owner == IF cache[e] = 0 THEN e ELSE cache[e]
       IN /\ cache' = [cache EXCEPT ![e] = owner]
          /\ got' = [env |-> e, owner |-> owner]
    /\ hist' = Append(hist, [act |-> "get", env |-> e, kind |-> envs[e].kind, ty |-> Governs(e), parent |-> 0])
    /\ Emit => PrintT(ToJson(hist'))
    /\ UNCHANGED envs

Next ==
    \/ \E k \in Kinds : \E ty \in Types : New(k, ty)
    \/ \E p \in 1..MaxEnvs : \E ty \in Types : Overlay(p, ty)
    \/ \E e \in 1..MaxEnvs : Get(e)

Spec == Init /\ [][Next]_vars

TypeOK ==
    /\ Len(envs) <= MaxEnvs /\ Len(cache) = Len(envs) /\ Len(hist) <= MaxSteps
    /\ \A e \in 1..Len(envs) : envs[e].kind \in Kinds /\ envs[e].ty \in Types /\ cache[e] \in 0..Len(envs)
    /\ got.env \in 0..Len(envs) /\ got.owner \in 0..Len(envs)

\* an overlay is of the kind of its parent
C21_OverlayKeepsKind == \A e \in 1..Len(envs) : envs[e].parent # 0 => envs[e].kind = envs[envs[e].parent].kind

\* what a template does with undefined values is what the environment it was asked from says
C21_TemplateBehavesAsItsEnvironment == got # NoGot => Behaves(got) = Governs(got.env)

\* no environment ever holds a template object bound to another environment
C21_CachesAreOwn == \A e \in 1..Len(envs) : cache[e] \in {0, e}
=============================================================================
