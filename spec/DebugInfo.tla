------------------------------ MODULE DebugInfo ------------------------------
(***************************************************************************)
(* The line bookkeeping of jinja2.compiler.CodeGenerator and its inverse   *)
(* jinja2.environment.Template.get_corresponding_lineno (property C35: an  *)
(* exception raised while rendering is reported at the template line of    *)
(* the construct that raised it).                                          *)
(*                                                                         *)
(* Operational layer = the writer state of the code generator              *)
(*    codeLine   code_lineno       line of the generated module being      *)
(*                                 written                                 *)
(*    newLines   _new_lines        newlines owed before the next write     *)
(*    pending    _write_debug_info template line to record at the next     *)
(*                                 write that starts a line (0 = None)     *)
(*    lastLine   _last_line        template line of the last labelled      *)
(*                                 newline                                 *)
(*    firstWrite _first_write                                              *)
(*    info       debug_info        list of <<template line, code line>>    *)
(* with the two primitive operations every visit_* method is made of:      *)
(*    Newline(L, extra)   newline(node, extra)   L = node.lineno, 0 = no   *)
(*                                               node                      *)
(*    Write               write(x)                                         *)
(* and Lookup(c) = Template.get_corresponding_lineno(c).                   *)
(*                                                                         *)
(* Abstract layer (ghost variables): cur = the template line the code      *)
(* being generated belongs to (the line of the latest labelled newline);   *)
(* writes = for every write the code line it landed on and the template    *)
(* line it belongs to (a set).  C35_MappingSound: looking up the code line of any  *)
(* write gives back the template line it belongs to -- for every order of  *)
(* template lines (blocks and macros are generated out of source order).   *)
(*                                                                         *)
(* Switches: PairAfterAdvance (the pair is appended after code_lineno has  *)
(* been advanced) and ScanBackwards (the lookup scans the pairs from the   *)
(* end) are TRUE in the code; TLC refutes C35_MappingSound with either off.*)
(***************************************************************************)
EXTENDS Naturals, Sequences, FiniteSets, TLC

CONSTANTS MaxLine,          \* template lines 1..MaxLine
          MaxOps,           \* bound on the number of operations
          PairAfterAdvance, ScanBackwards

VARIABLES codeLine, newLines, pending, lastLine, firstWrite, info, cur, writes, nops

vars == <<codeLine, newLines, pending, lastLine, firstWrite, info, cur, writes, nops>>

Max(a, b) == IF a >= b THEN a ELSE b

Init ==
    /\ codeLine = 1
    /\ newLines = 0
    /\ pending = 0
    /\ lastLine = 0
    /\ firstWrite = TRUE
    /\ info = <<>>
    /\ cur = 0
    /\ writes = {}
    /\ nops = 0

\* CodeGenerator.newline(node, extra)
NewlineEffect(L, extra) ==
    /\ newLines' = Max(newLines, 1 + extra)
    /\ IF L # 0 /\ L # lastLine
       THEN pending' = L /\ lastLine' = L
       ELSE UNCHANGED <<pending, lastLine>>
    /\ cur' = IF L # 0 THEN L ELSE cur
    /\ UNCHANGED <<codeLine, firstWrite, info, writes>>

\* CodeGenerator.write(x)
WriteEffect ==
    /\ IF newLines > 0
       THEN /\ IF ~firstWrite
               THEN /\ codeLine' = codeLine + newLines
                    /\ IF pending # 0
                       THEN /\ info' = Append(info, <<pending, IF PairAfterAdvance THEN codeLine' ELSE codeLine>>)
                            /\ pending' = 0
                       ELSE UNCHANGED <<info, pending>>
               ELSE UNCHANGED <<codeLine, info, pending>>
            /\ firstWrite' = FALSE
            /\ newLines' = 0
       ELSE UNCHANGED <<codeLine, info, pending, firstWrite, newLines>>
    /\ writes' = writes \cup {[code |-> codeLine', want |-> cur]}
    /\ UNCHANGED <<lastLine, cur>>

\* the module header ("from jinja2.runtime import ...") is written without a node:
\* nothing is labelled before the first write
Newline(L, extra) ==
    /\ nops < MaxOps
    /\ firstWrite => L = 0
    /\ NewlineEffect(L, extra)
    /\ nops' = nops + 1

Write ==
    /\ nops < MaxOps
    /\ WriteEffect
    /\ nops' = nops + 1

Next == (\E L \in 0..MaxLine, extra \in 0..1 : Newline(L, extra)) \/ Write

Spec == Init /\ [][Next]_vars

(* ---- Template.get_corresponding_lineno ----------------------------------- *)
\* for template_line, code_line in reversed(debug_info): if code_line <= lineno: return template_line
\* return 1
Lookup(inf, c) ==
    LET hits == {k \in 1..Len(inf) : inf[k][2] <= c}
    IN IF hits = {} THEN 1
       ELSE LET k == IF ScanBackwards THEN CHOOSE k \in hits : \A j \in hits : j <= k
                                      ELSE CHOOSE k \in hits : \A j \in hits : k <= j
            IN inf[k][1]

(* ---- properties ------------------------------------------------------------ *)
TypeOK ==
    /\ codeLine \in Nat /\ newLines \in 0..2 /\ pending \in 0..MaxLine /\ lastLine \in 0..MaxLine
    /\ firstWrite \in BOOLEAN /\ cur \in 0..MaxLine

\* the code line of every write maps back to the template line it belongs to
C35_MappingSound ==
    \A w \in writes : w.want # 0 => Lookup(info, w.code) = w.want

\* pairs are recorded with strictly increasing code lines (what makes the backwards scan right)
C35_PairsIncreasing ==
    \A k \in 1..(Len(info) - 1) : info[k][2] < info[k + 1][2]

\* a label is never lost: while a label is pending the next line-starting write records it
C35_PendingIsCurrent == pending # 0 => pending = cur

=============================================================================
