--------------------------- MODULE SeqFiltersMC ---------------------------
(***************************************************************************)
(* Model checking of SeqFilters (property C22) on a bounded domain.        *)
(*                                                                         *)
(*  Grow(x)        builds every input sequence up to MaxLen over Dom       *)
(*  StartBatch / BatchTake / BatchFlush / BatchEnd                         *)
(*                 the loop of filters.do_batch as a machine               *)
(*  StartSlice / SliceStep                                                 *)
(*                 the offset arithmetic of filters.sync_do_slice          *)
(*                                                                         *)
(* Invariants C22_* state the clauses of the property on every sequence    *)
(* (the functions of SeqFilters satisfy the partition / stability /        *)
(* first-occurrence / key-sorted-groups contracts) and that the code-      *)
(* shaped loops produce exactly the abstract result.                       *)
(*                                                                         *)
(* SliceFillAlways = TRUE makes SliceStep append the fill value whenever   *)
(* slice_number >= slices_with_extra, as the pinned jinja2 does: TLC then  *)
(* reports C22_SliceLoop violated (self-test; finding F13).                *)
(***************************************************************************)
EXTENDS SeqFilters

CONSTANTS Dom,            \* item values
          MaxLen,         \* inputs: all sequences over Dom of length 0..MaxLen
          MaxN,           \* linecount / slices range over 1..MaxN
          Attr,           \* attribute argument used for the keyed filters (NoneV = none)
          RunLoops,       \* explore the batch / slice machines (FALSE: only the function contracts)
          SliceFillAlways

VARIABLES inp, pc, job, pend, tmp, rows, sn, offset

vars == <<inp, pc, job, pend, tmp, rows, sn, offset>>

DomInts == {I(0), I(1), I(2)}
DomStrs == {S(<<97>>), S(<<65>>), S(<<98>>), S(<<66>>)}                \* a A b B
DomStr2 == {S(<<97>>), S(<<65, 98>>), S(<<97, 66>>), S(<<>>)}          \* a Ab aB ""
\* records with two attributes x (string) and y (int)
DomRecs == {D(<<<<S(<<120>>), x>>, <<S(<<121>>), y>>>>) : x \in {S(<<97>>), S(<<65>>), S(<<98>>)}, y \in {I(0), I(1)}}
AttrNone == NoneV
AttrX  == S(<<120>>)                     \* "x"
AttrXY == S(<<120, 44, 121>>)            \* "x,y"
AttrYX == S(<<121, 44, 120>>)            \* "y,x"
FillV  == S(<<102>>)                     \* "f" -- not a member of any Dom

NoJob == [kind |-> "none", n |-> 0, fill |-> NoneV]

Init ==
    /\ inp = <<>> /\ pc = "grow" /\ job = NoJob
    /\ pend = <<>> /\ tmp = <<>> /\ rows = <<>> /\ sn = 0 /\ offset = 0

Grow(x) ==
    /\ pc = "grow" /\ Len(inp) < MaxLen
    /\ inp' = Append(inp, x)
    /\ UNCHANGED <<pc, job, pend, tmp, rows, sn, offset>>

(* -- do_batch: for item in value: if len(tmp) == linecount: yield tmp; tmp = [] ... *)
StartBatch(n, fill) ==
    /\ RunLoops /\ pc = "grow"
    /\ pc' = "batch" /\ job' = [kind |-> "batch", n |-> n, fill |-> fill]
    /\ pend' = inp /\ tmp' = <<>> /\ rows' = <<>>
    /\ UNCHANGED <<inp, sn, offset>>

BatchFlush ==
    /\ pc = "batch" /\ pend # <<>> /\ Len(tmp) = job.n
    /\ rows' = Append(rows, L(tmp)) /\ tmp' = <<>>
    /\ UNCHANGED <<inp, pc, job, pend, sn, offset>>

BatchTake ==
    /\ pc = "batch" /\ pend # <<>> /\ Len(tmp) # job.n
    /\ tmp' = Append(tmp, Head(pend)) /\ pend' = Tail(pend)
    /\ UNCHANGED <<inp, pc, job, rows, sn, offset>>

BatchEnd ==
    /\ pc = "batch" /\ pend = <<>>
    /\ rows' = IF tmp = <<>> THEN rows
               ELSE IF job.fill.t # "n" /\ Len(tmp) < job.n
                    THEN Append(rows, L(tmp \o [k \in 1..(job.n - Len(tmp)) |-> job.fill]))
                    ELSE Append(rows, L(tmp))
    /\ tmp' = <<>> /\ pc' = "done"
    /\ UNCHANGED <<inp, job, pend, sn, offset>>

(* -- sync_do_slice: items_per_slice, slices_with_extra, offset ------------- *)
StartSlice(k, fill) ==
    /\ RunLoops /\ pc = "grow"
    /\ pc' = "slice" /\ job' = [kind |-> "slice", n |-> k, fill |-> fill]
    /\ sn' = 0 /\ offset' = 0 /\ rows' = <<>>
    /\ UNCHANGED <<inp, pend, tmp>>

SliceStep ==
    /\ pc = "slice"
    /\ LET ips   == Len(inp) \div job.n
           extra == Len(inp) % job.n
           start == offset + sn * ips
           off2  == IF sn < extra THEN offset + 1 ELSE offset
           end   == off2 + (sn + 1) * ips
           col   == SubSeq(inp, start + 1, end)                  \* seq[start:end]
           fillit == /\ job.fill.t # "n" /\ sn >= extra
                     /\ (SliceFillAlways \/ extra # 0)
       IN /\ rows' = Append(rows, L(IF fillit THEN Append(col, job.fill) ELSE col))
          /\ offset' = off2
          /\ sn' = sn + 1
          /\ pc' = IF sn + 1 = job.n THEN "done" ELSE "slice"
    /\ UNCHANGED <<inp, job, pend, tmp>>

Next ==
    \/ \E x \in Dom : Grow(x)
    \/ \E n \in 1..MaxN, f \in {NoneV, FillV} : StartBatch(n, f)
    \/ \E n \in 1..MaxN, f \in {NoneV, FillV} : StartSlice(n, f)
    \/ BatchFlush \/ BatchTake \/ BatchEnd \/ SliceStep

Spec == Init /\ [][Next]_vars

(* ---------------------------------------------------------------- invariants *)
C22_BatchLoop ==
    (pc = "done" /\ job.kind = "batch") =>
        /\ rows = Batch(inp, job.n, job.fill)
        /\ BatchContract(inp, job.n, job.fill, rows)

C22_SliceLoop ==
    (pc = "done" /\ job.kind = "slice") =>
        /\ rows = Slice(inp, job.n, job.fill)
        /\ SliceContract(inp, job.n, job.fill, rows)

\* nothing is lost or reordered while the batch loop runs
C22_BatchProgress ==
    pc = "batch" => RowsConcat(rows) \o tmp \o pend = inp

Idx(s) == [k \in 1..Len(s) |-> k]
Bools == {TRUE, FALSE}

C22_SortStablePerm ==
    pc = "grow" =>
        \A rev \in Bools, cs \in Bools :
            LET keys == [k \in 1..Len(inp) |-> KeyN(inp[k], Attr, cs)]
                p == SortPerm(keys, rev)
            IN /\ IsStableSortedPerm(keys, rev, p)
               /\ Sort(inp, rev, cs, Attr) = Permute(inp, p)
               \* documented chaining: sorting an already sorted list changes nothing
               /\ Sort(Sort(inp, rev, cs, Attr), rev, cs, Attr) = Sort(inp, rev, cs, Attr)

C22_UniqueFirst ==
    pc = "grow" =>
        \A cs \in Bools :
            LET a1 == IF IsStr(Attr) /\ Len(SplitOn(Attr.v, 44)) > 1 THEN NoneV ELSE Attr
                keys == [k \in 1..Len(inp) |-> Key1(inp[k], a1, cs, NoneV)]
                idx == KeepIdx(Idx(inp), LAMBDA k : \A j \in 1..(k - 1) : ~PyEq(keys[j], keys[k]))
            IN /\ IsFirstOccurrences(keys, idx)
               /\ Unique(inp, cs, a1) = Permute(inp, idx)

C22_GroupByPartition ==
    (pc = "grow" /\ IsStr(Attr) /\ Len(SplitOn(Attr.v, 44)) = 1) =>
        \A cs \in Bools :
            LET keys == [k \in 1..Len(inp) |-> Key1(inp[k], Attr, cs, NoneV)]
                gs == GroupBy(inp, Attr, NoneV, cs)
                \* positions of a group's members: the m-th member equal to inp[k] ...
                \* recomputed from the sorted permutation
                p == SortPerm(keys, FALSE)
                IsStart(k) == k = 1 \/ ~PyEq(keys[p[k]], keys[p[k - 1]])
                starts == KeepIdx(Idx(inp), IsStart)
                EndOf(g) == IF g = Len(starts) THEN Len(inp) ELSE starts[g + 1] - 1
                groups == [g \in 1..Len(starts) |-> SubSeq(p, starts[g], EndOf(g))]
            IN /\ IsKeySortedPartition(keys, groups)
               /\ Len(gs) = Len(groups)
               /\ \A g \in 1..Len(gs) :
                    /\ gs[g].v[2].v = Permute(inp, groups[g])
                    \* the grouper is the first member's own attribute value
                    /\ PyEq(FoldCase(gs[g].v[1]), FoldCase(keys[groups[g][1]]))
                    /\ cs => PyEq(gs[g].v[1], keys[groups[g][1]])
                    /\ PyEq(gs[g].v[1], GetAttr(inp[groups[g][1]], Attr, NoneV))

SinglePath == ~(IsStr(Attr) /\ Len(SplitOn(Attr.v, 44)) > 1)

C22_MinMaxExtremal ==
    (pc = "grow" /\ inp # <<>> /\ SinglePath) =>
        \A cs \in Bools :
            LET a1 == Attr
                keys == [k \in 1..Len(inp) |-> Key1(inp[k], a1, cs, NoneV)]
                lo == MinIdx(keys)
                hi == MaxIdx(keys)
            IN /\ \A k \in 1..Len(inp) : ~KeyLess(keys[k], keys[lo]) /\ ~KeyLess(keys[hi], keys[k])
               /\ \A k \in 1..(lo - 1) : KeyLess(keys[lo], keys[k])
               /\ \A k \in 1..(hi - 1) : KeyLess(keys[k], keys[hi])
               /\ MinOf(inp, cs, a1) = inp[lo] /\ MaxOf(inp, cs, a1) = inp[hi]
               \* agreement with sort
               /\ LET srt == SortPerm(keys, FALSE) IN srt[1] = lo

C22_SelectRejectComplement ==
    (pc = "grow" /\ Attr.t = "n") =>
        \A x \in Dom :
            LET sel == SelectBy(inp, NoneV, "eq", x, TRUE)
                rej == SelectBy(inp, NoneV, "eq", x, FALSE)
            IN /\ Len(sel) + Len(rej) = Len(inp)
               /\ \A k \in 1..Len(sel) : PyEq(sel[k], x)
               /\ \A k \in 1..Len(rej) : ~PyEq(rej[k], x)
               /\ KeepIdx(inp, LAMBDA k : PyEq(inp[k], x)) = sel

C22_ReverseFirstLast ==
    pc = "grow" =>
        /\ Rev(Rev(inp)) = inp
        /\ ReverseOf(L(inp)).v = Rev(inp)
        /\ First(Rev(inp)) = Last(inp)
        /\ LengthOf(L(inp)).v = Len(inp)
        /\ ListOf(L(inp)) = inp

=============================================================================
