---------------------------- MODULE ExprSyntax ----------------------------
(***************************************************************************)
(* The documented precedence table of Jinja expressions, as an unparser    *)
(* that inserts only the parentheses the table requires (property C02:     *)
(* "compiled expressions evaluate as the documented expression semantics"  *)
(* starts with the parser building the tree the table prescribes).         *)
(*                                                                         *)
(* Levels, loosest first (docs/templates.rst: Math, Comparisons, Logic,    *)
(* Other Operators, If Expression, Filters, Tests):                        *)
(*   1 conditional  a if t else b      (else part right-nested)            *)
(*   2 or   3 and   4 not                                                  *)
(*   5 comparison chain  == != < <= > >= in, not in                        *)
(*   6 + -        (left associative)                                       *)
(*   7 ~          (n-ary)                                                  *)
(*   8 * / // %   (left associative)                                       *)
(*   9 **         (left associative, as documented)                        *)
(*  10 unary - +                                                           *)
(*  11 filter  x|f(..)   test  x is t(..)   (apply to the unary operand)   *)
(*  12 postfix  x.a  x[i]  x(..)  and atoms                                *)
(* Where the documentation does not fix the relative binding (~ next to    *)
(* arithmetic, unary minus next to power) the unparser always parenthesises *)
(* so such shapes never reach the parser unparenthesised.                  *)
(*                                                                         *)
(* TLC prints, for every expression of every case, the token sequence;     *)
(* the harness feeds it to the real parser and compares the tree.          *)
(***************************************************************************)
EXTENDS Integers, Sequences, TLC, Json, IOUtils

Cases == JsonDeserialize(IOEnv.CASES_FILE)     \* sequence of [id, e]

VARIABLES i, done
vars == <<i, done>>

Level(e) ==
    CASE e.k = "cond" -> 1
      [] e.k = "or" -> 2
      [] e.k = "and" -> 3
      [] e.k = "not" -> 4
      [] e.k = "cmp" -> 5
      [] e.k = "bin" -> (CASE e.op \in {"+", "-"} -> 6
                           [] e.op \in {"*", "/", "//", "%"} -> 8
                           [] e.op = "**" -> 9)
      [] e.k = "concat" -> 7
      [] e.k \in {"neg", "pos"} -> 10
      [] e.k \in {"filter", "test"} -> 11
      [] OTHER -> 12

CmpTok(op) ==
    CASE op = "eq" -> <<"==">> [] op = "ne" -> <<"!=">> [] op = "lt" -> <<"<">> [] op = "lteq" -> <<"<=">>
      [] op = "gt" -> <<">">> [] op = "gteq" -> <<">=">> [] op = "in" -> <<"in">> [] op = "notin" -> <<"not", "in">>

RECURSIVE Tk(_), Par(_, _, _), Commas(_), KwArgs(_, _, _), Pairs(_, _, _)

\* child e in a position that needs level `need`; `ban` = kinds that must be parenthesised
\* regardless (undocumented relative binding, or forms the grammar cannot chain)
Par(e, need, ban) ==
    IF Level(e) < need \/ e.k \in ban THEN <<"(">> \o Tk(e) \o <<")">> ELSE Tk(e)

Commas(es) ==
    IF es = <<>> THEN <<>>
    ELSE Tk(Head(es)) \o (IF Len(es) > 1 THEN <<",">> ELSE <<>>) \o Commas(Tail(es))

KwArgs(ns, vs, first) ==
    IF ns = <<>> THEN <<>>
    ELSE (IF first THEN <<>> ELSE <<",">>) \o <<Head(ns), "=">> \o Tk(Head(vs)) \o KwArgs(Tail(ns), Tail(vs), FALSE)

Pairs(ks, vs, first) ==
    IF ks = <<>> THEN <<>>
    ELSE (IF first THEN <<>> ELSE <<",">>) \o Tk(Head(ks)) \o <<":">> \o Tk(Head(vs)) \o Pairs(Tail(ks), Tail(vs), FALSE)

ArgList(args, kwn, kwv) ==
    Commas(args) \o (IF args # <<>> /\ kwn # <<>> THEN <<",">> ELSE <<>>) \o KwArgs(kwn, kwv, TRUE)

ConstTok(v) ==
    CASE v.t = "int" -> <<"#int:" \o ToString(v.n)>>
      [] v.t = "float" -> <<"#float:" \o ToString(v.n) \o "/" \o ToString(v.e)>>     \* n / 2^e
      [] v.t = "bool" -> <<IF v.b THEN "true" ELSE "false">>
      [] v.t = "none" -> <<"none">>
      [] v.t = "str" -> <<"#str:" \o (IF v.s = <<>> THEN "" ELSE v.s[1].a)>>

Arith == {"bin"}
IsAdd(e) == e.k = "bin" /\ e.op \in {"+", "-"}
IsMul(e) == e.k = "bin" /\ e.op \in {"*", "/", "//", "%"}
IsPow(e) == e.k = "bin" /\ e.op = "**"

Tk(e) ==
    CASE e.k = "const" -> ConstTok(e.v)
      [] e.k = "name" -> <<e.n>>
      [] e.k = "list" ->
           IF e.tup THEN <<"(">> \o Commas(e.items) \o (IF Len(e.items) = 1 THEN <<",">> ELSE <<>>) \o <<")">>
           ELSE <<"[">> \o Commas(e.items) \o <<"]">>
      [] e.k = "dict" -> <<"{">> \o Pairs(e.keys, e.vals, TRUE) \o <<"}">>
      [] e.k = "cond" ->
           Par(e.a, 2, {}) \o <<"if">> \o Par(e.test, 2, {})
              \o (IF "b" \in DOMAIN e THEN <<"else">> \o Par(e.b, 1, {}) ELSE <<>>)
      [] e.k = "or" -> Par(e.a, 2, {}) \o <<"or">> \o Par(e.b, 3, {})
      [] e.k = "and" -> Par(e.a, 3, {}) \o <<"and">> \o Par(e.b, 4, {})
      [] e.k = "not" -> <<"not">> \o Par(e.a, 4, {})
      [] e.k = "cmp" ->
           LET RECURSIVE Ops(_)
               Ops(os) == IF os = <<>> THEN <<>>
                          ELSE CmpTok(Head(os).op) \o Par(Head(os).e, 6, {}) \o Ops(Tail(os))
           IN Par(e.a, 6, {}) \o Ops(e.ops)
      [] e.k = "bin" ->
           IF IsAdd(e) THEN Par(e.a, 6, {"concat"}) \o <<e.op>> \o Par(e.b, 8, {"concat"})
           ELSE IF IsMul(e) THEN Par(e.a, 8, {"concat"}) \o <<e.op>> \o Par(e.b, 9, {"concat"})
           ELSE Par(e.a, 9, {"neg", "pos"}) \o <<"**">> \o Par(e.b, 10, {"neg", "pos"})
      [] e.k = "concat" ->
           LET RECURSIVE It(_)
               It(xs) == IF xs = <<>> THEN <<>>
                         ELSE Par(Head(xs), 8, {"concat"}) \o (IF Len(xs) > 1 THEN <<"~">> ELSE <<>>) \o It(Tail(xs))
           IN It(e.items)
      [] e.k = "neg" -> <<"-">> \o Par(e.a, 10, {"filter", "test", "bin"})
      [] e.k = "pos" -> <<"+">> \o Par(e.a, 10, {"filter", "test", "bin"})
      [] e.k = "filter" ->
           Par(e.a, 10, {}) \o <<"|", e.n>>
              \o (IF e.args # <<>> \/ e.kwnames # <<>> THEN <<"(">> \o ArgList(e.args, e.kwnames, e.kwvals) \o <<")">> ELSE <<>>)
      [] e.k = "test" ->
           Par(e.a, 10, {"test"}) \o <<"is">> \o (IF e.neg THEN <<"not">> ELSE <<>>) \o <<e.n>>
              \o (IF e.args # <<>> THEN <<"(">> \o Commas(e.args) \o <<")">> ELSE <<>>)
      [] e.k = "getattr" -> Par(e.a, 12, {"const"}) \o <<".", e.n>>
      [] e.k = "getitem" -> Par(e.a, 12, {}) \o <<"[">> \o Tk(e.i) \o <<"]">>
      [] e.k = "slice" -> Par(e.a, 12, {}) \o <<"[">> \o (IF "lo" \in DOMAIN e THEN Tk(e.lo) ELSE <<>>) \o <<":">>
                             \o (IF "hi" \in DOMAIN e THEN Tk(e.hi) ELSE <<>>) \o <<"]">>
      [] e.k = "call" -> Par(e.f, 12, {"const"}) \o <<"(">> \o ArgList(e.args, e.kwnames, e.kwvals) \o <<")">>

Init == i \in 1..Len(Cases) /\ done = FALSE

Emit ==
    /\ ~done
    /\ done' = TRUE
    /\ PrintT(ToJson([id |-> Cases[i].id, toks |-> Tk(Cases[i].e)]))
    /\ UNCHANGED i

Spec == Init /\ [][Emit]_vars

\* sanity of the table itself: parentheses are balanced in every emitted sequence
RECURSIVE Bal(_, _)
Bal(ts, d) ==
    IF ts = <<>> THEN d = 0
    ELSE IF Head(ts) = "(" THEN Bal(Tail(ts), d + 1)
    ELSE IF Head(ts) = ")" THEN d > 0 /\ Bal(Tail(ts), d - 1)
    ELSE Bal(Tail(ts), d)
C02_Balanced == Bal(SelectSeq(Tk(Cases[i].e), LAMBDA t : t \in {"(", ")"}), 0)
=============================================================================
