----------------------------- MODULE LexerRules -----------------------------
(***************************************************************************)
(* DECLARATIVE layer for C11 / C12 / C13 / C39: what the documentation     *)
(* (docs/templates.rst "Whitespace Control", "Line Statements", "Escaping",*)
(* docs/api.rst newline_sequence / keep_trailing_newline) says happens to  *)
(* template text, stated per TAG OCCURRENCE.  Nothing here scans for       *)
(* delimiters: a template is given as a sequence of PIECES, so where the   *)
(* tags are is known by construction.  The operational layer (Lexer.tla)   *)
(* only sees the flattened characters and has to find the tags the way     *)
(* lexer.py does; TLC checks that both layers agree.                       *)
(*                                                                         *)
(* piece  = [k, l, r, b, i, t]                                             *)
(*   k "text"                b = the characters                            *)
(*   k "block" "var" "comment" "rawopen" "rawclose"                        *)
(*                           start delimiter, l, b, r, end delimiter       *)
(*                           l, r \in {"", "-", "+"} are the modifiers     *)
(*   k "lstmt"               i (indent) line_statement_prefix b t          *)
(*                           t = trailing blanks + the line's "n" (or      *)
(*                           nothing at the end of the template)           *)
(*   k "lcomment"            i (blanks) line_comment_prefix b              *)
(* cfg    = [bs, be, vs, ve, cs, ce, lsp, lcp  (sequences; <<>> = unset),  *)
(*           trim, lstrip, keep (BOOLEAN), nl (newline_sequence)]          *)
(***************************************************************************)
EXTENDS Text

Sg(x) == IF x = "" THEN <<>> ELSE <<x>>

PieceFlat(p, c) ==
    CASE p.k = "text"     -> p.b
      [] p.k = "var"      -> c.vs \o Sg(p.l) \o p.b \o Sg(p.r) \o c.ve
      [] p.k = "comment"  -> c.cs \o Sg(p.l) \o p.b \o Sg(p.r) \o c.ce
      [] p.k = "lstmt"    -> p.i \o c.lsp \o p.b \o p.t
      [] p.k = "lcomment" -> p.i \o c.lcp \o p.b
      [] OTHER            -> c.bs \o Sg(p.l) \o p.b \o Sg(p.r) \o c.be

RECURSIVE FlatAll(_, _)
FlatAll(ps, c) == IF ps = <<>> THEN <<>> ELSE PieceFlat(Head(ps), c) \o FlatAll(Tail(ps), c)

\* length of a piece after line-break normalisation
NLen(p, c) == Len(Norm(PieceFlat(p, c), TRUE))

\* line-break normalisation may be done piece by piece: no \r\n straddles
\* a piece boundary, raw blocks are closed, endraw only closes a raw block
RECURSIVE RawBalanced(_, _)
RawBalanced(ps, inRaw) ==
    IF ps = <<>> THEN ~inRaw
    ELSE LET p == Head(ps)
         IN  IF inRaw THEN RawBalanced(Tail(ps), p.k # "rawclose")
             ELSE p.k # "rawclose" /\ RawBalanced(Tail(ps), p.k = "rawopen")

WellFormed(ps, c) ==
    /\ \A j \in 1..(Len(ps) - 1) :
         LET f == PieceFlat(ps[j], c)  g == PieceFlat(ps[j + 1], c)
         IN  ~(f # <<>> /\ g # <<>> /\ f[Len(f)] = "r" /\ g[1] = "n")
    /\ RawBalanced(ps, FALSE)

(* -- where the tags are (positions in the normalised source) -------------- *)
\* inside a raw block nothing but its endraw is a tag
RECURSIVE Occ(_, _, _, _)
Occ(ps, c, off, inRaw) ==
    IF ps = <<>> THEN <<>>
    ELSE LET p == Head(ps)
             n == NLen(p, c)
             isTag == IF inRaw THEN p.k = "rawclose" ELSE p.k # "text"
         IN  (IF isTag THEN <<[k |-> p.k, l |-> p.l, r |-> p.r, s |-> off, e |-> off + n]>>
              ELSE <<>>)
             \o Occ(Tail(ps), c, off + n, IF isTag THEN p.k = "rawopen" ELSE inRaw)

Occurrences(ps, c) == Occ(ps, c, 1, FALSE)

DeclSrc(ps, c) == Norm(FlatAll(ps, c), c.keep)

(* -- the documented whitespace rules ------------------------------------- *)
LineTags == {"lstmt", "lcomment"}

\* what a tag removes on its LEFT.  pe = end of everything the previous tag
\* consumed (1 at the start of the template).
LeftSet(S, c, o, pe) ==
    IF o.k \in LineTags THEN {}
    ELSE IF o.l = "-" THEN
        \* "-" removes all whitespace directly before the tag
        RunStart(S, o.s, pe, WsChars)..(o.s - 1)
    ELSE IF o.l # "+" /\ c.lstrip /\ o.k # "var" THEN
        \* lstrip_blocks: whitespace from the start of the line up to the
        \* tag, when the line holds nothing else before the tag
        LET ls == LineStartOf(S, o.s)
        IN  IF ls >= pe /\ ls < o.s /\ AllIn(S, ls, o.s, WsChars)
            THEN ls..(o.s - 1) ELSE {}
    ELSE {}

\* what a tag removes on its RIGHT
RightSet(S, c, o) ==
    IF o.k \in LineTags THEN {}
    ELSE IF o.r = "-" THEN
        o.e..(RunEnd(S, o.e, WsChars) - 1)
    ELSE IF /\ o.r # "+" /\ c.trim
            /\ o.k \in {"block", "comment", "rawclose"}   \* not raw-open, never a variable
            /\ o.e <= Len(S) /\ S[o.e] = "n"
         THEN {o.e}               \* trim_blocks: the first newline after the tag
    ELSE {}

RECURSIVE RemFrom(_, _, _, _)
RemFrom(S, c, occ, pe) ==
    IF occ = <<>> THEN [L |-> {}, R |-> {}]
    ELSE LET o == Head(occ)
             L == LeftSet(S, c, o, pe)
             R == RightSet(S, c, o)
             rest == RemFrom(S, c, Tail(occ), IF R = {} THEN o.e ELSE MaxOf(R) + 1)
         IN  [L |-> L \cup rest.L, R |-> R \cup rest.R]

Removed(S, c, occ) == RemFrom(S, c, occ, 1)

TagIdx(S, occ) == UNION {o.s..(o.e - 1) : o \in {occ[j] : j \in 1..Len(occ)}} \cap 1..Len(S)
VarStarts(occ) == {occ[j].s : j \in {j \in 1..Len(occ) : occ[j].k = "var"}}

(***************************************************************************)
(* Rendered output as a sequence of SOURCE INDICES (provenance): index j   *)
(* of the normalised source appears iff it is outside every tag and not    *)
(* removed; 0 marks the value printed by a variable tag.                   *)
(***************************************************************************)
RECURSIVE OutFrom(_, _, _, _)
OutFrom(j, n, gone, vstarts) ==
    IF j > n THEN <<>>
    ELSE (IF j \in vstarts THEN <<0>> ELSE IF j \in gone THEN <<>> ELSE <<j>>)
         \o OutFrom(j + 1, n, gone, vstarts)

DeclOutIdx(ps, c) ==
    LET S == DeclSrc(ps, c)
        occ == Occurrences(ps, c)
        rem == Removed(S, c, occ)
    IN  OutFrom(1, Len(S), TagIdx(S, occ) \cup rem.L \cup rem.R, VarStarts(occ))

\* provenance -> characters ("P" = what the variable tag prints), with the
\* configured newline sequence
IdxChars(S, idx) == [j \in 1..Len(idx) |-> IF idx[j] = 0 THEN "P" ELSE S[idx[j]]]
OutChars(S, idx, nl) == WithNl(IdxChars(S, idx), nl)

DeclOut(ps, c) == OutChars(DeclSrc(ps, c), DeclOutIdx(ps, c), c.nl)

(* -- C11: text without any delimiter start ------------------------------- *)
Starts(c) == {c.bs, c.vs, c.cs} \cup (IF c.lsp = <<>> THEN {} ELSE {c.lsp})
                                \cup (IF c.lcp = <<>> THEN {} ELSE {c.lcp})
NoDelimStart(raw, c) == \A p \in 1..Len(raw) : \A d \in Starts(c) : ~StartsWithAt(raw, p, d)

ExpectedPlain(raw, c) == WithNl(Norm(raw, c.keep), c.nl)

(* -- raw blocks: (rawopen, rawclose) occurrence pairs --------------------- *)
RawPairs(occ) ==
    {<<j, j + 1>> : j \in {j \in 1..(Len(occ) - 1) : occ[j].k = "rawopen"}}
=============================================================================
