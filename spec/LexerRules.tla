----------------------------- MODULE LexerRules -----------------------------
(***************************************************************************)
(* DECLARATIVE layer for C11 / C12 / C13 / C39: what the documentation     *)
(* (docs/templates.rst "Whitespace Control", "Line Statements", "Escaping",*)
(* docs/api.rst newline_sequence / keep_trailing_newline) says happens to  *)
(* template text, stated per TAG OCCURRENCE.  Nothing here scans for       *)
(* delimiters: a template is given as a sequence of PIECES, so where the   *)
(* tags are is known by construction.  The operational layer (Lexer.tla)   *)
(* only sees the flattened characters and has to find the tags the way     *)
(* lexer.py does; TLC checks that both layers agree.                       *)
(*                                                                         *)
(* piece  = [k, l, r, b, i, t]                                             *)
(*   k "text"                b = the characters                            *)
(*   k "block" "var" "comment" "rawopen" "rawclose"                        *)
(*                           start delimiter, l, b, r, end delimiter       *)
(*                           l, r \in {"", "-", "+"} are the modifiers     *)
(*   k "lstmt"               i (indent) line_statement_prefix b t          *)
(*                           t = trailing blanks + the line's "n" (or      *)
(*                           nothing at the end of the template)           *)
(*   k "lcomment"            i (blanks) line_comment_prefix b              *)
(* cfg    = [bs, be, vs, ve, cs, ce, lsp, lcp  (sequences; <<>> = unset),  *)
(*           trim, lstrip, keep (BOOLEAN), nl (newline_sequence),          *)
(*           fin (the environment's finalize hook: "" none, or how it is   *)
(*           called: "plain" "env" "ctx" "evalctx"), ae (autoescape)]      *)
(***************************************************************************)
EXTENDS Text

Sg(x) == IF x = "" THEN <<>> ELSE <<x>>

PieceFlat(p, c) ==
    CASE p.k = "text"     -> p.b
      [] p.k = "var"      -> c.vs \o Sg(p.l) \o p.b \o Sg(p.r) \o c.ve
      [] p.k = "comment"  -> c.cs \o Sg(p.l) \o p.b \o Sg(p.r) \o c.ce
      [] p.k = "lstmt"    -> p.i \o c.lsp \o p.b \o p.t
      [] p.k = "lcomment" -> p.i \o c.lcp \o p.b
      [] OTHER            -> c.bs \o Sg(p.l) \o p.b \o Sg(p.r) \o c.be

RECURSIVE FlatAll(_, _)
FlatAll(ps, c) == IF ps = <<>> THEN <<>> ELSE PieceFlat(Head(ps), c) \o FlatAll(Tail(ps), c)

\* length of a piece after line-break normalisation (\r\n counts once)
NLen(p, c) ==
    LET f == PieceFlat(p, c)
    IN  Len(f) - Cardinality({i \in 1..Len(f) : SecondHalf(f, i)})

\* line-break normalisation may be done piece by piece: no \r\n straddles
\* a piece boundary, raw blocks are closed, endraw only closes a raw block
RECURSIVE RawBalanced(_, _)
RawBalanced(ps, inRaw) ==
    IF ps = <<>> THEN ~inRaw
    ELSE LET p == Head(ps)
         IN  IF inRaw THEN RawBalanced(Tail(ps), p.k # "rawclose")
             ELSE p.k # "rawclose" /\ RawBalanced(Tail(ps), p.k = "rawopen")

WellFormed(ps, c) ==
    /\ \A j \in 1..(Len(ps) - 1) :
         LET f == PieceFlat(ps[j], c)  g == PieceFlat(ps[j + 1], c)
         IN  ~(f # <<>> /\ g # <<>> /\ f[Len(f)] = "r" /\ g[1] = "n")
    /\ RawBalanced(ps, FALSE)

(* -- where the tags are (positions in the normalised source) -------------- *)
\* inside a raw block nothing but its endraw is a tag
RECURSIVE Occ(_, _, _, _, _)
Occ(ps, c, j, off, inRaw) ==
    IF j > Len(ps) THEN <<>>
    ELSE LET p == ps[j]
             n == NLen(p, c)
             isTag == IF inRaw THEN p.k = "rawclose" ELSE p.k # "text"
         IN  (IF isTag THEN <<[k |-> p.k, l |-> p.l, r |-> p.r, s |-> off, e |-> off + n]>>
              ELSE <<>>)
             \o Occ(ps, c, j + 1, off + n, IF isTag THEN p.k = "rawopen" ELSE inRaw)

Occurrences(ps, c) == Occ(ps, c, 1, 1, FALSE)

DeclSrc(ps, c) == Norm(FlatAll(ps, c), c.keep)

(* -- the documented whitespace rules ------------------------------------- *)
LineTags == {"lstmt", "lcomment"}

\* How many characters a tag removes directly on its LEFT.  pe = end of
\* everything the previous tag consumed (1 at the start of the template).
LeftLen(S, c, o, pe) ==
    IF o.k \in LineTags THEN 0
    ELSE IF o.l = "-" THEN
        \* "-" removes all whitespace directly before the tag
        o.s - RunStart(S, o.s, pe, WsChars)
    ELSE IF o.l # "+" /\ c.lstrip /\ o.k # "var" THEN
        \* lstrip_blocks: the whitespace from the start of the line up to the
        \* tag, when the line holds nothing else before the tag
        LET ls == LineStartOf(S, o.s)
        IN  IF ls >= pe /\ AllIn(S, ls, o.s, WsChars) THEN o.s - ls ELSE 0
    ELSE 0

\* How many characters a tag removes directly on its RIGHT
RightLen(S, c, o) ==
    IF o.k \in LineTags THEN 0
    ELSE IF o.r = "-" THEN
        \* "-" removes all whitespace directly after the tag
        RunEnd(S, o.e, WsChars) - o.e
    ELSE IF /\ o.r # "+" /\ c.trim
            /\ o.k \in {"block", "comment", "rawclose"}   \* not raw-open, never a variable
            /\ o.e <= Len(S) /\ S[o.e] = "n"
         THEN 1                   \* trim_blocks: the first newline after the tag
    ELSE 0

\* the removed positions, as two sets (left of a tag / right of a tag)
RECURSIVE RemFrom(_, _, _, _, _)
RemFrom(S, c, occ, j, pe) ==
    IF j > Len(occ) THEN [L |-> {}, R |-> {}]
    ELSE LET o == occ[j]
             nl == LeftLen(S, c, o, pe)
             nr == RightLen(S, c, o)
             rest == RemFrom(S, c, occ, j + 1, o.e + nr)
         IN  [L |-> ((o.s - nl)..(o.s - 1)) \cup rest.L, R |-> (o.e..(o.e + nr - 1)) \cup rest.R]

Removed(S, c, occ) == RemFrom(S, c, occ, 1, 1)

TagIdx(S, occ) == UNION {occ[j].s..(occ[j].e - 1) : j \in 1..Len(occ)} \cap 1..Len(S)

(***************************************************************************)
(* Rendered output as a sequence of SOURCE INDICES (provenance): the text  *)
(* between the tags minus what the tags remove; 0 marks the value printed  *)
(* by a variable tag.  (A raw body is the text between its two tags.)      *)
(***************************************************************************)
Range(a, b) == [k \in 1..(IF b > a THEN b - a ELSE 0) |-> a + k - 1]        \* <<a, ..., b-1>>

RECURSIVE OutFrom(_, _, _, _, _)
OutFrom(S, c, occ, j, pe) ==
    IF j > Len(occ) THEN Range(pe, Len(S) + 1)
    ELSE LET o == occ[j]
         IN  Range(pe, o.s - LeftLen(S, c, o, pe))
             \o (IF o.k = "var" THEN <<0>> ELSE <<>>)
             \o OutFrom(S, c, occ, j + 1, o.e + RightLen(S, c, o))

DeclOutIdxOf(S, c, occ) == OutFrom(S, c, occ, 1, 1)
DeclOutIdx(ps, c) == DeclOutIdxOf(DeclSrc(ps, c), c, Occurrences(ps, c))

\* provenance -> characters ("P" = what the variable tag prints), with the
\* configured newline sequence
RECURSIVE OutCharsFrom(_, _, _, _)
OutCharsFrom(S, idx, j, nl) ==
    IF j > Len(idx) THEN <<>>
    ELSE (IF idx[j] = 0 THEN <<"P">> ELSE IF S[idx[j]] = "n" THEN nl ELSE <<S[idx[j]]>>)
         \o OutCharsFrom(S, idx, j + 1, nl)

OutChars(S, idx, nl) == OutCharsFrom(S, idx, 1, nl)

DeclOut(ps, c) == OutChars(DeclSrc(ps, c), DeclOutIdx(ps, c), c.nl)

(* -- rendering hooks ------------------------------------------------------ *)
(* docs/api.rst: finalize is "a callable that can be used to process the    *)
(* result of a variable expression before it is output", autoescape escapes *)
(* the result of variable expressions.  Both apply to what a variable TAG   *)
(* prints - whether the hook takes the value alone ("plain"), the           *)
(* environment, the render context or the evaluation context (the last two  *)
(* can only run at render time) - and never to template data: every source  *)
(* index of the provenance is output as the character it holds.  The hook   *)
(* of the harness puts the value in brackets.                               *)
Printed(c) == IF c.fin = "" THEN <<"P">> ELSE <<"[", "P", "]">>

RECURSIVE RenderCharsFrom(_, _, _, _)
RenderCharsFrom(S, idx, j, c) ==
    IF j > Len(idx) THEN <<>>
    ELSE (IF idx[j] = 0 THEN Printed(c) ELSE IF S[idx[j]] = "n" THEN c.nl ELSE <<S[idx[j]]>>)
         \o RenderCharsFrom(S, idx, j + 1, c)

RenderChars(S, idx, c) == RenderCharsFrom(S, idx, 1, c)

(* -- C11: text without any delimiter start ------------------------------- *)
Starts(c) == {c.bs, c.vs, c.cs} \cup (IF c.lsp = <<>> THEN {} ELSE {c.lsp})
                                \cup (IF c.lcp = <<>> THEN {} ELSE {c.lcp})
NoDelimStart(raw, c) == \A p \in 1..Len(raw) : \A d \in Starts(c) : ~StartsWithAt(raw, p, d)

ExpectedPlain(raw, c) == WithNl(Norm(raw, c.keep), c.nl)

(* -- raw blocks: (rawopen, rawclose) occurrence pairs --------------------- *)
RawPairs(occ) ==
    {<<j, j + 1>> : j \in {j \in 1..(Len(occ) - 1) : occ[j].k = "rawopen"}}
=============================================================================
