--------------------------- MODULE HtmlScanTrace ---------------------------
(***************************************************************************)
(* code -> spec validation for property C24.  Records (see FTrace):        *)
(*   tojson       inp = JSON value, out = result, x.back = json.loads(out) *)
(*                x.src = how the value reaches the filter (HtmlScan       *)
(*                Sources), x.pre / x.post = template data around it       *)
(*   xmlattr      inp = dict, args.autospace                               *)
(*   urlize       inp = text, args = trim / nofollow / target / rel /      *)
(*                schemes; out = result text                               *)
(*   escape, e, forceescape   x.ms = markupsafe.escape(inp)                *)
(*   indent, replace, truncate, format, wordwrap, join                     *)
(*                safe subject + plain-string arguments; out = what the    *)
(*                template renders under autoescape                        *)
(* name = "call"   : out is the value returned by Environment.call_filter  *)
(*                   in an autoescaping environment                        *)
(*        "render" : out is the text a template rendered under autoescape  *)
(***************************************************************************)
EXTENDS HtmlScan, FTrace

VARIABLES tid, rej

SafeIfCalled(r) == r.name = "call" => r.out.t = "m"

\* the value the filter receives: r.inp through the template form x.src (a class label) with the
\* literal template data x.pre / x.post around it (only strings travel through the non-"data" forms)
ToJsonArg(r) == IF r.x.src.v = "data" THEN r.inp ELSE Reaches(r.x.src.v, r.inp, r.x.pre.v, r.x.post.v)

C24_ToJson(r) ==
    /\ r.x.src.v \in Sources
    /\ r.out.t \in {"s", "m"}
    /\ r.out.v = JsonOf(ToJsonArg(r))
    /\ HtmlSafeJson(r.out.v)
    /\ JsonOf(r.x.back) = JsonOf(ToJsonArg(r))    \* parses back to the value it was given
    /\ SafeIfCalled(r)

C24_XmlAttr(r) ==
    LET e == XmlAttr(r.inp.v, r.args.autospace.v)
    IN IF e.t = "x" THEN VEq(r.out, e)
       ELSE /\ r.out.t \in {"s", "m"}
            /\ r.out.v = e.v
            /\ AcceptsAttrs(IF r.args.autospace.v \/ r.out.v = <<>> THEN r.out.v ELSE <<cSP>> \o r.out.v)
            /\ SafeIfCalled(r)

C24_Urlize(r) ==
    /\ r.out.t \in {"s", "m"}
    /\ AcceptsHtml(r.out.v)
    /\ SafeIfCalled(r)

C24_Escape(r) ==
    LET e == IF r.f = "forceescape" THEN ForceEscapeV(r.inp) ELSE EscapeV(r.inp)
    IN /\ r.out.t \in {"s", "m"}
       /\ r.out.v = e.v
       /\ SafeIfCalled(r)
       /\ r.f # "forceescape" => VEq(r.x.ms, e)          \* escape matches MarkupSafe

Items(r) == IF r.inp.t = "l" THEN r.inp.v ELSE <<>>
Subject(r) == IF r.inp.t = "l" THEN <<>> ELSE r.inp.v

C24_PlainArgsEscaped(r) ==
    /\ r.out.t = "s"
    /\ PlainArgsEscaped(r.f, Subject(r), r.args, Items(r), r.out.v)

Contract(r) ==
    /\ ArgsIntact(r)
    /\ CASE r.f = "tojson" -> C24_ToJson(r)
         [] r.f = "xmlattr" -> C24_XmlAttr(r)
         [] r.f = "urlize" -> C24_Urlize(r)
         [] r.f \in {"escape", "e", "forceescape"} -> C24_Escape(r)
         [] r.f \in {"indent", "replace", "truncate", "format", "wordwrap", "join"} -> C24_PlainArgsEscaped(r)

Why(r) ==
    IF ~ArgsIntact(r) THEN "args-modified"
    ELSE IF r.f \in {"indent", "replace", "truncate", "format", "wordwrap"}
            /\ r.out.t = "s" /\ PlainArgsTrusted(r.f, Subject(r), r.args, Items(r), r.out.v)
         THEN "plain-arg-trusted"
    ELSE "result"

\* what the specification expects, for the report (where it is a single value)
Expected(r) ==
    CASE r.f = "tojson" -> S(JsonOf(ToJsonArg(r)))
      [] r.f = "xmlattr" -> XmlAttr(r.inp.v, r.args.autospace.v)
      [] r.f \in {"escape", "e"} -> EscapeV(r.inp)
      [] r.f = "forceescape" -> ForceEscapeV(r.inp)
      [] r.f \in {"indent", "replace", "truncate", "format", "wordwrap", "join"} ->
            S(ApplyText(r.f, Subject(r), r.args, ArgE, Items(r)))
      [] OTHER -> S(<<>>)

Init == tid = 0 /\ rej = <<>>

Step ==
    /\ tid < NRecs
    /\ tid' = tid + 1
    /\ LET r == RecAt(tid + 1)
       IN rej' = IF Contract(r) THEN rej
                 ELSE Append(rej, [id |-> tid + 1, why |-> Why(r), expected |-> Expected(r)])
    /\ (tid + 1 = NRecs) => PrintT(ToJson([rejected |-> rej']))

Spec == Init /\ [][Step]_<<tid, rej>>
=============================================================================
