---------------------------- MODULE SandboxTable ----------------------------
(***************************************************************************)
(* C19_GateCoversMutators evaluated on the REAL code: the harness asks     *)
(* jinja2.sandbox.modifies_known_mutable(container, name) for every        *)
(* container kind and every public name dir() shows on the running Python  *)
(* and hands the verdict matrix to TLC (IOEnv.OBS_FILE):                   *)
(*   {"obs": {"list": {"append": true, ...}, ...},                         *)
(*    "dir": {"list": ["append", ...], ...}}                               *)
(* TLC reports                                                             *)
(*   uncovered    mutating methods (SandboxData semantics) the real gate   *)
(*                lets through                     -> violations of C19    *)
(*   overblocked  non-mutating names the real gate refuses (harmless)      *)
(*   drift        where the transcription OpModifies in SandboxRules and   *)
(*                the real function disagree (spec drift, not a violation) *)
(*   unclassified public names of this Python the semantics does not know  *)
(* and checks, as the design-level part, that the transcription OpModifies  *)
(* (any matching row) covers exactly the mutators, and lists what the      *)
(* lookup shipped before f0317ed (LegacyModifies, first matching row       *)
(* decides) left uncovered -- TLC exhibits findings F8 / F9.               *)
(***************************************************************************)
EXTENDS SandboxRules, Json, IOUtils

Obs == JsonDeserialize(IOEnv.OBS_FILE)

ObsModifies(k, m) == IF m \in DOMAIN Obs.obs[k] THEN Obs.obs[k][m] ELSE FALSE

AllPairs == {<<k, m>> \in ContainerKinds \X UNION {Methods(k2) : k2 \in ContainerKinds} : m \in Methods(k)}

Report ==
    [uncovered    |-> Uncovered(ObsModifies),
     overblocked  |-> Overblocked(ObsModifies),
     drift        |-> {p \in AllPairs : OpModifies(p[1], p[2]) # ObsModifies(p[1], p[2])},
     unclassified |-> UNION {{<<k, Obs.dir[k][i]>> : i \in {j \in 1..Len(Obs.dir[k]) : Obs.dir[k][j] \notin Methods(k)}}
                             : k \in ContainerKinds},
     mutators     |-> [kind \in ContainerKinds |-> Mutators(kind)],
     methods      |-> [kind \in ContainerKinds |-> Methods(kind)],
     legacy_uncovered |-> Uncovered(LegacyModifies),
     op_uncovered     |-> Uncovered(OpModifies),
     op_overblocked   |-> Overblocked(OpModifies)]

ASSUME PrintT(ToJson(Report))

(* the same run exports the container semantics for replay on CPython *)
VARIABLES case, done
D == INSTANCE SandboxDataMC
Spec == D!Spec
C19_ClassificationSound == D!C19_ClassificationSound

\* the transcribed lookup is exact on the four builtin kinds (constant-level: evaluated once)
OpExact == Uncovered(OpModifies) = {} /\ Overblocked(OpModifies) = {}
C19_OperationalLookupExact == OpExact
=============================================================================
