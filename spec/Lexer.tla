------------------------------- MODULE Lexer -------------------------------
(***************************************************************************)
(* OPERATIONAL layer for C11 / C12 / C13 / C39: a state machine shaped     *)
(* like jinja2.lexer.Lexer.tokeniter.  One action = one iteration of the   *)
(* tokenizer loop = one regular-expression match of one rule of            *)
(* Lexer.rules in the state on top of the stack.                           *)
(*                                                                         *)
(*   Start             newline_re.split(source)[::2], trailing line, join  *)
(*   RootDirective     root rule 1: (.*?)(raw_begin | tag starts sorted by *)
(*                     length | line statement | line comment) with the    *)
(*                     OptionalLStrip post-processing ("-", "+",           *)
(*                     lstrip_blocks with l_pos / line_starting)           *)
(*   RootData          root rule 2: .+                                     *)
(*   CommentEnd / CommentMissingEnd                                        *)
(*   BlockEnd / VariableEnd     (+end | -end\s* | end\n?), only when the   *)
(*                     bracket balancing stack is empty                    *)
(*   RawEnd / RawMissingEnd     with OptionalLStrip on the raw body        *)
(*   LineStatementEnd  \s*(\n|$)      LineComment  (.*?)()(?=\n|$)         *)
(*   TagWhitespace, TagAtoms, TagOperator (bracket balancing),             *)
(*   UnexpectedChar, Eof                                                   *)
(*                                                                         *)
(* Tokens are <<lineno, type, start, end>> index ranges into the           *)
(* normalised source `src` (half open).  The declarative layer is          *)
(* LexerRules.tla; the C11/C12/C39 invariants below relate the two on      *)
(* every bounded source.  Inputs: either grown piece by piece inside TLC   *)
(* (Grow) or read from a JSON batch written by the harness (UseFile).      *)
(***************************************************************************)
EXTENDS LexerRules, TLC, Json, IOUtils

CONSTANTS UseFile,          \* TRUE: cases come from IOEnv.LEXER_CASES (JSON)
          MaxPieces,        \* Grow mode: sources of 0..MaxPieces pieces
          GrowPieces,       \* Grow mode: the piece alphabet
          GrowCfgs,         \* Grow mode: the configurations
          GrowStructured,   \* Grow mode: pieces are the true tag structure
          PlainOnly,        \* Grow mode: only sources without any delimiter start (C11)
          Emit              \* print one JSON line per finished case

VARIABLES cas,            \* the case: [id, ps (pieces), c (cfg), st (structured), alt]
          src,           \* normalised source
          pos, lineno, stack, bal, lineStarting,    \* tokeniter locals
          toks,          \* emitted raw tokens
          outcome,       \* <<"running" | "eof" | "error", kind, lineno>>
          decl,          \* ghost: what the declarative layer says about this case
          phase          \* "grow" | "start" | "lex" | "done"

vars == <<cas, src, pos, lineno, stack, bal, lineStarting, toks, outcome, decl, phase>>

Input == JsonDeserialize(IOEnv.LEXER_CASES)

C == cas.c
Raw == FlatAll(cas.ps, C)
N == Len(src)
Top == stack[Len(stack)]
Tok(ln, ty, s, e) == <<ln, ty, s, e>>

(* ------------------------------------------------------------------------ *)
(* rule matching on src; a match is [e |-> end (0 = no match), sg |-> sign]  *)
(* ------------------------------------------------------------------------ *)
NoMatch == [e |-> 0, sg |-> ""]
Ch(p) == IF p >= 1 /\ p <= N THEN src[p] ELSE "$"       \* "$" = outside the text

\* (\-|\+|) right after a start delimiter
SignMatch(p) == IF Ch(p) \in {"-", "+"} THEN [e |-> p + 1, sg |-> src[p]]
                ELSE [e |-> p, sg |-> ""]

TagBeginMatch(p, d) == IF StartsWithAt(src, p, d) THEN SignMatch(p + Len(d)) ELSE NoMatch

\* ordered alternation   \+d | \-d\s* | d\n?      (\n? only with trim_blocks)
EndAlt(q, d, plus, trimmable) ==
    IF plus /\ Ch(q) = "+" /\ StartsWithAt(src, q + 1, d) THEN q + 1 + Len(d)
    ELSE IF Ch(q) = "-" /\ StartsWithAt(src, q + 1, d)
         THEN RunEnd(src, q + 1 + Len(d), WsChars)
    ELSE IF StartsWithAt(src, q, d)
         THEN LET e == q + Len(d)
              IN  IF trimmable /\ C.trim /\ Ch(e) = "n" THEN e + 1 ELSE e
    ELSE 0

\* {%(\-|\+|)\s*raw\s*(?:\-%}\s*|%})       -- never a "+", never block_suffix_re
Only(S) == CHOOSE x \in S : TRUE      \* {f(x) : x \in {e}} evaluates e once

RawBeginMatch(p) ==
    IF ~StartsWithAt(src, p, C.bs) THEN NoMatch
    ELSE Only({ IF Ch(b) # "R" THEN NoMatch
                ELSE [e |-> EndAlt(RunEnd(src, b + 1, WsChars), C.be, FALSE, FALSE),
                      sg |-> SignMatch(p + Len(C.bs)).sg]
                : b \in {RunEnd(src, SignMatch(p + Len(C.bs)).e, WsChars)} })

\* {%(\-|\+|)\s*endraw\s*(?:\+%}|\-%}\s*|%}\n?)
RawEndMatch(q) ==
    IF ~StartsWithAt(src, q, C.bs) THEN NoMatch
    ELSE Only({ IF Ch(b) # "E" THEN NoMatch
                ELSE [e |-> EndAlt(RunEnd(src, b + 1, WsChars), C.be, TRUE, TRUE),
                      sg |-> SignMatch(q + Len(C.bs)).sg]
                : b \in {RunEnd(src, SignMatch(q + Len(C.bs)).e, WsChars)} })

AtLineStart(p) == p = 1 \/ Ch(p - 1) = "n"

\* ^[ \t\v]*PREFIX(\-|\+|)
LineStmtBeginMatch(p) ==
    IF C.lsp = <<>> \/ ~AtLineStart(p) THEN NoMatch
    ELSE LET a == RunEnd(src, p, {"_", "t", "v"})
         IN  IF StartsWithAt(src, a, C.lsp) THEN SignMatch(a + Len(C.lsp)) ELSE NoMatch

\* (?:^|(?<=\S))[^\S\r\n]*PREFIX(\-|\+|)
LineCommentBeginMatch(p) ==
    IF C.lcp = <<>> \/ ~(AtLineStart(p) \/ (p > 1 /\ ~IsWs(src[p - 1]))) THEN NoMatch
    ELSE LET a == RunEnd(src, p, HSpace)
         IN  IF StartsWithAt(src, a, C.lcp) THEN SignMatch(a + Len(C.lcp)) ELSE NoMatch

(* compile_rules: sorted(rules, reverse=True) on (len(start), token name) *)
Rank(name) == CASE name = "variable_begin" -> 5
                [] name = "linestatement_begin" -> 4
                [] name = "linecomment_begin" -> 3
                [] name = "comment_begin" -> 2
                [] name = "block_begin" -> 1

Before(x, y) == \/ Len(x.d) > Len(y.d)
                \/ (Len(x.d) = Len(y.d) /\ Rank(x.name) > Rank(y.name))

RECURSIVE InsertRule(_, _)
InsertRule(x, s) == IF s = <<>> THEN <<x>>
                    ELSE IF Before(x, Head(s)) THEN <<x>> \o s
                    ELSE <<Head(s)>> \o InsertRule(x, Tail(s))

RECURSIVE SortRules(_)
SortRules(s) == IF s = <<>> THEN <<>> ELSE InsertRule(Head(s), SortRules(Tail(s)))

RootRules(c) ==
    LET base == << [name |-> "comment_begin", d |-> c.cs],
                   [name |-> "block_begin", d |-> c.bs],
                   [name |-> "variable_begin", d |-> c.vs] >>
        ls == IF c.lsp = <<>> THEN <<>> ELSE <<[name |-> "linestatement_begin", d |-> c.lsp]>>
        lc == IF c.lcp = <<>> THEN <<>> ELSE <<[name |-> "linecomment_begin", d |-> c.lcp]>>
    IN  SortRules(base \o ls \o lc)

\* the alternation of the root regex, in order
Alts == <<[name |-> "raw_begin", d |-> <<>>]>> \o RootRules(C)

AltMatch(alt, p) ==
    CASE alt.name = "raw_begin" -> RawBeginMatch(p)
      [] alt.name = "linestatement_begin" -> LineStmtBeginMatch(p)
      [] alt.name = "linecomment_begin" -> LineCommentBeginMatch(p)
      [] OTHER -> TagBeginMatch(p, alt.d)

\* regex alternation: the first alternative, in order, that matches at p
RECURSIVE FirstAltFrom(_, _, _)
FirstAltFrom(A, j, p) ==
    IF j > Len(A) THEN 0
    ELSE IF AltMatch(A[j], p).e > 0 THEN j ELSE FirstAltFrom(A, j + 1, p)

FirstAlt(A, p) == FirstAltFrom(A, 1, p)

\* (.*?) is lazy: the earliest position where some alternative matches
\* (pure optimisation: positions whose character cannot begin any
\* alternative are skipped without trying the alternatives)
FirstChars(A) == {A[j].d[1] : j \in {j \in 1..Len(A) : A[j].d # <<>>}} \cup {C.bs[1]}
                 \cup (IF C.lsp = <<>> /\ C.lcp = <<>> THEN {} ELSE HSpace)

RECURSIVE ScanDirective(_, _, _)
ScanDirective(A, fc, p) ==
    IF p > N THEN 0
    ELSE IF src[p] \in fc /\ FirstAlt(A, p) > 0 THEN p
    ELSE ScanDirective(A, fc, p + 1)

DirectivePos == LET A == Alts IN ScanDirective(A, FirstChars(A), pos)

\* index after the last "n" in src[a, p), or a when there is none
RECURSIVE LineStartFrom(_, _)
LineStartFrom(p, a) == IF p <= a \/ src[p - 1] = "n" THEN p ELSE LineStartFrom(p - 1, a)

(* OptionalLStrip post-processing of the text [a, b) in front of a tag:     *)
(* d = end of what is kept, nls = newlines_stripped                         *)
LStrip(a, b, sign, isVar) ==
    IF sign = "-" THEN                                  \* text.rstrip()
        Only({[d |-> d, nls |-> CountNl(src, d, b)] : d \in {RunStart(src, b, a, WsChars)}})
    ELSE IF sign # "+" /\ C.lstrip /\ ~isVar THEN
        \* lp = l_pos = text.rfind("\n") + 1;   lp > a  iff  the text holds a "\n"
        Only({ IF (lp > a \/ lineStarting) /\ lp < b /\ AllIn(src, lp, b, WsChars)
               THEN [d |-> lp, nls |-> 0] ELSE [d |-> b, nls |-> 0]
               : lp \in {IF a >= b THEN a ELSE LineStartFrom(b, a)} })
    ELSE [d |-> b, nls |-> 0]

(* ------------------------------------------------------------------------ *)
(* reporting                                                                 *)
(* ------------------------------------------------------------------------ *)
RECURSIVE OutIdxOf(_)
OutIdxOf(ts) ==
    IF ts = <<>> THEN <<>>
    ELSE LET t == Head(ts)
         IN  (IF t[2] = "data" THEN [k \in 1..(t[4] - t[3]) |-> t[3] + k - 1]
              ELSE IF t[2] = "variable_begin" THEN <<0>> ELSE <<>>)
             \o OutIdxOf(Tail(ts))

ExpectedOut ==
    IF cas.st THEN Cat(RenderChars(decl.src, decl.out, C))
    ELSE IF NoDelimStart(Raw, C) THEN Cat(ExpectedPlain(Raw, C))
    ELSE "?"

Report(ts, oc) ==
    IF Emit
    THEN PrintT(ToJson([id |-> cas.id, cfg |-> C.name, raw |-> Cat(Raw), src |-> Cat(src),
                        toks |-> ts, out |-> ExpectedOut, oc |-> oc]))
    ELSE TRUE

Finish(ts, oc) ==
    /\ toks' = ts
    /\ outcome' = oc
    /\ phase' = "done"
    /\ Report(ts, oc)

(* ------------------------------------------------------------------------ *)
(* inputs                                                                    *)
(* ------------------------------------------------------------------------ *)
\* the declarative layer, evaluated once per case (LexerRules.tla)
NoDecl == [src |-> <<>>, occ |-> <<>>, out |-> <<>>, L |-> {}, R |-> {}]
Declared(ps, c) ==
    Only({ Only({ Only({ [src |-> S, occ |-> occ, out |-> DeclOutIdxOf(S, c, occ),
                          L |-> rem.L, R |-> rem.R]
                         : rem \in {Removed(S, c, occ)} })
                  : occ \in {Occurrences(ps, c)} })
           : S \in {DeclSrc(ps, c)} })

\* alt = the same program written for another configuration (C13), c = 0: none
NoAlt == [ps |-> <<>>, c |-> 0]
CaseOf(i) == [id |-> i, ps |-> Input.cases[i].ps, c |-> Input.cfgs[Input.cases[i].c],
              st |-> Input.cases[i].st, alt |-> Input.cases[i].alt]

Init ==
    /\ IF UseFile
       THEN /\ \E i \in 1..Len(Input.cases) : cas = CaseOf(i)
            /\ phase = "start"
       ELSE /\ cas \in {[id |-> 0, ps |-> <<>>, c |-> c, st |-> GrowStructured, alt |-> NoAlt] : c \in GrowCfgs}
            /\ phase = "grow"
    /\ src = <<>> /\ pos = 1 /\ lineno = 1 /\ stack = <<"root">> /\ bal = <<>>
    /\ lineStarting = TRUE /\ toks = <<>> /\ outcome = <<"running", "", 0>> /\ decl = NoDecl

RECURSIVE InRaw(_, _)
InRaw(ps, r) == IF ps = <<>> THEN r
                ELSE InRaw(Tail(ps), IF r THEN Head(ps).k # "rawclose" ELSE Head(ps).k = "rawopen")

Grow ==
    /\ phase = "grow" /\ Len(cas.ps) < MaxPieces
    /\ \E p \in GrowPieces :
         /\ p.k = "rawclose" => InRaw(cas.ps, FALSE)
         /\ LET f == FlatAll(cas.ps, C)  g == PieceFlat(p, C)
            IN  ~(f # <<>> /\ g # <<>> /\ f[Len(f)] = "r" /\ g[1] = "n")
         /\ PlainOnly => NoDelimStart(FlatAll(cas.ps, C) \o PieceFlat(p, C), C)
         /\ cas' = [cas EXCEPT !.ps = Append(@, p)]
    /\ UNCHANGED <<src, pos, lineno, stack, bal, lineStarting, toks, outcome, decl, phase>>

Start ==
    /\ phase \in {"grow", "start"}
    /\ cas.st => RawBalanced(cas.ps, FALSE)
    /\ src' = SplitJoin(Raw, C.keep)
    /\ decl' = IF cas.st THEN Declared(cas.ps, C) ELSE NoDecl
    /\ phase' = "lex"
    /\ UNCHANGED <<cas, pos, lineno, stack, bal, lineStarting, toks, outcome>>

(* ------------------------------------------------------------------------ *)
(* root state                                                                *)
(* ------------------------------------------------------------------------ *)
\* (\E x \in {e} : ... binds x to the VALUE of e: TLC would re-evaluate a LET
\* definition at every use inside an action)
RootDirective(p) ==
    \E alt \in {Alts[FirstAlt(Alts, p)]} :
    \E m \in {AltMatch(alt, p)} :
    \E st \in {LStrip(pos, p, m.sg, alt.name = "variable_begin")} :
    \E ln1 \in {lineno + CountNl(src, pos, st.d) + st.nls} :
        /\ toks' = toks
                   \o (IF st.d > pos THEN <<Tok(lineno, "data", pos, st.d)>> ELSE <<>>)
                   \o <<Tok(ln1, alt.name, p, m.e)>>
        /\ lineno' = ln1 + CountNl(src, p, m.e)
        /\ stack' = Append(stack, alt.name)
        /\ lineStarting' = (src[m.e - 1] = "n")
        /\ pos' = m.e
        /\ UNCHANGED <<cas, decl, src, bal, outcome, phase>>

RootData ==
    /\ toks' = Append(toks, Tok(lineno, "data", pos, N + 1))
    /\ lineno' = lineno + CountNl(src, pos, N + 1)
    /\ lineStarting' = (src[N] = "n")
    /\ pos' = N + 1
    /\ UNCHANGED <<cas, decl, src, stack, bal, outcome, phase>>

\* no rule matches and the text is used up: tokeniter returns (in any state)
Eof ==
    /\ Finish(toks, <<"eof", "", 0>>)
    /\ UNCHANGED <<cas, decl, src, pos, lineno, stack, bal, lineStarting>>

InRoot == phase = "lex" /\ Top = "root" /\ pos <= N
RootDirectiveStep == InRoot /\ \E p \in {DirectivePos} : p > 0 /\ RootDirective(p)
RootDataStep == InRoot /\ DirectivePos = 0 /\ RootData

(* ------------------------------------------------------------------------ *)
(* comment state      (.*?)((?:\+#}|\-#}\s*|#}\n?))   |   (.) -> Failure     *)
(* ------------------------------------------------------------------------ *)
RECURSIVE ScanCommentEnd(_)
ScanCommentEnd(q) ==
    IF q > N THEN 0 ELSE IF EndAlt(q, C.ce, TRUE, TRUE) > 0 THEN q ELSE ScanCommentEnd(q + 1)

CommentEnd(q) ==
    \E e \in {EndAlt(q, C.ce, TRUE, TRUE)} :
    \E ln1 \in {lineno + CountNl(src, pos, q)} :
        /\ toks' = toks \o (IF q > pos THEN <<Tok(lineno, "comment", pos, q)>> ELSE <<>>)
                        \o <<Tok(ln1, "comment_end", q, e)>>
        /\ lineno' = ln1 + CountNl(src, q, e)
        /\ lineStarting' = (src[e - 1] = "n")
        /\ pos' = e
        /\ stack' = SubSeq(stack, 1, Len(stack) - 1)
        /\ UNCHANGED <<cas, decl, src, bal, outcome, phase>>

CommentMissingEnd ==
    /\ Finish(toks, <<"error", "Missing end of comment tag", lineno>>)
    /\ UNCHANGED <<cas, decl, src, pos, lineno, stack, bal, lineStarting>>

InComment == phase = "lex" /\ Top = "comment_begin" /\ pos <= N
CommentEndStep == InComment /\ \E q \in {ScanCommentEnd(pos)} : q > 0 /\ CommentEnd(q)
CommentMissingEndStep == InComment /\ ScanCommentEnd(pos) = 0 /\ CommentMissingEnd

(* ------------------------------------------------------------------------ *)
(* block / variable / line statement states: end rule first (only while the  *)
(* balancing stack is empty), then whitespace, literals/names, operators     *)
(* ------------------------------------------------------------------------ *)
\* \s*(\n|$) with re.M: greedy whitespace, then backtrack to the last "\n"
LineStmtEndPos ==
    LET e == RunEnd(src, pos, WsChars)
        nl == {i \in pos..(e - 1) : src[i] = "n"}
    IN  IF e = N + 1 THEN e ELSE IF nl # {} THEN MaxOf(nl) + 1 ELSE 0

\* end position if the end rule of the current tag state matches at pos, else 0
TagEndPos ==
    IF Top = "block_begin" THEN EndAlt(pos, C.be, TRUE, TRUE)
    ELSE IF Top = "variable_begin" THEN EndAlt(pos, C.ve, FALSE, FALSE)
    ELSE LineStmtEndPos

TagEnd(ty, e) ==
    /\ toks' = Append(toks, Tok(lineno, ty, pos, e))
    /\ lineno' = lineno + CountNl(src, pos, e)
    /\ lineStarting' = (e > pos /\ src[e - 1] = "n")
    /\ pos' = e
    /\ stack' = SubSeq(stack, 1, Len(stack) - 1)
    /\ UNCHANGED <<cas, decl, src, bal, outcome, phase>>

BlockEnd(e) == TagEnd("block_end", e)
VariableEnd(e) == TagEnd("variable_end", e)
LineStatementEnd(e) == TagEnd("linestatement_end", e)

AtomChars == {"a", "B", "V", "R", "E"}
OpenChars == {"{", "(", "["}
CloseChars == {"}", ")", "]"}
Closer(c) == CASE c = "{" -> "}" [] c = "(" -> ")" [] c = "[" -> "]"
PlainOps == {"%", "-", "+", "<", ">", "=", "~", "|", ",", ".", ":", "/", "*"}
IsOp(p) == Ch(p) \in PlainOps \cup OpenChars \cup CloseChars \/ (Ch(p) = "!" /\ Ch(p + 1) = "=")

TagWhitespace ==
    \E e \in {RunEnd(src, pos, WsChars)} :
        /\ toks' = Append(toks, Tok(lineno, "whitespace", pos, e))
        /\ lineno' = lineno + CountNl(src, pos, e)
        /\ lineStarting' = (src[e - 1] = "n")
        /\ pos' = e
        /\ UNCHANGED <<cas, decl, src, stack, bal, outcome, phase>>

\* names, numbers, strings: opaque here (Literals.tla / C14 look inside)
TagAtoms ==
    \E e \in {RunEnd(src, pos, AtomChars)} :
        /\ toks' = Append(toks, Tok(lineno, "atom", pos, e))
        /\ pos' = e
        /\ lineStarting' = FALSE
        /\ UNCHANGED <<cas, decl, src, lineno, stack, bal, outcome, phase>>

TagOperator ==
    LET c == src[pos]
    IN  /\ IF c \in OpenChars THEN
               /\ bal' = Append(bal, Closer(c))
               /\ toks' = Append(toks, Tok(lineno, "atom", pos, pos + 1))
               /\ pos' = pos + 1 /\ lineStarting' = FALSE
               /\ UNCHANGED <<outcome, phase>>
           ELSE IF c \in CloseChars /\ (bal = <<>> \/ bal[Len(bal)] # c) THEN
               \* unexpected '}'   /   unexpected '}', expected ')'
               /\ Finish(toks, <<"error", "unexpected", lineno>>)
               /\ UNCHANGED <<bal, pos, lineStarting>>
           ELSE
               /\ bal' = IF c \in CloseChars THEN SubSeq(bal, 1, Len(bal) - 1) ELSE bal
               /\ toks' = Append(toks, Tok(lineno, "atom", pos, pos + 1))
               /\ pos' = pos + 1 /\ lineStarting' = FALSE
               /\ UNCHANGED <<outcome, phase>>
        /\ UNCHANGED <<cas, decl, src, lineno, stack>>

UnexpectedChar ==
    /\ Finish(toks, <<"error", "unexpected char", lineno>>)
    /\ UNCHANGED <<cas, decl, src, pos, lineno, stack, bal, lineStarting>>

InTag == phase = "lex" /\ Top \in {"block_begin", "variable_begin", "linestatement_begin"}
\* the end rule fires only while the balancing stack is empty
FiringEnd == IF bal = <<>> THEN TagEndPos ELSE 0
InTagBody == InTag /\ FiringEnd = 0 /\ pos <= N

BlockEndStep == InTag /\ Top = "block_begin" /\ \E e \in {FiringEnd} : e > 0 /\ BlockEnd(e)
VariableEndStep == InTag /\ Top = "variable_begin" /\ \E e \in {FiringEnd} : e > 0 /\ VariableEnd(e)
LineStatementEndStep ==
    InTag /\ Top = "linestatement_begin" /\ \E e \in {FiringEnd} : e > 0 /\ LineStatementEnd(e)
TagWhitespaceStep == InTagBody /\ IsWs(src[pos]) /\ TagWhitespace
TagAtomsStep == InTagBody /\ src[pos] \in AtomChars /\ TagAtoms
TagOperatorStep == InTagBody /\ IsOp(pos) /\ TagOperator
UnexpectedCharStep ==
    InTagBody /\ ~IsWs(src[pos]) /\ src[pos] \notin AtomChars /\ ~IsOp(pos) /\ UnexpectedChar

(* ------------------------------------------------------------------------ *)
(* raw state                                                                 *)
(* ------------------------------------------------------------------------ *)
RECURSIVE ScanRawEnd(_)
ScanRawEnd(q) ==
    IF q > N THEN 0 ELSE IF RawEndMatch(q).e > 0 THEN q ELSE ScanRawEnd(q + 1)

RawEnd(q) ==
    \E m \in {RawEndMatch(q)} :
    \E st \in {LStrip(pos, q, m.sg, FALSE)} :
    \E ln1 \in {lineno + CountNl(src, pos, st.d) + st.nls} :
        /\ toks' = toks
                   \o (IF st.d > pos THEN <<Tok(lineno, "data", pos, st.d)>> ELSE <<>>)
                   \o <<Tok(ln1, "raw_end", q, m.e)>>
        /\ lineno' = ln1 + CountNl(src, q, m.e)
        /\ lineStarting' = (src[m.e - 1] = "n")
        /\ pos' = m.e
        /\ stack' = SubSeq(stack, 1, Len(stack) - 1)
        /\ UNCHANGED <<cas, decl, src, bal, outcome, phase>>

RawMissingEnd ==
    /\ Finish(toks, <<"error", "Missing end of raw directive", lineno>>)
    /\ UNCHANGED <<cas, decl, src, pos, lineno, stack, bal, lineStarting>>

InRawState == phase = "lex" /\ Top = "raw_begin" /\ pos <= N
RawEndStep == InRawState /\ \E q \in {ScanRawEnd(pos)} : q > 0 /\ RawEnd(q)
RawMissingEndStep == InRawState /\ ScanRawEnd(pos) = 0 /\ RawMissingEnd

(* ------------------------------------------------------------------------ *)
(* line comment state      (.*?)()(?=\n|$)    (matches even the empty text)  *)
(* ------------------------------------------------------------------------ *)
RECURSIVE NextNl(_)
NextNl(p) == IF p > N \/ src[p] = "n" THEN p ELSE NextNl(p + 1)

LineComment ==
    \E q \in {NextNl(pos)} :
        /\ toks' = toks \o (IF q > pos THEN <<Tok(lineno, "linecomment", pos, q)>> ELSE <<>>)
                        \o <<Tok(lineno, "linecomment_end", q, q)>>
        /\ pos' = q
        /\ lineStarting' = FALSE
        /\ stack' = SubSeq(stack, 1, Len(stack) - 1)
        /\ UNCHANGED <<cas, decl, src, lineno, bal, outcome, phase>>

LineCommentStep == phase = "lex" /\ Top = "linecomment_begin" /\ LineComment

\* no rule matches and the text is used up: tokeniter returns, in any state
\* (the end rule of a line statement and the line comment rule match the
\* empty text at the end, so they fire first)
EofStep ==
    /\ phase = "lex" /\ pos > N
    /\ Top # "linecomment_begin"
    /\ ~(Top = "linestatement_begin" /\ bal = <<>>)
    /\ Eof

\* one iteration of the `while True` loop of tokeniter
Next ==
    \/ Grow \/ Start
    \/ RootDirectiveStep \/ RootDataStep
    \/ CommentEndStep \/ CommentMissingEndStep
    \/ BlockEndStep \/ VariableEndStep \/ LineStatementEndStep
    \/ TagWhitespaceStep \/ TagAtomsStep \/ TagOperatorStep \/ UnexpectedCharStep
    \/ RawEndStep \/ RawMissingEndStep
    \/ LineCommentStep
    \/ EofStep

Spec == Init /\ [][Next]_vars

(* ======================================================================== *)
(* properties                                                                *)
(* ======================================================================== *)
Done == phase = "done"
DoneOk == phase = "done" /\ outcome[1] = "eof"
TokSet == {toks[i] : i \in 1..Len(toks)}
Covered == UNION {t[3]..(t[4] - 1) : t \in TokSet}
OpOutIdx == OutIdxOf(toks)
DOcc == decl.occ
EndTypes == {"block_end", "variable_end", "comment_end", "raw_end", "raw_begin"}

\* the harness only hands over sources whose piece structure is the truth
InputsWellFormed == Done /\ cas.st => WellFormed(cas.ps, C)

\* the operational split/join agrees with the declarative line-break rule
C11_NormalizeAgrees == Done => src = Norm(Raw, C.keep)

\* C39: every token carries the line on which it starts
C39_LineAccurate == Done => \A t \in TokSet : t[1] = LineOf(src, t[3])

\* C39: tokens are in order, disjoint, and what lies between them is exactly
\* the whitespace the documented rules remove on the LEFT of tags; what is
\* removed on the right of a tag travels inside that tag's end token
C39_Lossless ==
    /\ Done =>
         /\ \A i \in 1..Len(toks) : toks[i][3] <= toks[i][4]
         /\ \A i \in 1..(Len(toks) - 1) : toks[i][4] <= toks[i + 1][3]
         /\ \A j \in (1..(pos - 1)) \ Covered : IsWs(src[j])
         /\ Covered \subseteq 1..(pos - 1)
    /\ DoneOk => pos = N + 1
    /\ DoneOk /\ cas.st =>
         /\ (1..N) \ Covered = decl.L
         /\ decl.R \subseteq UNION {t[3]..(t[4] - 1) : t \in {t \in TokSet : t[2] \in EndTypes}}

\* C12: sources built from well-formed pieces always lex to the end
C12_StructuredSourcesLex == Done /\ cas.st => outcome[1] = "eof"

\* C12: data tokens + variable tags = source minus tags minus declared removals
C12_OperationalEqualsDeclared ==
    DoneOk /\ cas.st => /\ src = decl.src
                       /\ OpOutIdx = decl.out

\* C12: nothing but whitespace outside tags is ever dropped
C12_OnlyWhitespaceRemoved ==
    DoneOk /\ cas.st =>
        LET kept == {OpOutIdx[j] : j \in 1..Len(OpOutIdx)}
        IN  \A j \in (1..N) \ (TagIdx(src, DOcc) \cup kept) : IsWs(src[j])

\* C12: the automatic options never touch a variable tag: whitespace is
\* missing in front of {{ only when it carries "-", and }} consumes
\* whitespace only as "-}}"
C12_VariableTagsUntouchedByOptions ==
    Done => \A i \in 1..Len(toks) :
        LET t == toks[i] IN
        /\ t[2] = "variable_begin" /\ src[t[4] - 1] # "-" =>
               t[3] = (IF i = 1 THEN 1 ELSE toks[i - 1][4])
        /\ t[2] = "variable_end" /\ src[t[3]] # "-" => t[4] - t[3] = Len(C.ve)

\* C11: a source without any delimiter start is one data token and renders
\* as itself, line breaks replaced, at most one final line break dropped
C11_PlainVerbatim ==
    Done /\ NoDelimStart(Raw, C) =>
        /\ outcome[1] = "eof"
        /\ toks = (IF src = <<>> THEN <<>> ELSE <<Tok(1, "data", 1, N + 1)>>)
        /\ OutChars(src, OpOutIdx, C.nl) = ExpectedPlain(Raw, C)

\* C11: no character of a comment reaches the output
C11_CommentsSilent ==
    DoneOk /\ cas.st =>
        \A o \in {DOcc[j] : j \in 1..Len(DOcc)} :
            o.k \in {"comment", "lcomment"} =>
                \A j \in 1..Len(OpOutIdx) : OpOutIdx[j] \notin o.s..(o.e - 1)

\* C13: the same program written with other delimiters / as line statements
\* and line comments renders to the same text (declarative layer; each
\* variant is also a case of its own, where operational = declared is checked)
C13_TranslationPreservesOutput ==
    DoneOk /\ cas.st /\ cas.alt.c > 0 =>
        OutChars(decl.src, decl.out, C.nl) = DeclOut(cas.alt.ps, Input.cfgs[cas.alt.c])

\* C11: a raw body is output verbatim, contiguous, minus only what its own
\* two tags remove
C11_RawVerbatim ==
    DoneOk /\ cas.st =>
        \A pr \in RawPairs(DOcc) :
            LET o1 == DOcc[pr[1]]
                o2 == DOcc[pr[2]]
                lo == o1.e + RightLen(src, C, o1)
                hi == o2.s - LeftLen(src, C, o2, lo)
            IN  SelectSeq(OpOutIdx, LAMBDA j : j >= o1.e /\ j < o2.s) = Range(lo, hi)
=============================================================================
