--------------------------- MODULE CompileSession ---------------------------
(***************************************************************************)
(* Property C30 (template compilation is deterministic), the part "identical *)
(* across repeated compilations": ONE interpreter process compiles a         *)
(* sequence of templates with environments of different configurations      *)
(* (sync / async code generation).  What a compilation emits is a function  *)
(* of (template, configuration) alone -- it does not depend on what the     *)
(* process compiled before.                                                 *)
(*                                                                         *)
(* What lives longer than one compilation, and what does not:               *)
(*   shared    the module-level list jinja2.runtime.exported, read by        *)
(*             CodeGenerator.visit_Template for the line                     *)
(*                 from jinja2.runtime import <sorted names>                 *)
(*             (async environments add runtime.async_exported).  The code   *)
(*             builds a NEW list (exported + async_exported); switch `copy`  *)
(*             off = the shared list is extended in place.                   *)
(*   counter   CodeGenerator._last_identifier, which numbers the t_N         *)
(*             temporaries of pull_dependencies.  Every compilation has its *)
(*             own CodeGenerator, the count starts at 0 (this is what        *)
(*             IdTrackOrder.tla assumes in its Init); switch `reset` off =   *)
(*             the count goes on from the previous compilation.              *)
(* Names are numbers (rank in string order; the harness supplies the two     *)
(* lists in the order of runtime.py).  Python's sorted() keeps duplicates.   *)
(*                                                                         *)
(* A unit is [id, deps]: a template whose compilation allocates `deps`       *)
(* temporaries (its filters and tests).  A compilation emits                 *)
(*   [imp |-> the import line as a sequence of names, deps |-> the numbers   *)
(*    of its t_N lines]                                                      *)
(* C30_HistoryIndependent: with the switches as in the code every emitted    *)
(* record equals Canon(unit, mode), the record of a fresh process.  With a   *)
(* switch off TLC reports the sessions whose output depends on the history   *)
(* (negative controls).  Done prints every session of MaxLen compilations    *)
(* with the expected records; the harness replays each one in a process of   *)
(* its own (forked before anything was compiled).                            *)
(***************************************************************************)
EXTENDS Naturals, Sequences, FiniteSets, TLC, Json

CONSTANTS Units,          \* set of [id |-> n, deps |-> n]
          Modes,          \* subset of {"sync", "async"}
          ExportedList,   \* runtime.exported        (sequence of numbers)
          AsyncList,      \* runtime.async_exported  (sequence of numbers)
          MaxLen,
          Switches        \* set of [copy |-> BOOLEAN, reset |-> BOOLEAN]

VARIABLES sw, shared, counter, hist, outs

vars == <<sw, shared, counter, hist, outs>>

AsInCode(s) == s.copy /\ s.reset

RECURSIVE Ins(_, _)
Ins(x, s) == IF s = <<>> THEN <<x>>
             ELSE IF x <= Head(s) THEN <<x>> \o s ELSE <<Head(s)>> \o Ins(x, Tail(s))
RECURSIVE PySorted(_)
PySorted(s) == IF s = <<>> THEN <<>> ELSE Ins(Head(s), PySorted(Tail(s)))

(* ---- abstract layer: a function of (unit, mode) ------------------------------ *)
Canon(u, m) ==
    [imp |-> PySorted(ExportedList \o (IF m = "async" THEN AsyncList ELSE <<>>)),
     deps |-> [k \in 1..u.deps |-> k]]

(* ---- operational layer: the process ------------------------------------------ *)
Init ==
    /\ sw \in Switches
    /\ shared = ExportedList
    /\ counter = 0
    /\ hist = <<>> /\ outs = <<>>

\* Environment(enable_async = (m = "async")).compile(template of u, raw=True)
Compile(u, m) ==
    /\ Len(hist) < MaxLen
    /\ LET base == IF sw.reset THEN 0 ELSE counter
           lst == IF m = "async" THEN shared \o AsyncList ELSE shared
       IN /\ outs' = Append(outs, [imp |-> PySorted(lst), deps |-> [k \in 1..u.deps |-> base + k]])
          /\ counter' = base + u.deps
          /\ shared' = IF sw.copy THEN shared ELSE lst
    /\ hist' = Append(hist, [u |-> u, m |-> m])
    /\ UNCHANGED sw

Expected == [k \in 1..Len(hist) |-> Canon(hist[k].u, hist[k].m)]

Done ==
    /\ Len(hist) = MaxLen
    /\ IF AsInCode(sw)
       THEN PrintT(ToJson([session |-> [k \in 1..Len(hist) |-> <<hist[k].u.id, hist[k].m>>], expect |-> outs]))
       ELSE IF outs # Expected
            THEN PrintT(ToJson([leak |-> sw, session |-> [k \in 1..Len(hist) |-> <<hist[k].u.id, hist[k].m>>]]))
            ELSE TRUE
    /\ UNCHANGED vars

Next == (\E u \in Units, m \in Modes : Compile(u, m)) \/ Done

Spec == Init /\ [][Next]_vars

(* ---- properties ------------------------------------------------------------------ *)
\* what a compilation emits does not depend on the compilations before it
C30_HistoryIndependent == AsInCode(sw) => outs = Expected

\* ... in particular compiling the same unit with the same mode again gives the same record
C30_Repeatable ==
    AsInCode(sw) => \A j, k \in 1..Len(hist) : hist[j] = hist[k] => outs[j] = outs[k]

\* a compilation leaves the module-level list as it found it
C30_SharedUntouched == sw.copy => shared = ExportedList

\* for the negative controls (a switch off): expected to be violated
C30_AnySwitches == outs = Expected
=============================================================================
