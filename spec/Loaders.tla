------------------------------ MODULE Loaders ------------------------------
(***************************************************************************)
(* File-system style template loaders (property C28, first sentence):      *)
(* FileSystemLoader.get_source and PackageLoader.get_source of             *)
(* jinja2/loaders.py never read a file outside their search directories,   *)
(* and names that would leave them are answered with TemplateNotFound.     *)
(*                                                                         *)
(* Text.  A template name / a path is a sequence of ATOMS.  An atom is one *)
(* of the characters the mechanism distinguishes -- "/", "\\", ".", ":" -- *)
(* or an opaque WORD (a non-empty run of other characters: "a", "sub",     *)
(* "tmp", ...).  The harness concretises a name by concatenating its atoms.*)
(*                                                                         *)
(* Operational layer (shaped like the code):                               *)
(*   Grow     the environment: a name is built fragment by fragment        *)
(*   Start    get_source(name) is called: raw = name.split("/")            *)
(*   Split*   split_template_path, one piece per step: reject os.pardir    *)
(*            and pieces containing os.sep / os.altsep, drop "" and ".",   *)
(*            keep the rest                                                *)
(*   TryDir*  posixpath.join(searchpath, *pieces) written out (an absolute *)
(*            piece RESETS the path), os.path.normpath for PackageLoader,  *)
(*            os.path.isfile and open() on an abstract directory tree that *)
(*            resolves "", "." and ".." the way the operating system does  *)
(*   NotFound no search directory has the file                             *)
(* Abstract layer (the property statement): Leaves(name), Denotes(name),   *)
(* AbstractOutcome.                                                        *)
(*                                                                         *)
(* The tree (Files), the loaders (Loaders: id -> list of search            *)
(* directories) and the fragment alphabet are CONSTANTS: the harness       *)
(* builds exactly this tree on disk (sentinel files outside the search     *)
(* directories included) and replays every POSIX behaviour on the real     *)
(* loaders.  Platforms: os.sep / os.path.altsep, "/" and none on POSIX,    *)
(* "\\" and "/" on Windows (there the operating system also splits paths   *)
(* on backslashes).                                                        *)
(*                                                                         *)
(* White space.  The atoms in Blanks (" ", TAB, NL, NBSP, ...) are ORDINARY *)
(* name characters: the segment ".. " is a file name of three characters,  *)
(* not a parent reference, and neither the loader nor the (POSIX) operating*)
(* system ever strips it.  The switch "verbatim" says that the pieces which*)
(* pass the check are used exactly as they were checked; with verbatim off *)
(* the pieces are white-space-normalised (Strip) AFTER the check, so that  *)
(* ".. " passes as a file name and is then joined as "..".                 *)
(*                                                                         *)
(* Switches (pardir / sep / split / verbatim) say which conditions of      *)
(* split_template_path are present; all TRUE is the code.  The C28_*       *)
(* invariants are stated for the code's setting; for every other setting   *)
(* in Switches the model reports (leak |-> TRUE) when a behaviour opens a  *)
(* file outside the search directories, which documents that the condition *)
(* is load-bearing (negative controls, checked by the harness).            *)
(***************************************************************************)
EXTENDS Naturals, Sequences, FiniteSets, TLC, Json

CONSTANTS
    Frags,        \* set of name fragments (each a Seq(Atom)); names = fragments joined by "/"
    MaxSegs,      \* names have 1..MaxSegs fragments
    LastFrags,    \* fragments allowed in position MaxSegs (= Frags for the exhaustive instance)
    Platforms,    \* set of [sep, altsep] ("" = None)
    Switches,     \* set of [pardir, sep, split, verbatim] (BOOLEANs)
    Blanks,       \* the word atoms that stand for white space (ordinary name characters for the loaders)
    Files,        \* set of absolute locations (Seq of components, a component is a Seq(Atom)) that are regular files
    Loaders       \* function: loader id -> [dirs : Seq(location), norm : BOOLEAN]

VARIABLES plat, sw, lid, name, nseg, raw, pc, i, pieces, d, opened, openedStr, outcome, reset

vars == <<plat, sw, lid, name, nseg, raw, pc, i, pieces, d, opened, openedStr, outcome, reset>>

NF == <<<<"TemplateNotFound">>>>        \* outcome values are locations; this one is not a location of the tree
Pending == <<<<"pending">>>>
DOT == <<".">>
DOTDOT == <<".", ".">>
Last(s) == s[Len(s)]
Front(s) == SubSeq(s, 1, Len(s) - 1)
AsInCode == sw.pardir /\ sw.sep /\ sw.split /\ sw.verbatim

(* ---- text ------------------------------------------------------------- *)
\* s.split(c) for a set of one-atom separators: always at least one piece
RECURSIVE SplitAcc(_, _, _)
SplitAcc(s, seps, cur) ==
    IF s = <<>> THEN <<cur>>
    ELSE IF Head(s) \in seps THEN <<cur>> \o SplitAcc(Tail(s), seps, <<>>)
    ELSE SplitAcc(Tail(s), seps, Append(cur, Head(s)))
SplitOn(s, seps) == SplitAcc(s, seps, <<>>)

RECURSIVE JoinWith(_, _)
JoinWith(ss, sep) ==
    IF ss = <<>> THEN <<>>
    ELSE IF Len(ss) = 1 THEN ss[1]
    ELSE ss[1] \o <<sep>> \o JoinWith(Tail(ss), sep)

Contains(s, a) == \E k \in 1..Len(s) : s[k] = a

\* str.strip(): leading and trailing white space removed
RECURSIVE LStrip(_)
LStrip(s) == IF s # <<>> /\ Head(s) \in Blanks THEN LStrip(Tail(s)) ELSE s
RECURSIVE RStrip(_)
RStrip(s) == IF s # <<>> /\ Last(s) \in Blanks THEN RStrip(Front(s)) ELSE s
Strip(s) == RStrip(LStrip(s))

\* separators the operating system honours when it resolves a path
OsSeps == {"/"} \cup ({plat.sep, plat.altsep} \ {""})
\* platform separators that are not the template-name separator
ForeignSeps == OsSeps \ {"/"}

PathStr(loc) == <<"/">> \o JoinWith(loc, "/")          \* absolute path text of a location

(* ---- the directory tree ----------------------------------------------- *)
Prefixes(loc) == {SubSeq(loc, 1, k) : k \in 0..Len(loc)}
AllDirs == UNION {Prefixes(f) \ {f} : f \in Files}
Missing == <<<<"ENOENT">>>>

RECURSIVE Walk(_, _)
Walk(loc, comps) ==
    IF comps = <<>> THEN loc
    ELSE IF loc \notin AllDirs THEN Missing                 \* ENOENT / ENOTDIR
    ELSE LET c == Head(comps) IN
         IF c = <<>> \/ c = DOT THEN Walk(loc, Tail(comps))
         ELSE IF c = DOTDOT THEN Walk(IF loc = <<>> THEN <<>> ELSE Front(loc), Tail(comps))
         ELSE Walk(Append(loc, c), Tail(comps))

\* where the operating system ends up for an (absolute) path text; relative
\* paths are resolved from a working directory that is not part of the tree
OsResolve(p) ==
    IF p = <<>> \/ Head(p) \notin OsSeps THEN Missing
    ELSE Walk(<<>>, SplitOn(p, OsSeps))

IsFile(p) == OsResolve(p) \in Files

(* ---- posixpath.join / os.path.normpath -------------------------------- *)
JoinStep(path, b) ==
    IF b # <<>> /\ Head(b) = "/" THEN b                                   \* absolute piece: reset
    ELSE IF path = <<>> \/ Last(path) = "/" THEN path \o b
    ELSE path \o <<"/">> \o b

RECURSIVE PosixJoin(_, _)
PosixJoin(path, bs) == IF bs = <<>> THEN path ELSE PosixJoin(JoinStep(path, Head(bs)), Tail(bs))

JoinResets(bs) == \E k \in 1..Len(bs) : bs[k] # <<>> /\ Head(bs[k]) = "/"

\* posixpath.normpath on an absolute path (collapses "", "." and "..")
RECURSIVE NormAcc(_, _)
NormAcc(comps, acc) ==
    IF comps = <<>> THEN acc
    ELSE LET c == Head(comps) IN
         IF c = <<>> \/ c = DOT THEN NormAcc(Tail(comps), acc)
         ELSE IF c = DOTDOT THEN NormAcc(Tail(comps), IF acc = <<>> THEN acc ELSE Front(acc))
         ELSE NormAcc(Tail(comps), Append(acc, c))
Normpath(p) == PathStr(NormAcc(SplitOn(p, {"/"}), <<>>))

(* ---- abstract layer: what the property says --------------------------- *)
OsComponents(n) == SplitOn(n, OsSeps)
\* a name would leave the search directory: parent reference, or a platform separator
Leaves(n) ==
    \/ \E k \in 1..Len(OsComponents(n)) : OsComponents(n)[k] = DOTDOT
    \/ \E s \in ForeignSeps : Contains(n, s)
\* the relative location a harmless name denotes below a search directory
Denotes(n) == SelectSeq(SplitOn(n, {"/"}), LAMBDA c : c # <<>> /\ c # DOT)

FirstDirWith(dirs, rel) ==
    LET hits == {k \in 1..Len(dirs) : dirs[k] \o rel \in Files} IN
    IF hits = {} THEN 0 ELSE CHOOSE k \in hits : \A j \in hits : k <= j

AbstractOutcome(l, n) ==
    IF Leaves(n) THEN NF
    ELSE LET k == FirstDirWith(Loaders[l].dirs, Denotes(n)) IN
         IF k = 0 THEN NF ELSE Loaders[l].dirs[k] \o Denotes(n)

IsProperPrefix(p, s) == Len(p) < Len(s) /\ SubSeq(s, 1, Len(p)) = p
Inside(loc) == \E k \in 1..Len(Loaders[lid].dirs) : IsProperPrefix(Loaders[lid].dirs[k], loc)

(* ---- operational layer ------------------------------------------------- *)
Init ==
    /\ plat \in Platforms
    /\ sw \in Switches
    /\ lid \in {l \in DOMAIN Loaders : Loaders[l].norm => plat.sep = "/"}   \* normpath is modelled for POSIX only
    /\ name = <<>>
    /\ nseg = 0
    /\ raw = <<>>
    /\ pc = "grow"
    /\ i = 1
    /\ pieces = <<>>
    /\ d = 1
    /\ opened = {}
    /\ openedStr = {}
    /\ outcome = Pending
    /\ reset = FALSE

Grow(f) ==
    /\ pc = "grow" /\ nseg < MaxSegs
    /\ nseg + 1 < MaxSegs \/ f \in LastFrags
    /\ name' = IF nseg = 0 THEN f ELSE name \o <<"/">> \o f
    /\ nseg' = nseg + 1
    /\ UNCHANGED <<plat, sw, lid, raw, pc, i, pieces, d, opened, openedStr, outcome, reset>>

Start ==
    /\ pc = "grow" /\ nseg >= 1
    /\ raw' = SplitOn(name, {"/"})                            \* template.split("/")
    /\ pc' = IF sw.split THEN "split" ELSE "search"
    /\ pieces' = IF sw.split THEN <<>> ELSE <<name>>          \* naive loader: join(searchpath, template)
    /\ UNCHANGED <<plat, sw, lid, name, nseg, i, d, opened, openedStr, outcome, reset>>

BadPiece(p) ==
    \/ sw.sep /\ Contains(p, plat.sep)
    \/ sw.sep /\ plat.altsep # "" /\ Contains(p, plat.altsep)
    \/ sw.pardir /\ p = DOTDOT

\* the piece as it is used after it passed the check
Kept(p) == IF sw.verbatim THEN p ELSE Strip(p)

Finish(o) ==
    /\ outcome' = o
    /\ pc' = "done"
    /\ PrintT(ToJson([p |-> plat.sep, sw |-> <<sw.pardir, sw.sep, sw.split, sw.verbatim>>, l |-> lid, n |-> name, o |-> o,
                      op |-> opened', leak |-> (\E loc \in opened' : ~Inside(loc))]))

SplitReject ==
    /\ pc = "split" /\ i <= Len(raw) /\ BadPiece(raw[i])
    /\ opened' = opened
    /\ Finish(NF)
    /\ UNCHANGED <<plat, sw, lid, name, nseg, raw, i, pieces, d, openedStr, reset>>

SplitKeep ==
    /\ pc = "split" /\ i <= Len(raw) /\ ~BadPiece(raw[i])
    /\ Kept(raw[i]) # <<>> /\ Kept(raw[i]) # DOT
    /\ pieces' = Append(pieces, Kept(raw[i]))
    /\ i' = i + 1
    /\ UNCHANGED <<plat, sw, lid, name, nseg, raw, pc, d, opened, openedStr, outcome, reset>>

SplitDrop ==
    /\ pc = "split" /\ i <= Len(raw) /\ ~BadPiece(raw[i])
    /\ Kept(raw[i]) = <<>> \/ Kept(raw[i]) = DOT
    /\ i' = i + 1
    /\ UNCHANGED <<plat, sw, lid, name, nseg, raw, pc, pieces, d, opened, openedStr, outcome, reset>>

SplitDone ==
    /\ pc = "split" /\ i > Len(raw)
    /\ pc' = "search"
    /\ UNCHANGED <<plat, sw, lid, name, nseg, raw, i, pieces, d, opened, openedStr, outcome, reset>>

FileName(k) ==
    LET j == PosixJoin(PathStr(Loaders[lid].dirs[k]), pieces)
    IN IF Loaders[lid].norm THEN Normpath(j) ELSE j

TryDirHit ==
    /\ pc = "search" /\ d <= Len(Loaders[lid].dirs)
    /\ LET fn == FileName(d)
           loc == OsResolve(fn)
       IN /\ loc \in Files                                  \* os.path.isfile
          /\ opened' = opened \cup {loc}                    \* open(filename)
          /\ openedStr' = openedStr \cup {fn}
          /\ Finish(loc)
    /\ reset' = (reset \/ JoinResets(pieces))
    /\ UNCHANGED <<plat, sw, lid, name, nseg, raw, i, pieces, d>>

TryDirMiss ==
    /\ pc = "search" /\ d <= Len(Loaders[lid].dirs)
    /\ ~IsFile(FileName(d))
    /\ d' = d + 1
    /\ reset' = (reset \/ JoinResets(pieces))
    /\ UNCHANGED <<plat, sw, lid, name, nseg, raw, pc, i, pieces, opened, openedStr, outcome>>

NotFound ==
    /\ pc = "search" /\ d > Len(Loaders[lid].dirs)
    /\ opened' = opened
    /\ Finish(NF)
    /\ UNCHANGED <<plat, sw, lid, name, nseg, raw, i, pieces, d, openedStr, reset>>

Step == SplitReject \/ SplitKeep \/ SplitDrop \/ SplitDone \/ TryDirHit \/ TryDirMiss \/ NotFound
Next == (\E f \in Frags : Grow(f)) \/ Start \/ Step

Spec == Init /\ [][Next]_vars /\ WF_vars(Step)

(* ---- properties (for the conditions as they are in the code) ------------ *)
\* every file read lies below one of the loader's search directories, and the
\* path text handed to open() has no parent reference the OS would follow
C28_ResolvedInside ==
    AsInCode =>
        /\ \A loc \in opened : Inside(loc)
        /\ \A p \in openedStr : \A k \in 1..Len(SplitOn(p, OsSeps)) : SplitOn(p, OsSeps)[k] # DOTDOT

\* names that would leave are answered TemplateNotFound and nothing is opened
C28_RejectIsNotFound ==
    AsInCode /\ pc = "done" /\ Leaves(name) => outcome = NF /\ opened = {}

\* TemplateNotFound exactly when no search directory holds the denoted file;
\* otherwise the file of the FIRST search directory that has it
C28_MatchesAbstract ==
    AsInCode /\ pc = "done" => outcome = AbstractOutcome(lid, name)

C28_OpensOnlyResult ==
    AsInCode /\ pc = "done" => opened = (IF outcome = NF THEN {} ELSE {outcome})

\* split_template_path makes the absolute-piece reset of posixpath.join unreachable
C28_JoinNeverResets == AsInCode => ~reset

\* pieces that survive the split are plain file names
C28_PiecesClean ==
    AsInCode => \A k \in 1..Len(pieces) :
        /\ pieces[k] # <<>> /\ pieces[k] # DOT /\ pieces[k] # DOTDOT
        /\ \A s \in OsSeps : ~Contains(pieces[k], s)

\* the pieces that are joined are pieces of the name exactly as they were checked (nothing is
\* normalised -- stripped, folded -- between the check and the join)
C28_PiecesVerbatim ==
    AsInCode => \A k \in 1..Len(pieces) : \E j \in 1..Len(raw) : j < i /\ raw[j] = pieces[k] /\ ~BadPiece(raw[j])

\* a segment that is a parent reference padded with white space is a file name: it is never followed
\* upwards, and (no such file exists in the tree unless Files has it) the joined path keeps it verbatim
C28_PaddedParentIsAName ==
    AsInCode /\ pc = "done" /\ outcome # NF =>
        \A k \in 1..Len(raw) : (Strip(raw[k]) = DOTDOT /\ raw[k] # DOTDOT) => Contains(outcome, raw[k])

\* normpath (PackageLoader) does not change what the joined path means
C28_NormpathNeutral ==
    AsInCode /\ pc = "search" /\ d <= Len(Loaders[lid].dirs) =>
        OsResolve(Normpath(PosixJoin(PathStr(Loaders[lid].dirs[d]), pieces)))
            = OsResolve(PosixJoin(PathStr(Loaders[lid].dirs[d]), pieces))

\* every request is answered (names that are still being grown are not requests yet)
C28_Terminates == [](pc \in {"split", "search"} => <>(pc = "done"))
=============================================================================
