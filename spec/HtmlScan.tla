------------------------------ MODULE HtmlScan ------------------------------
(***************************************************************************)
(* Property C24: HTML-producing filters cannot be used to inject markup.   *)
(*                                                                         *)
(* 1. A scanner automaton over output characters.  In mode "html" it       *)
(*    accepts exactly the texts made of                                    *)
(*      - characters other than < > " ' (an & must start one of the five   *)
(*        entities MarkupSafe produces), and                               *)
(*      - anchors  <a href="H"( name="V")*>T</a>  where H is non-empty,    *)
(*        whitespace-free and contains no raw < > " ' &, every V contains  *)
(*        no raw < > " ' &, and T is text as above (no nested anchor).     *)
(*    In mode "attrs" it accepts attribute lists  ( name="V")*  (xmlattr). *)
(*    The automaton is a transition function Delta over (state, position)  *)
(*    with multi-character tokens; HtmlScanMC runs it action by action.    *)
(* 2. JsonOf: the exact serialisation tojson must produce for a small JSON *)
(*    universe, with the four \u00xx replacements.                         *)
(* 3. XmlAttr: the exact attribute string / ValueError of xmlattr.         *)
(* 4. The Markup-argument rule: a filter applied to a safe string with     *)
(*    plain-string arguments must produce F(safe, Esc(args)) -- or, when   *)
(*    the result is demoted to a plain string, Esc(F(safe, args)).         *)
(***************************************************************************)
EXTENDS StrFilters

(* ------------------------------------------------------------- 1. scanner *)
Ent == << <<38, 97, 109, 112, 59>>, <<38, 108, 116, 59>>, <<38, 103, 116, 59>>,
          <<38, 35, 51, 52, 59>>, <<38, 35, 51, 57, 59>> >>
AOpen  == <<60, 97, 32, 104, 114, 101, 102, 61, 34>>      \* <a href="
AClose == <<60, 47, 97, 62>>                               \* </a>
IsRawMeta(c) == c \in {cLT, cGT, cDQ, cSQ}

EntLenAt(cs, i) ==       \* length of the entity starting at i, 0 if none
    IF \E e \in 1..Len(Ent) : MatchAt(cs, i, Ent[e])
    THEN Len(Ent[CHOOSE e \in 1..Len(Ent) : MatchAt(cs, i, Ent[e])]) ELSE 0

\* An entity cut by the ellipsis of a trimmed link text (urlize trims the escaped URL):
\* a proper prefix of an entity directly followed by "...".  It cannot form markup.
CutEntLenAt(cs, i) ==
    IF \E e \in 1..Len(Ent) : \E n \in 1..(Len(Ent[e]) - 1) : MatchAt(cs, i, SubSeq(Ent[e], 1, n) \o <<46, 46, 46>>)
    THEN LET e == CHOOSE e \in 1..Len(Ent) : \E n \in 1..(Len(Ent[e]) - 1) : MatchAt(cs, i, SubSeq(Ent[e], 1, n) \o <<46, 46, 46>>)
         IN CHOOSE n \in 1..(Len(Ent[e]) - 1) : MatchAt(cs, i, SubSeq(Ent[e], 1, n) \o <<46, 46, 46>>)
    ELSE 0

\* length of ` name="` at i (space, one or more letters / - / :, then ="), 0 if none
AttrStartLenAt(cs, i) ==
    IF i <= Len(cs) /\ cs[i] = cSP
       /\ \E n \in 1..(Len(cs) - i) :
             /\ \A k \in 1..n : IsAlphaC(cs[i + k]) \/ cs[i + k] \in {cMINUS, 58}
             /\ MatchAt(cs, i + n + 1, <<61, 34>>)
    THEN (CHOOSE n \in 1..(Len(cs) - i) :
             /\ \A k \in 1..n : IsAlphaC(cs[i + k]) \/ cs[i + k] \in {cMINUS, 58}
             /\ MatchAt(cs, i + n + 1, <<61, 34>>)) + 3
    ELSE 0

\* xmlattr attribute names: anything up to `="` that cannot end the name state:
\* no whitespace, / > = and no raw < " ' (escaped to entities by the filter)
XNameOK(c) == ~IsWs(c) /\ c \notin {47, cGT, 61, cLT, cDQ, cSQ}
XAttrStartLenAt(cs, i) ==
    IF i <= Len(cs) /\ cs[i] = cSP
       /\ \E n \in 1..(Len(cs) - i) :
             /\ \A k \in 1..n : XNameOK(cs[i + k])
             /\ MatchAt(cs, i + n + 1, <<61, 34>>)
    THEN (CHOOSE n \in 1..(Len(cs) - i) :
             /\ \A k \in 1..n : XNameOK(cs[i + k])
             /\ MatchAt(cs, i + n + 1, <<61, 34>>)) + 3
    ELSE 0

\* One transition: from state st at position i (1-based, i <= Len(cs)) to
\* [st, i, act]; st = "reject" is absorbing.  `hl` counts href characters.
Delta(cs, st, i) ==
    LET c == cs[i]
        el == EntLenAt(cs, i)
        Rej == [st |-> "reject", i |-> i, act |-> "Reject"]
    IN CASE st = "text" ->
              IF MatchAt(cs, i, AOpen) THEN [st |-> "href0", i |-> i + Len(AOpen), act |-> "OpenAnchor"]
              ELSE IF c = cAMP THEN (IF el > 0 THEN [st |-> "text", i |-> i + el, act |-> "Entity"] ELSE Rej)
              ELSE IF IsRawMeta(c) THEN Rej
              ELSE [st |-> "text", i |-> i + 1, act |-> "TextChar"]
         [] st \in {"href0", "href"} ->
              IF c = cDQ THEN (IF st = "href" THEN [st |-> "tag", i |-> i + 1, act |-> "HrefEnd"] ELSE Rej)
              ELSE IF c = cAMP THEN (IF el > 0 THEN [st |-> "href", i |-> i + el, act |-> "Entity"] ELSE Rej)
              ELSE IF IsRawMeta(c) \/ IsWs(c) THEN Rej
              ELSE [st |-> "href", i |-> i + 1, act |-> "HrefChar"]
         [] st = "tag" ->
              IF c = cGT THEN [st |-> "atext", i |-> i + 1, act |-> "TagClose"]
              ELSE IF AttrStartLenAt(cs, i) > 0
                   THEN [st |-> "aval", i |-> i + AttrStartLenAt(cs, i), act |-> "AttrStart"]
              ELSE Rej
         [] st = "aval" ->
              IF c = cDQ THEN [st |-> "tag", i |-> i + 1, act |-> "AttrEnd"]
              ELSE IF c = cAMP THEN (IF el > 0 THEN [st |-> "aval", i |-> i + el, act |-> "Entity"] ELSE Rej)
              ELSE IF IsRawMeta(c) THEN Rej
              ELSE [st |-> "aval", i |-> i + 1, act |-> "AttrChar"]
         [] st = "atext" ->
              IF MatchAt(cs, i, AClose) THEN [st |-> "text", i |-> i + Len(AClose), act |-> "CloseAnchor"]
              ELSE IF c = cAMP THEN (IF el > 0 THEN [st |-> "atext", i |-> i + el, act |-> "Entity"]
                                     ELSE IF CutEntLenAt(cs, i) > 0
                                          THEN [st |-> "atext", i |-> i + CutEntLenAt(cs, i), act |-> "CutEntity"]
                                     ELSE Rej)
              ELSE IF IsRawMeta(c) THEN Rej
              ELSE [st |-> "atext", i |-> i + 1, act |-> "TextChar"]
         \* attribute-list mode (xmlattr): ( name="V")*
         [] st = "attrs" ->
              IF XAttrStartLenAt(cs, i) > 0
              THEN [st |-> "xval", i |-> i + XAttrStartLenAt(cs, i), act |-> "AttrStart"] ELSE Rej
         [] st = "xval" ->
              IF c = cDQ THEN [st |-> "attrs", i |-> i + 1, act |-> "AttrEnd"]
              ELSE IF c = cAMP THEN (IF el > 0 THEN [st |-> "xval", i |-> i + el, act |-> "Entity"] ELSE Rej)
              ELSE IF IsRawMeta(c) THEN Rej
              ELSE [st |-> "xval", i |-> i + 1, act |-> "AttrChar"]
         [] OTHER -> Rej

RECURSIVE RunFrom(_, _, _)
RunFrom(cs, st, i) ==
    IF st = "reject" \/ i > Len(cs) THEN st
    ELSE LET d == Delta(cs, st, i) IN RunFrom(cs, d.st, d.i)

AcceptsHtml(cs)  == RunFrom(cs, "text", 1) = "text"
AcceptsAttrs(cs) == RunFrom(cs, "attrs", 1) = "attrs"

(* -------------------------------------------------------------- 2. tojson *)
HexU(c) == <<92, 117, 48, 48>> \o                       \* \u00XX (lower-case hex)
           LET h(n) == IF n < 10 THEN 48 + n ELSE 87 + n IN <<h(c \div 16), h(c % 16)>>
JsonStrC(c) == CASE c = cDQ -> <<92, 34>>
                 [] c = 92 -> <<92, 92>>
                 [] c = cLF -> <<92, 110>>
                 [] c \in {cLT, cGT, cAMP, cSQ} -> HexU(c)
                 [] OTHER -> <<c>>
JsonStr(cs) == <<34>> \o Flatten([k \in 1..Len(cs) |-> JsonStrC(cs[k])]) \o <<34>>

RECURSIVE JsonOf(_)
JsonOf(a) ==
    CASE a.t = "i" -> IntStr(a.v)
      [] a.t = "b" -> IF a.v THEN <<116, 114, 117, 101>> ELSE <<102, 97, 108, 115, 101>>
      [] a.t = "n" -> <<110, 117, 108, 108>>
      [] IsStr(a) -> JsonStr(a.v)
      [] a.t = "l" -> <<91>> \o JoinSeqs([k \in 1..Len(a.v) |-> JsonOf(a.v[k])], <<44, 32>>) \o <<93>>
      [] a.t = "d" ->       \* keys sorted (policy json.dumps_kwargs = {sort_keys: True})
            LET p == SortPerm([k \in 1..Len(a.v) |-> a.v[k][1]], FALSE)
            IN <<123>> \o JoinSeqs([k \in 1..Len(p) |->
                                       JsonStr(a.v[p[k]][1].v) \o <<58, 32>> \o JsonOf(a.v[p[k]][2])],
                                   <<44, 32>>) \o <<125>>
      [] OTHER -> <<63>>            \* not a JSON value (e.g. the output did not parse)

HtmlSafeJson(cs) == \A k \in 1..Len(cs) : cs[k] \notin {cLT, cGT, cAMP, cSQ}

\* How a text reaches tojson inside a template (autoescape on).  A safety mark is never a
\* licence: whatever the provenance, tojson serialises the TEXT of the value it receives
\* (JsonOf treats "s" and "m" alike) and the four replacements always apply.
\*   data        the value as handed over by the application (plain or Markup)
\*   safe        v|safe            string        v|string (keeps the mark)
\*   escape      v|escape          forceescape   v|forceescape
\*   capture     {% set w %}PRE{{ v }}POST{% endset %}{{ w|tojson }}   (a captured block is Markup)
\*   macro       {% macro m(x) %}PRE{{ x }}POST{% endmacro %}{{ m(v)|tojson }}
\*   callblock   {% call m() %}PRE{{ v }}POST{% endcall %} with m = {{ caller()|tojson }}
Sources == {"data", "safe", "string", "escape", "forceescape", "capture", "macro", "callblock"}
Reaches(src, a, pre, post) ==
    CASE src \in {"data", "string"} -> a
      [] src = "safe" -> M(StrOf(a))
      [] src = "escape" -> EscapeV(a)
      [] src = "forceescape" -> ForceEscapeV(a)
      [] src \in {"capture", "macro", "callblock"} -> M(pre \o EscapeV(a).v \o post)

(* ------------------------------------------------------------- 3. xmlattr *)
\* characters that could leave the attribute name: the documented rule (no spaces,
\* / > =) with "space" read as ASCII whitespace -- tab, LF, FF and blank end the name in
\* the HTML attribute-name state, CR is turned into LF by HTML input preprocessing, VT
\* is whitespace for every SGML/XML-era consumer
KeyRejected(c) == c \in {cSP, cTAB, cLF, 11, 12, cCR, 47, cGT, 61}
BadKey(cs) == \E k \in 1..Len(cs) : KeyRejected(cs[k])

XmlAttr(pairs, autospace) ==
    LET kept == SelectSeq(pairs, LAMBDA p : p[2].t \notin {"n", "u"})
    IN IF \E k \in 1..Len(kept) : BadKey(StrOf(kept[k][1])) THEN X("ValueError")
       ELSE LET items == [k \in 1..Len(kept) |->
                             Esc(StrOf(kept[k][1])) \o <<61, 34>> \o EscapeV(kept[k][2]).v \o <<34>>]
                body == JoinSeqs(items, <<cSP>>)
            IN S(IF autospace /\ body # <<>> THEN <<cSP>> \o body ELSE body)

(* -------------------------------------------- 4. the Markup-argument rule *)
\* text of a value as it is rendered under autoescape
Rendered(a) == IF a.t = "m" THEN a.v ELSE Esc(StrOf(a))
\* a plain argument, escaped / raw
ArgE(a) == Rendered(a)
ArgR(a) == StrOf(a)

\* f applied to the safe subject `m` (code points) with arguments `a` transformed by G
\* (`H` transforms replace's search string, which never reaches the output)
ApplyText2(f, m, a, G(_), H(_), items) ==
    CASE f = "indent"   -> Indent(m, IF a.width.t = "i" THEN IndentWidth(a.width) ELSE G(a.width),
                                  a.first.v, a.blank.v)
      [] f = "replace"  -> Replace(m, H(a.old), G(a.new), a.count.v)
      [] f = "truncate" -> TruncateX(m, a.length.v, a.killwords.v, Len(StrOf(a.end)), G(a.end), a.leeway.v)
      [] f = "format"   -> Format(m, <<G(a.arg)>>)
      [] f = "wordwrap" -> JoinSeqs(SplitLines(m), G(a.wrapstring))
      [] f = "join"     -> JoinSeqs([k \in 1..Len(items) |-> G(items[k])], G(a.d))

ApplyText(f, m, a, G(_), items) == ApplyText2(f, m, a, G, G, items)

\* C24_PlainArgsEscaped: the rendered output is either the safe result with the
\* arguments escaped, or the whole plain result escaped
PlainArgsEscaped(f, subj, a, items, out) ==
    IF f = "join"
    THEN out = ApplyText(f, <<>>, a, Rendered, items)
    ELSE \/ out = ApplyText(f, subj, a, ArgE, items)
         \/ out = ApplyText2(f, subj, a, ArgE, ArgR, items)     \* search string taken literally
         \/ out = Esc(ApplyText(f, subj, a, ArgR, items))

\* what a filter that trusts its arguments would render
PlainArgsTrusted(f, subj, a, items, out) ==
    /\ f # "join"
    /\ out = ApplyText(f, subj, a, ArgR, items)

=============================================================================
