------------------------------ MODULE Literals ------------------------------
(***************************************************************************)
(* Property C14: template literals denote the same values as Python        *)
(* literals.                                                               *)
(*                                                                         *)
(* NUMBERS.  Operational layer = the part of the lexer's tag rules that    *)
(* can fire on a spelling over [0-9a-fA-F_.xXoObBeE+-]: at every position  *)
(* the rules are tried in the order  float, integer, name, operator        *)
(* (lexer.py: tag_rules), each rule is a backtracking regular expression   *)
(* whose unique outcome is written out as a scanner (FloatEnd, IntEnd), and *)
(* the conversion steps of Lexer.wrap (drop "_", int(text, 0), float       *)
(* literal).  Abstract layer = Python's own grammar of numeric literals     *)
(* (language reference 2.4.5 / 2.4.6) as recognisers over the whole         *)
(* spelling, and the positional value of the spelling.  TLC checks that     *)
(* whenever the scanner reads a spelling as ONE number token, the spelling  *)
(* is a Python literal of the same kind with the same exact value           *)
(* (C14_SingleTokenValue), and that tokens tile the spelling                *)
(* (C14_NoSilentSplit).  Exact values never go through TLC integers: an     *)
(* integer is <<base, digits>>, a float <<mantissa digits, fraction length, *)
(* exponent sign, exponent digits>>.                                        *)
(*                                                                          *)
(* STRINGS.  Spellings are sequences of character-class symbols.  Abstract  *)
(* layer = Python's escape sequences for string literals (PyUnits).         *)
(* Operational layer = the lexer's pipeline: string_re, then                *)
(* encode("ascii","backslashreplace") (a non-ASCII character becomes the    *)
(* text of a numeric escape), then unicode-escape decoding (PipeUnits).     *)
(* TLC checks that both give the same value wherever Python defines one     *)
(* (C14_PipelineIsPythonDecoding) and that adjacent literals concatenate    *)
(* (C14_AdjacentConcat).  The pipeline starts with Lexer.wrap's             *)
(* _normalize_newlines: a RAW line break inside the quotes is replaced by   *)
(* the environment's newline_sequence (NewlineSeqs: "n" = \n, "rn" = \r\n,  *)
(* "r" = \r) BEFORE the escapes are decoded, so the setting can only touch  *)
(* characters that are line breaks of the template source - never a         *)
(* character that an escape sequence denotes: a literal without a raw line  *)
(* break denotes the same value under every newline_sequence                *)
(* (C14_EscapesIgnoreNewlineSequence).                                      *)
(***************************************************************************)
EXTENDS Naturals, Sequences, FiniteSets, TLC, Json, IOUtils

CONSTANTS Alphabet,   \* characters (numbers) or class symbols (strings) spellings are built from
          MaxLen,     \* longest generated spelling
          FromFile,   \* TRUE: spellings are read from IOEnv.SPELLINGS_FILE instead of generated
          NormalizeFirst  \* TRUE (the lexer): raw line breaks are replaced before escape decoding;
                          \* FALSE: line feeds are replaced after decoding (must violate: vacuity guard)

VARIABLES src,    \* the spelling, a sequence of 1-character strings / class symbols
          phase,  \* "grow" | "lex" | "done"
          pos,    \* next position to scan
          toks    \* tokens so far: [type, from, to] (to exclusive)

vars == <<src, phase, pos, toks>>

END == "$end"
At(s, i) == IF i >= 1 /\ i <= Len(s) THEN s[i] ELSE END

RECURSIVE JoinStr(_)
JoinStr(s) == IF s = <<>> THEN "" ELSE Head(s) \o JoinStr(Tail(s))

(* ======================================================================== *)
(* NUMBERS                                                                  *)
(* ======================================================================== *)
Digit    == {"0", "1", "2", "3", "4", "5", "6", "7", "8", "9"}
NonZero  == Digit \ {"0"}
BinDigit == {"0", "1"}
OctDigit == {"0", "1", "2", "3", "4", "5", "6", "7"}
HexDigit == Digit \cup {"a", "b", "c", "d", "e", "f", "A", "B", "C", "D", "E", "F"}
Letter   == {"a", "b", "c", "d", "e", "f", "A", "B", "C", "D", "E", "F", "x", "X", "o", "O"}
Word     == Digit \cup Letter \cup {"_"}
OpChar   == {"+", "-", "."}

DigitVal(c) ==
    CASE c = "0" -> 0 [] c = "1" -> 1 [] c = "2" -> 2 [] c = "3" -> 3 [] c = "4" -> 4
      [] c = "5" -> 5 [] c = "6" -> 6 [] c = "7" -> 7 [] c = "8" -> 8 [] c = "9" -> 9
      [] c \in {"a", "A"} -> 10 [] c \in {"b", "B"} -> 11 [] c \in {"c", "C"} -> 12
      [] c \in {"d", "D"} -> 13 [] c \in {"e", "E"} -> 14 [] c \in {"f", "F"} -> 15

(* ---- operational layer: the regular expressions as scanners ------------- *)

\* end of the greedy match of  (\d+_)*\d+  starting at i  (= i: no match)
RECURSIVE DigitPartEnd(_, _)
DigitPartEnd(s, i) ==
    IF At(s, i) \notin Digit THEN i
    ELSE IF At(s, i + 1) \in Digit THEN DigitPartEnd(s, i + 1)
    ELSE IF At(s, i + 1) = "_" /\ At(s, i + 2) \in Digit THEN DigitPartEnd(s, i + 2)
    ELSE i + 1

\* end of the greedy match of  (_?[set])*  starting at i
RECURSIVE RepEnd(_, _, _)
RepEnd(s, i, set) ==
    IF At(s, i) \in set THEN RepEnd(s, i + 1, set)
    ELSE IF At(s, i) = "_" /\ At(s, i + 1) \in set THEN RepEnd(s, i + 2, set)
    ELSE i

\* float_re: (?<!\.) D ( (\.D)? e[+-]?D | \.D )   -- first alternative first
ExpEnd(s, k) ==
    IF At(s, k) \in {"e", "E"}
    THEN LET m == IF At(s, k + 1) \in {"+", "-"} THEN k + 2 ELSE k + 1
         IN IF DigitPartEnd(s, m) > m THEN DigitPartEnd(s, m) ELSE k
    ELSE k

FloatEnd(s, i) ==
    IF At(s, i - 1) = "." THEN i
    ELSE LET a == DigitPartEnd(s, i)
         IN IF a = i THEN i
            ELSE LET f == IF At(s, a) = "." /\ DigitPartEnd(s, a + 1) > a + 1
                          THEN DigitPartEnd(s, a + 1) ELSE a
                 IN IF ExpEnd(s, f) > f THEN ExpEnd(s, f)     \* (\.D)? e[+-]?D
                    ELSE IF f > a THEN f                       \* \.D
                    ELSE i

\* integer_re: 0b(_?[01])+ | 0o(_?[0-7])+ | 0x(_?[\da-f])+ | [1-9](_?\d)* | 0(_?0)*   (IGNORECASE)
Prefixed(s, i, letters, set) ==
    IF At(s, i) = "0" /\ At(s, i + 1) \in letters /\ RepEnd(s, i + 2, set) > i + 2
    THEN RepEnd(s, i + 2, set) ELSE i

IntEnd(s, i) ==
    IF Prefixed(s, i, {"b", "B"}, BinDigit) > i THEN Prefixed(s, i, {"b", "B"}, BinDigit)
    ELSE IF Prefixed(s, i, {"o", "O"}, OctDigit) > i THEN Prefixed(s, i, {"o", "O"}, OctDigit)
    ELSE IF Prefixed(s, i, {"x", "X"}, HexDigit) > i THEN Prefixed(s, i, {"x", "X"}, HexDigit)
    ELSE IF At(s, i) \in NonZero THEN RepEnd(s, i + 1, Digit)
    ELSE IF At(s, i) = "0" THEN RepEnd(s, i + 1, {"0"})
    ELSE i

RECURSIVE WordEnd(_, _)
WordEnd(s, i) == IF At(s, i) \in Word THEN WordEnd(s, i + 1) ELSE i

(* ---- operational layer: the conversions of Lexer.wrap ------------------- *)
NoUnderscore(t) == SelectSeq(t, LAMBDA c : c # "_")            \* value_str.replace("_", "")
DigitVals(t)    == [k \in 1..Len(t) |-> DigitVal(t[k])]

\* int(text, 0): the base comes from the prefix
IntOf(t) ==
    LET u == NoUnderscore(t)
    IN IF Len(u) >= 2 /\ u[2] \in {"b", "B"} THEN [kind |-> "int", base |-> 2, digits |-> DigitVals(SubSeq(u, 3, Len(u)))]
       ELSE IF Len(u) >= 2 /\ u[2] \in {"o", "O"} THEN [kind |-> "int", base |-> 8, digits |-> DigitVals(SubSeq(u, 3, Len(u)))]
       ELSE IF Len(u) >= 2 /\ u[2] \in {"x", "X"} THEN [kind |-> "int", base |-> 16, digits |-> DigitVals(SubSeq(u, 3, Len(u)))]
       ELSE [kind |-> "int", base |-> 10, digits |-> DigitVals(u)]

\* the float literal text without "_": mantissa digits, digits after the point, exponent
FirstIn(u, set) == IF \E k \in 1..Len(u) : u[k] \in set THEN CHOOSE k \in 1..Len(u) : u[k] \in set /\ \A j \in 1..(k - 1) : u[j] \notin set ELSE 0
FloatOf(t) ==
    LET u  == NoUnderscore(t)
        e  == FirstIn(u, {"e", "E"})
        m  == IF e = 0 THEN u ELSE SubSeq(u, 1, e - 1)          \* mantissa text
        x  == IF e = 0 THEN <<>> ELSE SubSeq(u, e + 1, Len(u))  \* exponent text
        p  == FirstIn(m, {"."})
        md == SelectSeq(m, LAMBDA c : c # ".")
        neg == x # <<>> /\ x[1] = "-"
        xd == SelectSeq(x, LAMBDA c : c \in Digit)
    IN [kind |-> "float", mant |-> DigitVals(md), frac |-> IF p = 0 THEN 0 ELSE Len(m) - p,
        eneg |-> neg, edigits |-> DigitVals(xd)]

(* ---- abstract layer: Python's grammar of numeric literals ---------------- *)
\* digitpart ::= digit (["_"] digit)*
PyDigitPart(t, set) ==
    /\ t # <<>> /\ t[1] \in set /\ t[Len(t)] \in set
    /\ \A k \in 1..Len(t) : t[k] \in set \cup {"_"}
    /\ \A k \in 1..(Len(t) - 1) : ~(t[k] = "_" /\ t[k + 1] = "_")
\* (["_"] digit)+
PyPrefDigits(t, set) ==
    /\ t # <<>> /\ t[Len(t)] \in set
    /\ \A k \in 1..Len(t) : t[k] \in set \cup {"_"}
    /\ \A k \in 1..(Len(t) - 1) : ~(t[k] = "_" /\ t[k + 1] = "_")
\* decinteger ::= nonzerodigit (["_"] digit)* | "0"+ (["_"] "0")*
PyDecInt(t) == \/ PyDigitPart(t, Digit) /\ t[1] \in NonZero
               \/ PyDigitPart(t, {"0"})
PyPrefInt(t, letters, set) ==
    Len(t) >= 3 /\ t[1] = "0" /\ t[2] \in letters /\ PyPrefDigits(SubSeq(t, 3, Len(t)), set)
PyInt(t) == \/ PyDecInt(t) \/ PyPrefInt(t, {"b", "B"}, BinDigit)
            \/ PyPrefInt(t, {"o", "O"}, OctDigit) \/ PyPrefInt(t, {"x", "X"}, HexDigit)
\* positional value: base and the digits, most significant first
PyIntValue(t) ==
    LET b == IF PyDecInt(t) THEN 10 ELSE IF t[2] \in {"b", "B"} THEN 2 ELSE IF t[2] \in {"o", "O"} THEN 8 ELSE 16
        body == IF b = 10 THEN t ELSE SubSeq(t, 3, Len(t))
        ds == SelectSeq(body, LAMBDA c : c \in HexDigit)
    IN [kind |-> "int", base |-> b, digits |-> [k \in 1..Len(ds) |-> DigitVal(ds[k])]]

\* pointfloat    ::= [digitpart] fraction | digitpart "."      fraction ::= "." digitpart
\* exponentfloat ::= (digitpart | pointfloat) exponent         exponent ::= ("e"|"E") ["+"|"-"] digitpart
PyPointFloat(t) ==
    \E p \in 1..Len(t) :
        /\ t[p] = "."
        /\ LET l == SubSeq(t, 1, p - 1)
               r == SubSeq(t, p + 1, Len(t))
           IN \/ (l = <<>> \/ PyDigitPart(l, Digit)) /\ PyDigitPart(r, Digit)
              \/ PyDigitPart(l, Digit) /\ r = <<>>
PyExponent(t) ==
    /\ Len(t) >= 2 /\ t[1] \in {"e", "E"}
    /\ LET r == IF t[2] \in {"+", "-"} THEN SubSeq(t, 3, Len(t)) ELSE SubSeq(t, 2, Len(t))
       IN PyDigitPart(r, Digit)
PyFloat(t) ==
    \/ PyPointFloat(t)
    \/ \E e \in 2..Len(t) :
          /\ PyExponent(SubSeq(t, e, Len(t)))
          /\ LET m == SubSeq(t, 1, e - 1) IN PyDigitPart(m, Digit) \/ PyPointFloat(m)
\* value = mantissa digits (point dropped) x 10^(exponent - digits after the point)
PyFloatValue(t) ==
    LET e   == FirstIn(t, {"e", "E"})
        m   == IF e = 0 THEN t ELSE SubSeq(t, 1, e - 1)
        p   == FirstIn(m, {"."})
        aft == IF p = 0 THEN <<>> ELSE SelectSeq(SubSeq(m, p + 1, Len(m)), LAMBDA c : c \in Digit)
        md  == SelectSeq(m, LAMBDA c : c \in Digit)
        xd  == IF e = 0 THEN <<>> ELSE SelectSeq(SubSeq(t, e + 1, Len(t)), LAMBDA c : c \in Digit)
    IN [kind |-> "float", mant |-> [k \in 1..Len(md) |-> DigitVal(md[k])], frac |-> Len(aft),
        eneg |-> (e # 0 /\ At(t, e + 1) = "-"), edigits |-> [k \in 1..Len(xd) |-> DigitVal(xd[k])]]

(* ---- the scanner as a state machine -------------------------------------- *)
Spellings == JsonDeserialize(IOEnv.SPELLINGS_FILE)

NumInit ==
    /\ toks = <<>> /\ pos = 1
    /\ IF FromFile THEN \E k \in 1..Len(Spellings) : src = Spellings[k] /\ phase = "lex"
       ELSE src = <<>> /\ phase = "grow"

Grow(c) ==
    /\ phase = "grow" /\ Len(src) < MaxLen
    /\ src' = Append(src, c)
    /\ UNCHANGED <<phase, pos, toks>>

StartLex ==
    /\ phase = "grow" /\ src # <<>>
    /\ phase' = "lex"
    /\ UNCHANGED <<src, pos, toks>>

Emit(type, end) ==
    /\ toks' = Append(toks, [type |-> type, from |-> pos, to |-> end])
    /\ pos' = end
    /\ UNCHANGED <<src, phase>>

Scanning == phase = "lex" /\ pos <= Len(src)
LexFloat    == Scanning /\ FloatEnd(src, pos) > pos /\ Emit("float", FloatEnd(src, pos))
LexInteger  == Scanning /\ FloatEnd(src, pos) = pos /\ IntEnd(src, pos) > pos /\ Emit("integer", IntEnd(src, pos))
LexName     == Scanning /\ FloatEnd(src, pos) = pos /\ IntEnd(src, pos) = pos /\ src[pos] \in Word
                        /\ Emit("name", WordEnd(src, pos))
LexOperator == Scanning /\ src[pos] \in OpChar /\ Emit("operator", pos + 1)

SingleNumber(s, ts) == Len(ts) = 1 /\ ts[1].type \in {"integer", "float"}
LexValue(s, ts) ==
    IF ~SingleNumber(s, ts) THEN [kind |-> "none"]
    ELSE IF ts[1].type = "integer" THEN IntOf(s) ELSE FloatOf(s)

NumFinish ==
    /\ phase = "lex" /\ pos > Len(src)
    /\ phase' = "done"
    /\ PrintT(ToJson([s |-> JoinStr(src), toks |-> toks, value |-> LexValue(src, toks)]))
    /\ UNCHANGED <<src, pos, toks>>

NumNext ==
    \/ \E c \in Alphabet : Grow(c)
    \/ StartLex \/ LexFloat \/ LexInteger \/ LexName \/ LexOperator \/ NumFinish

NumSpec == NumInit /\ [][NumNext]_vars

(* ---- properties ----------------------------------------------------------- *)
\* a spelling read as one number token is a Python literal of that kind and value
C14_SingleTokenValue ==
    phase = "done" /\ SingleNumber(src, toks) =>
        IF toks[1].type = "integer"
        THEN PyInt(src) /\ IntOf(src) = PyIntValue(src)
        ELSE PyFloat(src) /\ ~PyInt(src) /\ FloatOf(src) = PyFloatValue(src)

\* tokens tile the spelling: nothing is dropped or read twice, and the scanner never gets stuck
C14_NoSilentSplit ==
    /\ \A k \in 1..Len(toks) : toks[k].from < toks[k].to
                               /\ toks[k].from = (IF k = 1 THEN 1 ELSE toks[k - 1].to)
    /\ (toks # <<>> => toks[Len(toks)].to = pos)
    /\ (phase = "done" => pos = Len(src) + 1)
    /\ (phase = "lex" /\ pos <= Len(src) =>          \* some rule applies at every position
            \/ FloatEnd(src, pos) > pos \/ IntEnd(src, pos) > pos \/ src[pos] \in Word \/ src[pos] \in OpChar)

\* the float rule never steals a spelling Python reads as an integer, and a spelling
\* Python reads as an integer is read as that single integer
C14_PyIntsAreIntegers ==
    phase = "done" /\ PyInt(src) => SingleNumber(src, toks) /\ toks[1].type = "integer"

(* ======================================================================== *)
(* STRINGS                                                                  *)
(* ======================================================================== *)
(* class symbols (concretised by the harness):                              *)
(*   q  '      d  "      bs \      sp space     LF raw line feed            *)
(*   n  the letter n (escape: LF)       a  the letter a (escape: BEL; hex)  *)
(*   x u  the letters x u               g  a letter with no escape meaning  *)
(*   o0 o7  the octal digits 0 and 7    d9 the digit 9                      *)
(*   HH two hex digits, neither octal, the first not an escape letter       *)
(*   CR (internal) a raw carriage return written by _normalize_newlines     *)
(*   NA a non-ASCII character           NX (internal) the two hex digits    *)
(*                                         backslashreplace writes for NA   *)
Quote    == {"q", "d"}
Oct      == {"o0", "o7"}
Hex1     == {"o0", "o7", "d9", "a"}        \* symbols that are one hex digit
Hex2     == {"HH", "NX"}                    \* symbols that are two hex digits

Tag(s) == [k \in 1..Len(s) |-> [c |-> s[k], at |-> k]]
C(t, i) == IF i >= 1 /\ i <= Len(t) THEN t[i].c ELSE END

\* string_re:  '([^'\\]*(?:\\.[^'\\]*)*)'  -- index of the closing quote, 0 if there is none
RECURSIVE CloseAt(_, _, _)
CloseAt(s, i, qc) ==
    IF i > Len(s) THEN 0
    ELSE IF s[i] = "bs" THEN (IF i + 1 > Len(s) THEN 0 ELSE CloseAt(s, i + 2, qc))
    ELSE IF s[i] = qc THEN i
    ELSE CloseAt(s, i + 1, qc)

\* How many symbols starting at i make exactly n hex digits (0: not possible without
\* cutting a two-digit symbol, or not enough hex digits).
RECURSIVE HexSpan(_, _, _)
HexSpan(t, i, n) ==
    IF n = 0 THEN 0
    ELSE IF C(t, i) \in Hex1 THEN (IF n = 1 THEN 1 ELSE IF HexSpan(t, i + 1, n - 1) > 0 THEN 1 + HexSpan(t, i + 1, n - 1) ELSE 0)
    ELSE IF C(t, i) \in Hex2 /\ n >= 2 THEN (IF n = 2 THEN 1 ELSE IF HexSpan(t, i + 1, n - 2) > 0 THEN 1 + HexSpan(t, i + 1, n - 2) ELSE 0)
    ELSE 0
\* a two-digit symbol would be cut by an n-digit escape starting at i
RECURSIVE HexCut(_, _, _)
HexCut(t, i, n) ==
    IF n = 0 THEN FALSE
    ELSE IF C(t, i) \in Hex1 THEN HexCut(t, i + 1, n - 1)
    ELSE IF C(t, i) \in Hex2 THEN (n = 1 \/ HexCut(t, i + 1, n - 2))
    ELSE FALSE

OctSpan(t, i) == IF C(t, i + 1) \in Oct THEN (IF C(t, i + 2) \in Oct THEN 3 ELSE 2) ELSE 1

Ats(t, i, n) == [k \in 1..n |-> t[i + k - 1].at]

\* Decoding of escape sequences (Python language reference 2.4.1 = the
\* unicode-escape codec on ASCII text).  Result: sequence of units
\*   [k |-> "src", at]  the character at that position, verbatim
\*   [k |-> "ctl", name]  a control character
\*   [k |-> "oct" / "hex", ats]  the character whose code the digits at those positions spell
\*   [k |-> "error"]  malformed escape (truncated \x / \u)
\*   [k |-> "undetermined"]  outside what the documentation determines
RECURSIVE Units(_, _, _)
Units(t, i, to) ==
    IF i > to THEN <<>>
    ELSE IF C(t, i) = "CR" THEN <<[k |-> "ctl", name |-> "CR"]>> \o Units(t, i + 1, to)
    ELSE IF C(t, i) # "bs" THEN <<[k |-> "src", at |-> t[i].at]>> \o Units(t, i + 1, to)
    ELSE LET c == IF i + 1 <= to THEN C(t, i + 1) ELSE END
         IN CASE c = END -> <<[k |-> "error"]>>
              [] c = "LF" -> Units(t, i + 2, to)                                   \* backslash-newline is ignored
              [] c \in {"bs", "q", "d"} -> <<[k |-> "src", at |-> t[i + 1].at]>> \o Units(t, i + 2, to)
              [] c = "n" -> <<[k |-> "ctl", name |-> "LF"]>> \o Units(t, i + 2, to)
              [] c = "a" -> <<[k |-> "ctl", name |-> "BEL"]>> \o Units(t, i + 2, to)
              [] c \in Oct -> LET n == IF i + OctSpan(t, i + 1) <= to THEN OctSpan(t, i + 1)
                                       ELSE to - i
                              IN <<[k |-> "oct", ats |-> Ats(t, i + 1, n)]>> \o Units(t, i + 1 + n, to)
              [] c \in {"x", "u"} ->
                    LET n == IF c = "x" THEN 2 ELSE 4
                        w == HexSpan(t, i + 2, n)
                    IN IF HexCut(t, i + 2, n) THEN <<[k |-> "undetermined"]>>
                       ELSE IF w = 0 \/ i + 1 + w > to THEN <<[k |-> "error"]>>
                       ELSE <<[k |-> "hex", ats |-> Ats(t, i + 2, w)]>> \o Units(t, i + 2 + w, to)
              [] c = "NA" -> <<[k |-> "undetermined"]>>                             \* backslash + non-ASCII
              [] c = "CR" -> <<[k |-> "src", at |-> t[i].at], [k |-> "ctl", name |-> "CR"]>>
                              \o Units(t, i + 2, to)                               \* unknown escape, as written
              [] OTHER -> <<[k |-> "src", at |-> t[i].at], [k |-> "src", at |-> t[i + 1].at]>>
                              \o Units(t, i + 2, to)                               \* unknown escapes stay as written

\* abstract layer: Python reads the body as written
PyUnits(s, from, to) == Units(Tag(s), from, to)

\* operational layer: encode("ascii", "backslashreplace") turns a non-ASCII character
\* into the text \xNN (\uNNNN, \UNNNNNNNN likewise), then the same decoder runs
RECURSIVE Encode(_)
Encode(t) ==
    IF t = <<>> THEN <<>>
    ELSE IF Head(t).c = "NA"
         THEN <<[c |-> "bs", at |-> Head(t).at], [c |-> "x", at |-> Head(t).at], [c |-> "NX", at |-> Head(t).at]>> \o Encode(Tail(t))
         ELSE <<Head(t)>> \o Encode(Tail(t))
\* a numeric escape that spells exactly the code of the character it replaced *is* that character
Normal(us) == [k \in 1..Len(us) |->
                 IF us[k].k = "hex" /\ Len(us[k].ats) = 1 /\ \E j \in 1..Len(src) : src[j] = "NA" /\ us[k].ats[1] = j
                 THEN [k |-> "src", at |-> us[k].ats[1]] ELSE us[k]]

(* newline_sequence.  Lexer.wrap: _normalize_newlines(body) comes first - every raw   *)
(* line break of the body (the tokenizer has folded them all to a line feed) is       *)
(* replaced by the configured sequence - then encode / decode.                        *)
NewlineSeqs == {"n", "rn", "r"}
NlSyms(nl) == CASE nl = "n" -> <<"LF">> [] nl = "rn" -> <<"CR", "LF">> [] nl = "r" -> <<"CR">>
RECURSIVE NormalizeBreaks(_, _)
NormalizeBreaks(t, nl) ==
    IF t = <<>> THEN <<>>
    ELSE (IF Head(t).c = "LF" THEN [j \in 1..Len(NlSyms(nl)) |-> [c |-> NlSyms(nl)[j], at |-> Head(t).at]]
          ELSE <<Head(t)>>) \o NormalizeBreaks(Tail(t), nl)

\* (only the vacuity guard uses this: the replacement done on the DECODED value, where it
\* cannot tell a raw line break from a line feed that an escape sequence denotes)
NlUnits(nl) == CASE nl = "n" -> <<[k |-> "ctl", name |-> "LF"]>>
                 [] nl = "rn" -> <<[k |-> "ctl", name |-> "CR"], [k |-> "ctl", name |-> "LF"]>>
                 [] nl = "r" -> <<[k |-> "ctl", name |-> "CR"]>>
IsLfUnit(u) == (u.k = "ctl" /\ u.name = "LF") \/ (u.k = "src" /\ src[u.at] = "LF")
RECURSIVE ReplaceLf(_, _)
ReplaceLf(us, nl) ==
    IF us = <<>> THEN <<>>
    ELSE (IF IsLfUnit(Head(us)) THEN NlUnits(nl) ELSE <<Head(us)>>) \o ReplaceLf(Tail(us), nl)

PipeUnitsNl(s, from, to, nl) ==
    IF NormalizeFirst
    THEN LET e == Encode(NormalizeBreaks(SubSeq(Tag(s), from, to), nl)) IN Normal(Units(e, 1, Len(e)))
    ELSE LET e == Encode(SubSeq(Tag(s), from, to)) IN ReplaceLf(Normal(Units(e, 1, Len(e))), nl)
PipeUnits(s, from, to) == PipeUnitsNl(s, from, to, "n")

\* a raw line break inside the quotes is template syntax only (no Python spelling has one,
\* except backslash-newline), and it is the one thing newline_sequence is documented to
\* change: such spellings are judged under the default newline_sequence only
NoRawBreak(s) == \A j \in 1..Len(s) : s[j] # "LF"
JudgedUnder(s) == IF NoRawBreak(s) THEN <<"n", "rn", "r">> ELSE <<"n">>

Bad(us) == \E k \in 1..Len(us) : us[k].k \in {"error", "undetermined"}
Verdict(us) == IF \E k \in 1..Len(us) : us[k].k = "undetermined" THEN "undetermined"
               ELSE IF \E k \in 1..Len(us) : us[k].k = "error" THEN "error" ELSE "ok"

(* ---- scanner for an expression made of string literals -------------------- *)
StrInit == src = <<>> /\ phase = "grow" /\ pos = 1 /\ toks = <<>>

StrGrow(c) ==
    /\ phase = "grow" /\ Len(src) < MaxLen
    /\ (src = <<>> => c \in Quote)          \* spellings start with a quote
    /\ src' = Append(src, c)
    /\ UNCHANGED <<phase, pos, toks>>

LexSpace  == Scanning /\ src[pos] = "sp" /\ pos' = pos + 1 /\ UNCHANGED <<src, phase, toks>>
LexString == Scanning /\ src[pos] \in Quote /\ CloseAt(src, pos + 1, src[pos]) > 0
                      /\ Emit("string", CloseAt(src, pos + 1, src[pos]) + 1)
\* anything else (unbalanced quote, other tokens): not an expression of string literals
LexOther  == /\ Scanning /\ src[pos] # "sp" /\ ~(src[pos] \in Quote /\ CloseAt(src, pos + 1, src[pos]) > 0)
             /\ phase' = "done" /\ toks' = <<>> /\ UNCHANGED <<src, pos>>

RECURSIVE Concat(_, _)
Concat(s, ts) == IF ts = <<>> THEN <<>> ELSE PyUnits(s, ts[1].from + 1, ts[1].to - 2) \o Concat(s, Tail(ts))

StrFinish ==
    /\ phase = "lex" /\ pos > Len(src)
    /\ phase' = "done"
    /\ UNCHANGED <<src, pos, toks>>

\* an empty literal directly followed by a literal with the same quote character is the start
\* of a triple-quoted string in Python: not template syntax, nothing to compare with
TripleQuote(s, ts) ==
    \E k \in 1..(Len(ts) - 1) : ts[k].to - ts[k].from = 2 /\ ts[k + 1].from = ts[k].to /\ s[ts[k + 1].from] = s[ts[k].from]

StrReport ==
    /\ phase = "done" /\ toks # <<>>
    /\ phase' = "reported"
    /\ PrintT(ToJson([s |-> src, toks |-> toks,
                      verdict |-> IF TripleQuote(src, toks) THEN "undetermined" ELSE Verdict(Concat(src, toks)),
                      units |-> IF Bad(Concat(src, toks)) THEN <<>> ELSE Concat(src, toks),
                      nls |-> JudgedUnder(src)]))
    /\ UNCHANGED <<src, pos, toks>>

StrNext ==
    \/ \E c \in Alphabet : StrGrow(c)
    \/ StartLex \/ LexSpace \/ LexString \/ LexOther \/ StrFinish \/ StrReport

StrSpec == StrInit /\ [][StrNext]_vars

\* wherever Python defines the value, the lexer's pipeline computes the same value
C14_PipelineIsPythonDecoding ==
    phase = "done" =>
        \A k \in 1..Len(toks) :
            LET py == PyUnits(src, toks[k].from + 1, toks[k].to - 2)
                pp == PipeUnits(src, toks[k].from + 1, toks[k].to - 2)
            IN Verdict(py) = "ok" => pp = py
\* newline_sequence is about the line breaks of the template source: a literal without a raw
\* line break denotes the same value under every newline_sequence (in particular a line feed
\* written as \n, \x0a, \12 stays a line feed)
C14_EscapesIgnoreNewlineSequence ==
    phase = "done" /\ NoRawBreak(src) =>
        \A k \in 1..Len(toks) : \A nl \in NewlineSeqs :
            PipeUnitsNl(src, toks[k].from + 1, toks[k].to - 2, nl) = PipeUnits(src, toks[k].from + 1, toks[k].to - 2)
\* ... and where Python rejects an escape the pipeline does not invent a value
C14_PipelineRejectsWhatPythonRejects ==
    phase = "done" =>
        \A k \in 1..Len(toks) :
            LET py == PyUnits(src, toks[k].from + 1, toks[k].to - 2)
                pp == PipeUnits(src, toks[k].from + 1, toks[k].to - 2)
            IN Verdict(py) = "error" => Verdict(pp) = "error"
\* adjacent literals denote the concatenation of the parts, in order, nothing else
C14_AdjacentConcat ==
    phase = "done" /\ toks # <<>> =>
        /\ Len(Concat(src, toks)) >= 0
        /\ \A k \in 1..Len(toks) : src[toks[k].from] \in Quote /\ src[toks[k].to - 1] = src[toks[k].from]
        /\ \A k \in 1..(Len(toks) - 1) : \A j \in toks[k].to..(toks[k + 1].from - 1) : src[j] = "sp"
=============================================================================
