------------------------------ MODULE LoopCtx ------------------------------
(***************************************************************************)
(* The special `loop` variable of a Jinja for-loop (property C07).          *)
(*                                                                         *)
(* A for-loop is a stack of loop frames (height 1 for a plain loop, one    *)
(* more frame for every `loop(children)` call of a `recursive` loop).      *)
(*                                                                         *)
(* ABSTRACT LAYER (docs/templates.rst, "List of Control Structures / For") *)
(*   Items(f)   the items the loop visits = the source sequence restricted *)
(*              to the items that pass the loop filter                     *)
(*   Doc(f, lvl, q)  the documented value of attribute/helper q during the *)
(*              i-th iteration (i = number of items visited so far):       *)
(*              index = i, index0 = i-1, revindex = N-i+1, revindex0 = N-i,*)
(*              first = (i = 1), last = (i = N), length = N,               *)
(*              previtem / nextitem = neighbour item or undefined,         *)
(*              depth = nesting level of the recursive call (from 1),      *)
(*              cycle(a1..an) = a[(i-1) mod n], changed(v) = "previous     *)
(*              call had a different value, or there was no call"          *)
(*   else       the else branch runs iff Items(f) is empty                 *)
(*                                                                         *)
(* OPERATIONAL LAYER (shaped like jinja2.runtime.LoopContext /             *)
(* AsyncLoopContext and the code compiler.visit_For emits)                 *)
(*   rest      what the underlying iterator will still produce (unfiltered *)
(*             source items; the loop-filter generator `t_1(fiter)` skips  *)
(*             failing items on demand)                                    *)
(*   after     the peeked item `_after` (<<>> = missing)                   *)
(*   lenc      the lazily computed `_length` (-1 = None); for an iterable  *)
(*             without len() it drains the iterator into a list:           *)
(*             len(list(iterator)) + index + (after is not missing)        *)
(*   before / current / lastch / depth0 / index0   as in the class         *)
(*   ind       the compiler's iteration_indicator (1 until a body started) *)
(*   pulled / drained  how many source items have been taken from the      *)
(*             original iterable (only used for conformance statistics)    *)
(*                                                                         *)
(* Actions:  Advance(k)  __next__ / __anext__: yields item with key k or   *)
(*                       "Stop"                                            *)
(*           QInt/QBool/QItem/QStr(q, v)  attribute access / helper call q *)
(*                       returning v                                       *)
(*           Recurse     loop(current.children) of a recursive loop        *)
(*           EndBody     the body of one iteration is finished             *)
(*           Finish(e)   the loop statement ends; e = else branch ran      *)
(*                                                                         *)
(* TLC checks (C07_* below) that the operational layer yields the          *)
(* documented values in every reachable state under every order of         *)
(* queries, that queries never change the future item sequence, that every *)
(* item is visited exactly once in order, and that else runs iff no item   *)
(* passed the filter.  The harness replays the state graph on the real     *)
(* classes and compiles walks through it into real templates.              *)
(***************************************************************************)
EXTENDS Integers, Sequences, FiniteSets, TLC

CONSTANTS
    Vals,       \* item values (strings), e.g. {"a", "b", "c"}
    Sources,    \* set of loop inputs.  ~Trees: sequences over Vals.  Trees: forests
                \* [top |-> <<ids>>, tab |-> [id |-> [v |-> value, ch |-> <<child ids>>]]]
                \* whose items are node ids
    Kinds,      \* subset of {"sized", "unsized"}: does len(iterable) work
    Filters,    \* set of [on |-> BOOLEAN, pass |-> SUBSET Vals]; on = the loop has an `if` filter
    Trees,      \* BOOLEAN: items are tree nodes and the loop is `recursive`
    Keys,       \* all items: Vals when ~Trees, the node ids when Trees
    MaxLen,     \* upper bound on the length of any source sequence (range of integer results)
    Queries     \* query alphabet: <<"index">>, <<"length">>, <<"cycle", 2>>, <<"changed", "a">>, ...

VARIABLES source, filt, kind, stack, done

vars == <<source, filt, kind, stack, done>>

Stop == "Stop"
CycleArgs == <<"c1", "c2", "c3">>

NoFilter == [on |-> FALSE, pass |-> Vals]
AllFilters == {NoFilter} \cup {[on |-> TRUE, pass |-> P] : P \in SUBSET Vals}
FlatSources(n) == UNION {[1..k -> Vals] : k \in 0..n}
FlatSourcesOfLen(n) == [1..n -> Vals]
AllQueries ==
    {<<"index">>, <<"index0">>, <<"revindex">>, <<"revindex0">>, <<"first">>, <<"last">>,
     <<"length">>, <<"previtem">>, <<"nextitem">>, <<"depth">>, <<"depth0">>,
     <<"cycle", 1>>, <<"cycle", 2>>, <<"cycle", 3>>}
        \cup {<<"changed", x>> : x \in Vals}

V(x)   == IF Trees THEN source.tab[x].v ELSE x   \* the value the loop filter looks at
Key(x) == x                                      \* items are reported as themselves
TopSeq == IF Trees THEN source.top ELSE source   \* what the outermost loop iterates
Children(x) == source.tab[x].ch
Passes(x) == V(x) \in filt.pass
Filtered(s) == SelectSeq(s, Passes)

Top == stack[Len(stack)]
SetTop(f) == stack' = [stack EXCEPT ![Len(stack)] = f]

NewFrame(src, d) ==
    [src |-> src, rest |-> src, pulled |-> 0, drained |-> FALSE,
     index0 |-> -1, after |-> <<>>, lenc |-> -1, before |-> <<>>, current |-> <<>>,
     lastch |-> <<>>, depth0 |-> d, ind |-> 1, phase |-> "head",
     visited |-> <<>>, ghostch |-> <<>>]          \* the last two are ghosts (history)

(* ------------------------------------------------------------------------ *)
(* ABSTRACT LAYER                                                           *)
(* ------------------------------------------------------------------------ *)
Items(f) == Filtered(f.src)

Doc(f, lvl, q) ==
    LET its == Items(f)
        N   == Len(its)
        i   == Len(f.visited)              \* 1-based number of the current iteration
    IN CASE q[1] = "index"     -> i
         [] q[1] = "index0"    -> i - 1
         [] q[1] = "revindex"  -> N - i + 1
         [] q[1] = "revindex0" -> N - i
         [] q[1] = "first"     -> (i = 1)
         [] q[1] = "last"      -> (i = N)
         [] q[1] = "length"    -> N
         [] q[1] = "previtem"  -> IF i = 1 THEN <<>> ELSE <<Key(its[i - 1])>>   \* <<>> = undefined
         [] q[1] = "nextitem"  -> IF i = N THEN <<>> ELSE <<Key(its[i + 1])>>
         [] q[1] = "depth"     -> lvl
         [] q[1] = "depth0"    -> lvl - 1
         [] q[1] = "cycle"     -> CycleArgs[((i - 1) % q[2]) + 1]
         [] q[1] = "changed"   -> f.ghostch # <<q[2]>>

(* ------------------------------------------------------------------------ *)
(* OPERATIONAL LAYER                                                        *)
(* ------------------------------------------------------------------------ *)
RECURSIVE Skip(_)
\* the loop-filter generator: drop leading source items that fail the test
Skip(s) == IF s = <<>> THEN <<>> ELSE IF Passes(Head(s)) THEN s ELSE Skip(Tail(s))

\* next(self._iterator, missing)
PullOne(f) ==
    LET s == Skip(f.rest)
        taken == IF s = <<>> THEN Len(f.rest) ELSE Len(f.rest) - Len(s) + 1
    IN [item   |-> IF s = <<>> THEN <<>> ELSE <<Head(s)>>,
        rest   |-> IF s = <<>> THEN <<>> ELSE Tail(s),
        pulled |-> IF f.drained THEN f.pulled ELSE f.pulled + taken]

\* LoopContext._peek_next
Peek(f) ==
    IF f.after # <<>> THEN f
    ELSE LET p == PullOne(f)
         IN [f EXCEPT !.after = p.item, !.rest = p.rest, !.pulled = p.pulled]

\* LoopContext.length: value and new frame
LenEff(f) ==
    IF f.lenc # -1 THEN [val |-> f.lenc, f |-> f]
    ELSE IF kind = "sized"
         THEN [val |-> Len(f.src), f |-> [f EXCEPT !.lenc = Len(f.src)]]
         ELSE LET lst == Filtered(f.rest)        \* list(self._iterator)
                  n   == Len(lst) + (f.index0 + 1) + (IF f.after # <<>> THEN 1 ELSE 0)
              IN [val |-> n,
                  f   |-> [f EXCEPT !.lenc = n, !.rest = lst, !.drained = TRUE,
                                    !.pulled = IF f.drained THEN @ ELSE @ + Len(f.rest)]]

Oper(f, q) ==
    CASE q[1] = "index"     -> [val |-> f.index0 + 1, f |-> f]
      [] q[1] = "index0"    -> [val |-> f.index0, f |-> f]
      [] q[1] = "first"     -> [val |-> (f.index0 = 0), f |-> f]
      [] q[1] = "depth"     -> [val |-> f.depth0 + 1, f |-> f]
      [] q[1] = "depth0"    -> [val |-> f.depth0, f |-> f]
      [] q[1] = "length"    -> LenEff(f)
      [] q[1] = "revindex"  -> LET L == LenEff(f) IN [val |-> L.val - f.index0, f |-> L.f]
      [] q[1] = "revindex0" -> LET L == LenEff(f) IN [val |-> L.val - (f.index0 + 1), f |-> L.f]
      [] q[1] = "last"      -> LET g == Peek(f) IN [val |-> (g.after = <<>>), f |-> g]
      [] q[1] = "nextitem"  -> LET g == Peek(f)
                               IN [val |-> IF g.after = <<>> THEN <<>> ELSE <<Key(g.after[1])>>, f |-> g]
      [] q[1] = "previtem"  -> [val |-> IF f.index0 = 0 THEN <<>> ELSE <<Key(f.before[1])>>, f |-> f]
      [] q[1] = "cycle"     -> [val |-> CycleArgs[(f.index0 % q[2]) + 1], f |-> f]
      [] q[1] = "changed"   -> [val |-> (f.lastch # <<q[2]>>),
                                f   |-> [f EXCEPT !.lastch = <<q[2]>>, !.ghostch = <<q[2]>>]]

Init ==
    /\ source \in Sources
    /\ filt \in Filters
    /\ kind \in Kinds
    /\ (filt.on => kind = "unsized")        \* a filtered loop iterates a generator
    /\ stack = <<NewFrame(TopSeq, 0)>>
    /\ done = FALSE

\* LoopContext.__next__ as driven by the compiled `for` statement
Advance(k) ==
    /\ ~done /\ Top.phase = "head"
    /\ LET f == Top
           p == PullOne(f)
           got == IF f.after # <<>> THEN f.after ELSE p.item
           g == IF f.after # <<>> THEN [f EXCEPT !.after = <<>>]
                ELSE [f EXCEPT !.rest = p.rest, !.pulled = p.pulled]
       IN IF got = <<>>
          THEN /\ k = Stop
               /\ SetTop([g EXCEPT !.phase = "stopped"])
          ELSE /\ k = Key(got[1])
               /\ SetTop([g EXCEPT !.index0 = @ + 1, !.before = f.current, !.current = got,
                                   !.visited = Append(@, got[1]), !.phase = "body",
                                   !.ind = 0])       \* body starts: `iteration_indicator = 0`
    /\ UNCHANGED <<source, filt, kind, done>>

\* One action per result type so that TLC labels every edge with the returned value:
\* QInt(<<"length">>, 3), QBool(<<"last">>, FALSE), QItem(<<"nextitem">>, <<"b">>) (<<>> = undefined),
\* QStr(<<"cycle", 2>>, "c1").
IntQ  == {<<"index">>, <<"index0">>, <<"revindex">>, <<"revindex0">>, <<"length">>, <<"depth">>, <<"depth0">>}
BoolQ == {<<"first">>, <<"last">>} \cup {<<"changed", x>> : x \in Vals}
ItemQ == {<<"previtem">>, <<"nextitem">>}
StrQ  == {<<"cycle", n>> : n \in 1..3}
IntRange == -1..(MaxLen + 1)
OptKeys  == {<<>>} \cup {<<k>> : k \in Keys}
CycleVals == {CycleArgs[i] : i \in 1..3}

Query(q, v) ==
    /\ ~done /\ Top.phase = "body"
    /\ LET r == Oper(Top, q) IN v = r.val /\ SetTop(r.f)
    /\ UNCHANGED <<source, filt, kind, done>>

QInt(q, v)  == Query(q, v)
QBool(q, v) == Query(q, v)
QItem(q, v) == Query(q, v)
QStr(q, v)  == Query(q, v)

\* {{ loop(item.children) }}: LoopContext.__call__ -> loop(reciter, loop_render_func, depth=self.depth)
Recurse ==
    /\ Trees /\ ~done /\ Top.phase = "body"
    /\ stack' = Append(stack, NewFrame(Children(Top.current[1]), Top.depth0 + 1))
    /\ UNCHANGED <<source, filt, kind, done>>

\* end of the loop body (the indicator was already cleared when the body started, so that
\* leaving the body early cannot make the else branch run)
EndBody ==
    /\ ~done /\ Top.phase = "body"
    /\ SetTop([Top EXCEPT !.phase = "head"])
    /\ UNCHANGED <<source, filt, kind, done>>

\* after the for statement: `if iteration_indicator: <else branch>`; a recursive call returns
Finish(e) ==
    /\ ~done /\ Top.phase = "stopped"
    /\ e = (Top.ind = 1)
    /\ IF Len(stack) = 1
       THEN done' = TRUE /\ SetTop([Top EXCEPT !.phase = "finished"])
       ELSE done' = done /\ stack' = SubSeq(stack, 1, Len(stack) - 1)
    /\ UNCHANGED <<source, filt, kind>>

Progress == (\E k \in Keys \cup {Stop} : Advance(k)) \/ EndBody \/ (\E e \in BOOLEAN : Finish(e))

Next ==
    \/ \E k \in Keys \cup {Stop} : Advance(k)
    \/ \E q \in Queries \cap IntQ, v \in IntRange : QInt(q, v)
    \/ \E q \in Queries \cap BoolQ, v \in BOOLEAN : QBool(q, v)
    \/ \E q \in Queries \cap ItemQ, v \in OptKeys : QItem(q, v)
    \/ \E q \in Queries \cap StrQ, v \in CycleVals : QStr(q, v)
    \/ Recurse
    \/ EndBody
    \/ \E e \in BOOLEAN : Finish(e)

SpecSafety == Init /\ [][Next]_vars
Spec == Init /\ [][Next]_vars /\ WF_vars(Progress)

(* ------------------------------------------------------------------------ *)
(* PROPERTIES                                                               *)
(* ------------------------------------------------------------------------ *)
Levels == 1..Len(stack)
IsPrefix(a, b) == Len(a) <= Len(b) /\ a = SubSeq(b, 1, Len(a))
Future(f) == Filtered(f.after \o f.rest)   \* what later Advance steps will yield

TypeOK ==
    /\ done \in BOOLEAN /\ Len(stack) >= 1
    /\ \A l \in Levels :
         LET f == stack[l] IN
         /\ f.index0 \in -1..Len(f.src) /\ Len(f.after) <= 1 /\ f.lenc \in -1..Len(f.src)
         /\ f.phase \in {"head", "body", "stopped", "finished"} /\ f.ind \in {0, 1}
         /\ f.pulled \in 0..Len(f.src)

\* every item that passes the filter is visited exactly once, in order
C07_ItemsInOrderOnce ==
    \A l \in Levels :
        LET f == stack[l] IN
        /\ IsPrefix(f.visited, Items(f))
        /\ f.visited \o Future(f) = Items(f)
        /\ (f.phase \in {"stopped", "finished"} => f.visited = Items(f))
        /\ f.index0 = Len(f.visited) - 1

\* every attribute has its documented value, whatever was queried before
C07_Attrs ==
    \A l \in Levels :
        stack[l].phase = "body" =>
            \A q \in AllQueries : Oper(stack[l], q).val = Doc(stack[l], l, q)

\* the peek and length caches are what they claim to be
C07_CachesConsistent ==
    \A l \in Levels :
        LET f == stack[l] IN
        /\ (f.lenc # -1 => f.lenc = Len(Items(f)))
        /\ (f.after # <<>> => f.after[1] = Items(f)[Len(f.visited) + 1])
        /\ f.lastch = f.ghostch
        /\ (f.index0 >= 1 => f.before = <<Items(f)[f.index0]>>)
        /\ (f.index0 >= 0 => f.current = <<Items(f)[f.index0 + 1]>>)

\* without a length query the loop context looks ahead at most one passing item
C07_LookaheadAtMostOne ==
    \A l \in Levels :
        LET f == stack[l] IN
        ~f.drained => Len(Filtered(SubSeq(f.src, 1, f.pulled))) <= Len(f.visited) + 1

\* depth counts the nesting of recursive calls from 1
C07_Depth == \A l \in Levels : stack[l].depth0 = l - 1

\* the else branch runs exactly when no item passed the loop filter
C07_ElseIffNone ==
    \A l \in Levels :
        stack[l].phase = "stopped" => ((stack[l].ind = 1) <=> (Items(stack[l]) = <<>>))

\* a step that is not an Advance (query, recursion into children, end of body) never
\* changes which items the loop will still visit - at any level that survives the step
C07_QueriesDoNotChangeItems ==
    [][\A l \in 1..Len(stack) :
          (l <= Len(stack') /\ stack'[l].visited = stack[l].visited)
              => Future(stack'[l]) = Future(stack[l])]_vars

C07_Terminates == <>done
=============================================================================
