------------------------------ MODULE LRULin ------------------------------
(***************************************************************************)
(* Trace validation for concurrent LRUCache histories recorded from the    *)
(* real code under the controlled thread scheduler (property C26).         *)
(*                                                                         *)
(* A history is a set of operations with call index c, return index d,     *)
(* arguments and observed result, plus the initial content and the final   *)
(* items() observation.  It is accepted iff some total order of the        *)
(* operations that respects real-time precedence (x.d < y.c => x before y) *)
(* is explained by the sequential meaning LRU!Apply -- the verdict does    *)
(* not depend on how the implementation achieves atomicity.                *)
(*                                                                         *)
(* Many histories are validated per TLC run: `tid` picks the history.      *)
(***************************************************************************)
EXTENDS Naturals, Sequences, FiniteSets, TLC, Json, IOUtils

CONSTANTS Keys, Vals, Cap, NoVal, MaxHist

Hs == JsonDeserialize(IOEnv.TRACE_FILE)

VARIABLES tid, done, m, o

L == INSTANCE LRU WITH mapping <- m, order <- o, ret <- done, hist <- tid

vars == <<tid, done, m, o>>

RECURSIVE Fill(_, _, _)
Fill(mm, oo, items) ==
    IF items = <<>> THEN [m |-> mm, o |-> oo]
    ELSE LET i == L!Insert(mm, oo, items[1][1], items[1][2]) IN Fill(i.m, i.o, Tail(items))

Ops(t) == Hs[t].ops

Init ==
    /\ tid \in 1..Len(Hs)
    /\ done = {}
    /\ LET f == Fill([k \in Keys |-> NoVal], <<>>, Hs[tid].init) IN m = f.m /\ o = f.o

Lin(i) ==
    /\ i \notin done
    /\ \A j \in (1..Len(Ops(tid))) \ (done \cup {i}) : ~(Ops(tid)[j].d < Ops(tid)[i].c)
    /\ LET a == L!Apply(m, o, Ops(tid)[i].op) IN
       /\ a.r = Ops(tid)[i].r
       /\ m' = a.m
       /\ o' = a.o
    /\ done' = done \cup {i}
    /\ UNCHANGED tid

Next == \E i \in 1..Len(Ops(tid)) : Lin(i)

Spec == Init /\ [][Next]_vars

\* a complete linearization whose final state shows the recorded final items()
Accepting ==
    /\ done = 1..Len(Ops(tid))
    /\ L!Apply(m, o, <<"keys">>).r = <<"items", Hs[tid].final>>

\* register 1 collects the ids of accepted histories (single worker)
Collect ==
    IF Accepting THEN TLCSet(1, TLCGet(1) \cup {tid}) ELSE TRUE

ASSUME TLCSet(1, {})

Post ==
    LET rejected == (1..Len(Hs)) \ TLCGet(1) IN
    /\ PrintT(<<"REJECTED", rejected>>)
    /\ TRUE
=============================================================================
