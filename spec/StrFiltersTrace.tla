-------------------------- MODULE StrFiltersTrace --------------------------
(***************************************************************************)
(* code -> spec validation for property C23 (records: see FTrace).         *)
(*  text filters   inp = S(text), args by name, out = S(text) / I(n)       *)
(*  replace        inp / old / new = S or M, x.ae = autoescape setting      *)
(*  format         args a1 .. an (n <= 3): scalars, tuples ("t"), lists     *)
(*  wordwrap       relation WrapOK                                         *)
(*  int / float    inp = class label ("c"), x.text = the text of a small   *)
(*                 numeric string or NoneV, x.milli = exact value of a     *)
(*                 small numeric input in thousandths or NoneV             *)
(*  round          inp / out = "f" values (thousandths), name = method     *)
(*  filesizeformat inp = I(bytes), out = S(text)                           *)
(*  urlencode      inp = S(text) | an int / bool / none / "f" float scalar |*)
(*                 D / L of pairs whose keys and values are such values    *)
(* Every record is validated on its own: a contract is a function of the   *)
(* input and the arguments alone, so a result that depends on what the     *)
(* process did before (the harness visits ==-equal values of different     *)
(* type one after the other) is rejected at the record where it shows.     *)
(***************************************************************************)
EXTENDS StrFilters, FTrace

VARIABLES tid, rej

Txt(r) == r.inp.v
A(r) == r.args

\* format: the positional arguments a1 .. an in order
ArgName(k) == CASE k = 1 -> "a1" [] k = 2 -> "a2" [] k = 3 -> "a3"
FormatArgs(r) == [k \in 1..Cardinality(DOMAIN A(r)) |-> A(r)[ArgName(k)]]

\* replace: the text the replacement works on / with, as ReplaceV chooses it
ReplSafe(r) == r.x.ae.v /\ AnySafe(r.inp, A(r).old, A(r).new)
ReplText(r, a) == IF ReplSafe(r) THEN EscapeV(a).v ELSE StrOf(a)

ExpectedText(r) ==
    CASE r.f = "truncate" -> S(Truncate(Txt(r), A(r).length.v, A(r).killwords.v, A(r).end.v, A(r).leeway.v))
      [] r.f = "indent" -> S(Indent(Txt(r), IndentWidth(A(r).width), A(r).first.v, A(r).blank.v))
      [] r.f = "center" -> S(Center(Txt(r), A(r).width.v))
      [] r.f = "trim" -> S(Trim(Txt(r), IF A(r).chars.t = "n" THEN <<>> ELSE A(r).chars.v))
      [] r.f = "title" -> S(Title(Txt(r)))
      [] r.f = "capitalize" -> S(Capitalize(Txt(r)))
      [] r.f = "upper" -> S(UpperS(Txt(r)))
      [] r.f = "lower" -> S(LowerS(Txt(r)))
      [] r.f = "replace" -> ReplaceV(r.x.ae.v, r.inp, A(r).old, A(r).new, A(r).count.v)
      [] r.f = "wordcount" -> I(WordCount(Txt(r)))
      [] r.f = "format" -> FormatV(Txt(r), FormatArgs(r))
      [] r.f = "striptags" -> S(StripTags(Txt(r)))
      [] r.f = "urlencode" -> S(IF IsStr(r.inp) THEN UrlQuote(Txt(r))
                                ELSE IF IsScalarV(r.inp) THEN UrlQuote(UrlTextOf(r.inp))
                                ELSE IF r.inp.t = "d" THEN UrlEncodePairs(r.inp.v)
                                ELSE UrlEncodePairs([k \in 1..Len(r.inp.v) |-> r.inp.v[k].v]))

IsTextFilter(f) == f \in {"truncate", "indent", "trim", "title", "capitalize", "upper", "lower", "replace",
                          "wordcount", "format", "striptags", "urlencode"}

C23_Text(r) ==
    /\ VEq(r.out, ExpectedText(r))
    /\ r.f = "truncate" => TruncateBounded(Txt(r), A(r).length.v, A(r).leeway.v, r.out.v)
    /\ r.f = "indent" => IndentOnlyInserts(Txt(r), IndentWidth(A(r).width), r.out.v)
    /\ r.f = "urlencode" => r.out.t = "s" /\ UrlClean(r.out.v)
    /\ r.f = "replace" => /\ r.out.t = (IF ReplSafe(r) THEN "m" ELSE "s")
                          /\ ReplaceCountOK(ReplText(r, r.inp), StrOf(A(r).old), ReplText(r, A(r).new),
                                            A(r).count.v, r.out.v)

C23_Center(r) == r.out.t = "s" /\ CenterOK(Txt(r), A(r).width.v, r.out.v)

C23_Wrap(r) ==
    /\ r.out.t = "s"
    /\ WrapOK(Txt(r), A(r).width.v, A(r).breaklong.v, <<cLF>>, r.out.v)

\* int / float: never an exception; the default exactly when no conversion exists
C23_Int(r) ==
    IF IntConv(r.inp.v, A(r).base.v) = "default" THEN VEq(r.out, A(r).default)
    ELSE /\ r.out.t = "i" \/ (r.out.t = "c" /\ r.out.v = "hugeint")
         /\ r.x.text.t # "n" => VEq(r.out, I(IntOfText(r.x.text.v, A(r).base.v)))
         /\ r.x.milli.t # "n" => VEq(r.out, I(TruncToInt(r.x.milli.v)))
         /\ r.inp.v \in {"hugeint", "hugestr"} => r.out.t = "c"

C23_Float(r) ==
    IF FloatConv(r.inp.v) = "default" THEN VEq(r.out, A(r).default)
    ELSE /\ r.out.t = "f" \/ (r.out.t = "c" /\ r.out.v \in {"float:inf", "float:-inf", "float:nan", "float:other"})
         /\ r.x.text.t # "n" => VEq(r.out, [t |-> "f", v |-> MilliOfText(r.x.text.v)])
         /\ r.x.milli.t # "n" => VEq(r.out, [t |-> "f", v |-> r.x.milli.v])
         /\ r.inp.v \in {"inf", "infstr", "hugestr"} => r.out.t = "c" /\ r.out.v \in {"float:inf", "float:-inf"}
         /\ r.inp.v \in {"nan", "nanstr"} => r.out.t = "c" /\ r.out.v = "float:nan"

C23_Round(r) == r.out.t = "f" /\ RoundOK(r.name, A(r).precision.v, r.inp.v, r.out.v)

C23_FileSize(r) == r.out.t = "s" /\ FileSizeOK(r.inp.v, A(r).binary.v, r.out.v)

Contract(r) ==
    /\ ArgsIntact(r)
    /\ CASE IsTextFilter(r.f) -> C23_Text(r)
         [] r.f = "center" -> C23_Center(r)
         [] r.f = "wordwrap" -> C23_Wrap(r)
         [] r.f = "int" -> C23_Int(r)
         [] r.f = "float" -> C23_Float(r)
         [] r.f = "round" -> C23_Round(r)
         [] r.f = "filesizeformat" -> C23_FileSize(r)

Why(r) ==
    IF ~ArgsIntact(r) THEN "args-modified"
    ELSE IF r.out.t = "x" THEN "raised"
    ELSE "result"

Expected(r) ==
    CASE IsTextFilter(r.f) -> ExpectedText(r)
      [] r.f = "center" -> S(Center(Txt(r), A(r).width.v))
      [] r.f = "int" /\ IntConv(r.inp.v, A(r).base.v) = "default" -> A(r).default
      [] r.f = "float" /\ FloatConv(r.inp.v) = "default" -> A(r).default
      [] OTHER -> S(<<>>)

Init == tid = 0 /\ rej = <<>>

Step ==
    /\ tid < NRecs
    /\ tid' = tid + 1
    /\ LET r == RecAt(tid + 1)
       IN rej' = IF Contract(r) THEN rej
                 ELSE Append(rej, [id |-> tid + 1, why |-> Why(r), expected |-> Expected(r)])
    /\ (tid + 1 = NRecs) => PrintT(ToJson([rejected |-> rej']))

Spec == Init /\ [][Step]_<<tid, rej>>
=============================================================================
