-------------------------- MODULE SeqFiltersTrace --------------------------
(***************************************************************************)
(* code -> spec validation for property C22.                               *)
(*                                                                         *)
(* The harness ran the REAL jinja2 filters (through rendered templates and *)
(* Environment.call_filter, sync and async environments, inputs as list /  *)
(* tuple / generator / async generator) and recorded one JSON record per   *)
(* distinct observation:                                                   *)
(*   f     filter name           name   item-filter / test / "by" name     *)
(*   inp   input value before    inp2   the same object after the call     *)
(*   args  arguments before      args2  the same objects after the call    *)
(*   out   what the filter returned (materialised) or X(exception class)   *)
(*   x     alias / inp3: identity of a list result and the input after the *)
(*         result was mutated (see C22_ResultFresh)                        *)
(* Every record is a one-step trace: Step consumes record tid+1 and        *)
(* evaluates Contract on it.  Rejected records are collected with the      *)
(* reason and the result the specification expects, and printed as JSON    *)
(* when the last record has been consumed.                                 *)
(***************************************************************************)
EXTENDS SeqFilters, FTrace

VARIABLES tid, rej

Expected(r) ==
    LET s == r.inp.v
        a == r.args
    IN CASE r.f = "batch"   -> L(Batch(s, a.n.v, a.fill))
         [] r.f = "slice"   -> L(Slice(s, a.n.v, a.fill))
         [] r.f = "unique"  -> L(Unique(s, a.cs.v, a.attr))
         [] r.f = "groupby" -> L(GroupBy(s, a.attr, a.dflt, a.cs.v))
         [] r.f = "sort"    -> L(Sort(s, a.rev.v, a.cs.v, a.attr))
         [] r.f = "dictsort" -> L(DictSort(s, a.cs.v, r.name, a.rev.v))
         [] r.f = "reverse" -> ReverseOf(r.inp)
         [] r.f = "first"   -> First(ListOf(r.inp))
         [] r.f = "last"    -> Last(ListOf(r.inp))
         [] r.f = "min"     -> MinOf(s, a.cs.v, a.attr)
         [] r.f = "max"     -> MaxOf(s, a.cs.v, a.attr)
         [] r.f = "sum"     -> Sum(s, a.attr, a.start)
         [] r.f = "join"    -> Join(ListOf(r.inp), a.d, a.attr)
         [] r.f \in {"length", "count"} -> LengthOf(r.inp)
         [] r.f = "list"    -> L(ListOf(r.inp))
         [] r.f = "map"     -> L(Map(s, r.name, a.attr, a.dflt))
         [] r.f = "select"  -> L(SelectBy(s, NoneV, r.name, a.arg, TRUE))
         [] r.f = "reject"  -> L(SelectBy(s, NoneV, r.name, a.arg, FALSE))
         [] r.f = "selectattr" -> L(SelectBy(s, a.attr, r.name, a.arg, TRUE))
         [] r.f = "rejectattr" -> L(SelectBy(s, a.attr, r.name, a.arg, FALSE))

C22_ResultOK(r) == VEq(r.out, Expected(r))
C22_ArgsUnmodified(r) == ArgsIntact(r)
\* Object identity of the result (SeqFilters!BuildsNewList, modelled in SeqCalls.tla): when the
\* result object is a mutable list the harness records  x.alias = "the result IS the input
\* object"  and  x.inp3 = the input after a probe item was appended to the result.
C22_ResultFresh(r) ==
    ("alias" \in DOMAIN r.x /\ BuildsNewList(r.f)) =>
        /\ ~r.x.alias.v
        /\ VEq(r.x.inp3, r.inp)
Contract(r) == C22_ResultOK(r) /\ C22_ArgsUnmodified(r) /\ C22_ResultFresh(r)

\* classification of a rejected record (the fingerprint of known findings)
Why(r) ==
    IF C22_ResultOK(r) THEN (IF C22_ArgsUnmodified(r) THEN "result-aliases-input" ELSE "args-modified")
    ELSE IF r.f = "slice" /\ r.args.fill.t # "n" /\ Len(r.inp.v) % r.args.n.v = 0
            /\ VEq(r.out, L(SliceEvenFillQuirk(r.inp.v, r.args.n.v, r.args.fill)))
         THEN "slice-fill-nothing-missing"
    ELSE "result"

Init == tid = 0 /\ rej = <<>>

Step ==
    /\ tid < NRecs
    /\ tid' = tid + 1
    /\ LET r == RecAt(tid + 1)
       IN rej' = IF Contract(r) THEN rej
                 ELSE Append(rej, [id |-> tid + 1, why |-> Why(r), expected |-> Expected(r)])
    /\ (tid + 1 = NRecs) => PrintT(ToJson([rejected |-> rej']))

Spec == Init /\ [][Step]_<<tid, rej>>

\* every record of the batch is consumed
AllConsumed == <>(tid = NRecs)
=============================================================================
