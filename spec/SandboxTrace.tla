---------------------------- MODULE SandboxTrace ----------------------------
(***************************************************************************)
(* Trace validation (code -> spec) for C17, C18, C19: event traces         *)
(* recorded while the REAL engine renders generated sandboxed templates    *)
(* must be behaviours of SandboxGate.                                      *)
(*                                                                         *)
(* IOEnv.TRACE_FILE is a JSON array of traces                              *)
(*   [env, policy, path: [[k, a, how] ...], callables: [[unsafe, alters,   *)
(*    name, denied, recv] ...], ev: [event ...]]                           *)
(* (C18: one `callables` entry per call the template was built to make --  *)
(* the marks of the called object as they were when that render started)   *)
(* every event is a record with the same fields                            *)
(*   e   "fetch" | "gate" | "deliver" | "use" | "recv" | "callgate" | "ran"*)
(*       | "changed" | "ins" | "end" | "begin"                             *)
(*   o   data object number (0 = not a tracked object)                     *)
(*   k   kind of the object (ObjKinds), container kind for "changed",      *)
(*       base class for "ins" ("internal" | "template" | "unknown")        *)
(*   a   attribute name record [n, c1, c2]                                 *)
(*   v   value id (tracer number; 0 = opaque), callable number for         *)
(*       "callgate" / "ran"                                                *)
(*   how "attr" | "item"                                                   *)
(*   ok  verdict of the gate / "the delivered value is defined"            *)
(*   s   "use": which operation; "recv": "undef" | "empty" | "value";      *)
(*       "ins": "attr" | "sub" | "slice"; "end": "ok" or the exception     *)
(*                                                                         *)
(* Where the events come from (harness/jv/sandbox_util.py):                *)
(*   fetch     probe data objects log every read of a designated name      *)
(*   gate      the environment subclass overrides is_safe_attribute only   *)
(*             to log super()'s verdict                                    *)
(*   deliver   ... and getattr / getitem only to log what super() returned *)
(*   use       tracer values log every operation performed on them         *)
(*   recv      the template hands its result to a recording sink           *)
(*   callgate  is_safe_callable override logging super()'s verdict         *)
(*   ran       recording callables                                         *)
(*   changed   deep comparison of the containers after the render          *)
(*   ins       one per Attribute / Subscript node of the generated Python  *)
(*             code of the template (structural part of C17)               *)
(*   end       the driver, after a render: how it ended                    *)
(*   begin     the driver, before every render but the first one on the    *)
(*             same environment                                            *)
(*                                                                         *)
(* `tid` picks the trace, `l` is the next event.  A trace is ACCEPTED when *)
(* all its events were consumed; where a trace gets stuck TLC prints       *)
(* <<"STUCK", tid, l>> -- the event the specification does not allow.      *)
(***************************************************************************)
EXTENDS SandboxGate, Json, IOUtils

Traces == JsonDeserialize(IOEnv.TRACE_FILE)

VARIABLES tid, l

tvars == <<tid, l>>

H == Traces[tid]
Ev == H.ev[l]
More == l <= Len(H.ev)

V(n) == IF n = 0 THEN Opaque ELSE <<n>>     \* value id of an event

CallableRec(i) == [id |-> i, unsafe |-> H.callables[i].unsafe,
                   alters |-> H.callables[i].alters, name |-> H.callables[i].name,
                   denied |-> H.callables[i].denied, recv |-> H.callables[i].recv]

(* the access path the template wrote, walked on the data by plain Python: one
   step per attribute-like lookup with the kind of the object it is applied to *)
PathForbidden ==
    \E i \in 1..Len(H.path) : H.path[i].how = "attr" /\ Forbidden(H.path[i].k, H.path[i].a)

(* kinds on which obj[name] can succeed, so that a value may arrive without a gate *)
SubscriptKinds == {"dict", "list", "deque", "str", "other"}

TrInit ==
    /\ tid \in 1..Len(Traces)
    /\ l = 1
    /\ conf = [env |-> H.env, impl |-> "abstract", policy |-> H.policy, icept |-> {}, multi |-> TRUE]
    /\ InitGate

Adv == l' = l + 1 /\ UNCHANGED tid

Same == pend.st # "none" /\ pend.o = Ev.o /\ pend.a = Ev.a

TrFetch == Ev.e = "fetch" /\ Fetch(Ev.o, Ev.k, Ev.a, V(Ev.v), Ev.how)

TrGate ==
    /\ Ev.e = "gate"
    /\ IF pend.st = "fetched" /\ Same /\ pend.how = "attr"
       THEN Gate(Ev.ok)
       ELSE GateFresh(Ev.o, Ev.k, Ev.a, V(Ev.v), Ev.ok)

(* what environment.getattr / getitem returned *)
TrDeliver ==
    /\ Ev.e = "deliver"
    /\ IF Ev.ok
       THEN IF Same /\ (pend.st = "gated" \/ pend.how = "item")
            THEN Deliver                  \* guarded by the verdict
            ELSE \* a defined value without a gate: only an item of a subscriptable object
                 /\ Running
                 /\ Ev.k \in SubscriptKinds
                 /\ V(Ev.v) \notin tainted
                 /\ handed' = IF Ev.v # 0 THEN handed \cup {V(Ev.v)} ELSE handed
                 /\ pend' = NoPend
                 /\ UNCHANGED <<conf, tainted, used, granted, ran, data, changed, hookLog, apps, outcome, steps>>
       ELSE IF pend.st # "none" THEN DeliverUndefined ELSE UNCHANGED vars

TrUse == Ev.e = "use" /\ Use(V(Ev.v))

(* the sink: the template passes on what its access path produced *)
TrRecv ==
    /\ Ev.e = "recv"
    /\ PathForbidden => Ev.s # "value"
    /\ IF Ev.v # 0 THEN Use(V(Ev.v)) ELSE UNCHANGED vars

TrCallGate == Ev.e = "callgate" /\ CallGate(CallableRec(Ev.v), Ev.ok)

(* observation of Run: what ran must not be unsafe (whether or not it was asked for) *)
TrRan ==
    /\ Ev.e = "ran"
    /\ Running
    /\ ~UnsafeCallable(Policy, CallableRec(Ev.v))
    /\ ran' = ran \cup {Ev.v}
    /\ granted' = granted \ {Ev.v}
    /\ UNCHANGED <<conf, pend, tainted, handed, used, data, changed, hookLog, apps, outcome, steps>>

(* observation of Run's effect on a container: impossible in the immutable sandbox *)
TrChanged ==
    /\ Ev.e = "changed"
    /\ Env # "immutable"
    /\ changed' = changed \cup {Ev.k}
    /\ UNCHANGED <<conf, pend, tainted, handed, used, granted, ran, data, hookLog, apps, outcome, steps>>

(* generated code: a direct Attribute / Subscript on a template-derived value is
   only allowed for slices *)
TrIns ==
    /\ Ev.e = "ins"
    /\ Ev.k = "template" => Ev.s = "slice"
    /\ UNCHANGED vars

TrEnd ==
    /\ Ev.e = "end"
    /\ outcome # "none" => Ev.s = outcome       \* a refused call surfaces as SecurityError
    /\ UNCHANGED vars

(* the same environment renders again *)
TrBegin == Ev.e = "begin" /\ NewRender

Step == TrFetch \/ TrGate \/ TrDeliver \/ TrUse \/ TrRecv \/ TrCallGate \/ TrRan
        \/ TrChanged \/ TrIns \/ TrEnd \/ TrBegin

TrNext == More /\ Step /\ Adv

TrSpec == TrInit /\ [][TrNext]_<<vars, tvars>>

(* register 1 collects accepted traces (run with -workers 1) *)
ASSUME TLCSet(1, {})

Collect ==
    IF ~More THEN TLCSet(1, TLCGet(1) \cup {tid})
    ELSE IF ~ENABLED TrNext THEN PrintT(<<"STUCK", tid, l>>)
    ELSE TRUE

Post ==
    /\ PrintT(ToJson([rejected |-> (1..Len(Traces)) \ TLCGet(1), total |-> Len(Traces)]))
    /\ TRUE

(* the ghost invariants hold along every accepted prefix as well *)
TrInv == C17_NoTaintedUse /\ (Env = "immutable" => changed = {})
=============================================================================
