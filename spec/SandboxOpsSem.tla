---------------------------- MODULE SandboxOpsSem ----------------------------
(***************************************************************************)
(* Semantics of arithmetic expressions of a sandboxed template under an    *)
(* operator configuration (properties C20; used by SandboxOps and          *)
(* SandboxOpsEnvs).  No state: only operators.                             *)
(*                                                                         *)
(* An operator configuration `sub` is what ONE environment holds:          *)
(*   sub.b, sub.u    the intercepted binary / unary operators              *)
(*   sub.tb, sub.tu  its callback tables: operator -> callback number      *)
(*                   (0 = the builtin operator, k > 0 = callback k of the  *)
(*                   harness: native result + 1000 * k)                    *)
(* Every application of an operator that is EXECUTED (short-circuit and    *)
(* conditional expressions skip operands) is appended to `apps`:           *)
(*   h = TRUE   the operator is intercepted: the application goes through  *)
(*              the hook and yields what the callback the environment      *)
(*              holds for it returns (`tag` = that callback)               *)
(*   h = FALSE  the native operator, no hook event                         *)
(* Constants are not special: there is no compile-time evaluation in the   *)
(* semantics, so an intercepted operator between two literals is routed to *)
(* the hook like any other.                                                *)
(*                                                                         *)
(* Values are integers with a flag `f` = "is a Python float" (true         *)
(* division produces floats; only exact quotients are explored so that     *)
(* every value is integral and printable without rounding questions).      *)
(* Expressions: [t |-> "c", v] constant, [t |-> "v", n] variable,          *)
(*   [t |-> "b", op, l, r], [t |-> "u", op, e], [t |-> "if", c, a, b],      *)
(*   [t |-> "and" | "or", l, r].   Cases: [id, w, e, vars, items] with      *)
(*   w = "once"  the expression is evaluated once          {{ E }}          *)
(*       "twice" evaluated at two separate times           macro default    *)
(*       "loop"  evaluated for every item with i bound     loop filter      *)
(***************************************************************************)
EXTENDS Integers, Sequences, FiniteSets, TLC

SetOf(s) == {s[k] : k \in 1..Len(s)}

BinOps == {"+", "-", "*", "/", "//", "%", "**"}
UnOps == {"+", "-"}

Val(n, f) == [n |-> n, f |-> f]
Big(x) == x.n > 30000 \/ x.n < -30000
Truthy(x) == x.n # 0

(* Python's floor division and modulo, written for either sign of the divisor
   (TLC's \div is only relied upon for a positive divisor) *)
FloorDiv(a, b) == IF b > 0 THEN a \div b ELSE (-a) \div (-b)
Mod(a, b) == a - b * FloorDiv(a, b)

RECURSIVE Pow(_, _)
Pow(a, b) == IF b = 0 THEN 1 ELSE a * Pow(a, b - 1)

(* the native operators: [v, st], st = "ok" | "ZeroDivisionError" | "skip" (outside
   the explored value space: inexact quotient, negative exponent, large numbers,
   float zero whose sign would matter) *)
NativeBin(op, a, b) ==
    LET f == a.f \/ b.f
        R(n, ff) == IF ff /\ n = 0 THEN [v |-> Val(0, ff), st |-> "skip"]
                    ELSE [v |-> Val(n, ff), st |-> "ok"]
    IN  IF Big(a) \/ Big(b) THEN [v |-> a, st |-> "skip"]
        ELSE CASE op = "+"  -> R(a.n + b.n, f)
               [] op = "-"  -> R(a.n - b.n, f)
               [] op = "*"  -> R(a.n * b.n, f)
               [] op = "/"  -> IF b.n = 0 THEN [v |-> a, st |-> "ZeroDivisionError"]
                               ELSE IF Mod(a.n, b.n) # 0 THEN [v |-> a, st |-> "skip"]
                               ELSE R(FloorDiv(a.n, b.n), TRUE)
               [] op = "//" -> IF b.n = 0 THEN [v |-> a, st |-> "ZeroDivisionError"]
                               ELSE R(FloorDiv(a.n, b.n), f)
               [] op = "%"  -> IF b.n = 0 THEN [v |-> a, st |-> "ZeroDivisionError"]
                               ELSE R(Mod(a.n, b.n), f)
               [] op = "**" -> IF b.n < 0 \/ b.n > 6 \/ a.n > 30 \/ a.n < -30
                               THEN [v |-> a, st |-> "skip"]
                               ELSE R(Pow(a.n, b.n), f)

NativeUn(op, a) ==
    IF Big(a) THEN [v |-> a, st |-> "skip"]
    ELSE IF op = "-" THEN [v |-> Val(0 - a.n, a.f), st |-> "ok"]
    ELSE [v |-> a, st |-> "ok"]

(* the callbacks of the conformance harness: callback number `tag` computes the native
   result and adds 1000 * tag (tag 0 = the builtin operator itself) *)
Perturb(x, tag) == Val(x.n + 1000 * tag, x.f)

(* one executed application: appended to `apps` with the flag h = "went through the hook"
   and, when it did, the callback it reached there: the one THIS environment holds for
   the operator (sub.tb / sub.tu) *)
ApplyBin(op, a, b, sub, apps) ==
    LET h == op \in sub.b
        tag == IF h THEN sub.tb[op] ELSE 0
        apps2 == Append(apps, [op |-> op, u |-> FALSE, l |-> a, r |-> b, h |-> h, tag |-> tag])
        nat == NativeBin(op, a, b)
    IN  IF nat.st # "ok" THEN [v |-> a, apps |-> apps2, st |-> nat.st]
        ELSE [v |-> IF h THEN Perturb(nat.v, tag) ELSE nat.v, apps |-> apps2, st |-> "ok"]

ApplyUn(op, a, sub, apps) ==
    LET h == op \in sub.u
        tag == IF h THEN sub.tu[op] ELSE 0
        apps2 == Append(apps, [op |-> op, u |-> TRUE, l |-> a, r |-> a, h |-> h, tag |-> tag])
        nat == NativeUn(op, a)
    IN  IF nat.st # "ok" THEN [v |-> a, apps |-> apps2, st |-> nat.st]
        ELSE [v |-> IF h THEN Perturb(nat.v, tag) ELSE nat.v, apps |-> apps2, st |-> "ok"]

RECURSIVE Ev(_, _, _, _)
Ev(e, env, sub, apps) ==
    CASE e.t = "c" -> [v |-> Val(e.v, FALSE), apps |-> apps, st |-> "ok"]
      [] e.t = "v" -> [v |-> Val(env[e.n], FALSE), apps |-> apps, st |-> "ok"]
      [] e.t = "b" ->
           LET L == Ev(e.l, env, sub, apps) IN
           IF L.st # "ok" THEN L
           ELSE LET R == Ev(e.r, env, sub, L.apps) IN
                IF R.st # "ok" THEN R ELSE ApplyBin(e.op, L.v, R.v, sub, R.apps)
      [] e.t = "u" ->
           LET A == Ev(e.e, env, sub, apps) IN
           IF A.st # "ok" THEN A ELSE ApplyUn(e.op, A.v, sub, A.apps)
      [] e.t = "if" ->
           LET C == Ev(e.c, env, sub, apps) IN
           IF C.st # "ok" THEN C
           ELSE IF Truthy(C.v) THEN Ev(e.a, env, sub, C.apps) ELSE Ev(e.b, env, sub, C.apps)
      [] e.t = "and" ->
           LET L == Ev(e.l, env, sub, apps) IN
           IF L.st # "ok" \/ ~Truthy(L.v) THEN L ELSE Ev(e.r, env, sub, L.apps)
      [] e.t = "or" ->
           LET L == Ev(e.l, env, sub, apps) IN
           IF L.st # "ok" \/ Truthy(L.v) THEN L ELSE Ev(e.r, env, sub, L.apps)

(* loop filter: evaluate for every item, keep the items whose value is true *)
RECURSIVE Loop(_, _, _, _, _, _)
Loop(e, env, sub, items, apps, out) ==
    IF items = <<>> THEN [out |-> out, apps |-> apps, st |-> "ok"]
    ELSE LET R == Ev(e, [env EXCEPT !.i = Head(items)], sub, apps) IN
         IF R.st # "ok" THEN [out |-> out, apps |-> R.apps, st |-> R.st]
         ELSE Loop(e, env, sub, Tail(items), R.apps,
                   IF Truthy(R.v) THEN Append(out, Val(Head(items), FALSE)) ELSE out)

RunCase(c, sub) ==
    IF c.w = "loop" THEN Loop(c.e, c.vars, sub, c.items, <<>>, <<>>)
    ELSE LET R1 == Ev(c.e, c.vars, sub, <<>>) IN
         IF R1.st # "ok" \/ c.w = "once"
         THEN [out |-> IF R1.st = "ok" THEN <<R1.v>> ELSE <<>>, apps |-> R1.apps, st |-> R1.st]
         ELSE LET R2 == Ev(c.e, c.vars, sub, R1.apps) IN
              [out |-> IF R2.st = "ok" THEN <<R1.v, R2.v>> ELSE <<R1.v>>, apps |-> R2.apps, st |-> R2.st]

HookLog(r) == SelectSeq(r.apps, LAMBDA a : a.h)

NoRes == [out |-> <<>>, apps |-> <<>>, st |-> "none"]

(* the hook sees all and only the executed applications of intercepted operators *)
AllAndOnlyIntercepted(r, sub) ==
    \A k \in 1..Len(r.apps) :
        r.apps[k].h = (IF r.apps[k].u THEN r.apps[k].op \in sub.u ELSE r.apps[k].op \in sub.b)
=============================================================================
