----------------------------- MODULE Undefined -----------------------------
(***************************************************************************)
(* Property C21: undefined values behave as documented, for every          *)
(* undefined type.                                                         *)
(*                                                                         *)
(* ABSTRACT LAYER  = the documented operation table                        *)
(*   Result(base, origin, op, side, other)                                 *)
(* written from the class docstrings of jinja2.runtime (Undefined,         *)
(* ChainableUndefined, DebugUndefined, StrictUndefined,                    *)
(* make_logging_undefined), docs/api.rst "Undefined Types",                *)
(* docs/templates.rst "Variables" and the `defined` / `undefined` tests    *)
(* and the `default` filter:                                               *)
(*   - default type: "can be printed, iterated, and treated as a boolean.  *)
(*     Any other operation will raise an UndefinedError" (plus len, in,    *)
(*     ==, !=, hash which the engine relies on and CHANGES documents);     *)
(*   - chainable: "both __getattr__ and __getitem__ return itself rather   *)
(*     than raising";  `foo.bar['baz'] + 42` fails with "'foo' is          *)
(*     undefined";                                                         *)
(*   - debug: "returns the debug info when printed": str(foo)='{{ foo }}'; *)
(*   - strict: "barks on print and iteration as well as boolean tests and  *)
(*     all kinds of comparisons ... you can do nothing with it except      *)
(*     checking if it's defined using the `defined` test";                 *)
(*   - logging: the base behaviour + "It will log iterations and           *)
(*     printing";                                                          *)
(*   - defined / undefined tests and the default filter work on every      *)
(*     type; copy / deepcopy / pickle give back an equivalent undefined;   *)
(*   - two undefined values are equal exactly when they are of the same    *)
(*     undefined type: undefined values hash by their type ("properly      *)
(*     hashing undefined objects", CHANGES 2.8) and equal objects must     *)
(*     have equal hashes (Python data model), so values of two different   *)
(*     undefined types are never equal.  Two types meet in ordinary        *)
(*     templates: `{{ 'foo' if bar }}` without else "always returns        *)
(*     Undefined ... regardless of the environment's undefined class"      *)
(*     (CHANGES 2.11).                                                     *)
(*                                                                         *)
(* STATE MACHINE = chains of operations `x.p['q'][0] + 1`: the state is    *)
(* the kind of the current value (still the undefined / finished), the     *)
(* accesses applied so far and the outcome of the final operation.         *)
(*                                                                         *)
(* OPERATIONAL LAYER = Python's special-method dispatch over the class     *)
(* bodies (which dunder every class body assigns, and whether to           *)
(* `_fail_with_undefined_error` or to an own function).  The bodies are a  *)
(* CONSTANT: the harness reads them off the real classes, so TLC checks    *)
(* that the *code's* method tables, pushed through Python's protocol       *)
(* rules, give the documented table (C21_BodiesRefineTable).               *)
(***************************************************************************)
EXTENDS Naturals, Sequences, FiniteSets, TLC, Json

CONSTANTS MaxDepth,     \* number of accesses that may precede the final operation
          DeepOthers,   \* other operands used for binary operations after >= 1 access
          Emit,         \* TRUE: every case is printed as a JSON line (for the replay on the real code)
          Bodies        \* class name -> [fail |-> set of dunders bound to _fail_with_undefined_error,
                        \*                own  |-> set of dunders with an own function]

Bases   == {"Undefined", "Chainable", "Debug", "Strict"}
Origins == {"name", "attr", "item_str", "item_int", "hint"}
Others  == {"int", "float", "str", "list", "none", "undef"}   \* "undef": a second missing name `y` (same type)
\* A second undefined value that need not be of the same undefined type:
\*   "u_<B>"  a missing name `y` of an environment whose undefined type is the plain type <B>;
\*   "noelse" the value of an inline if-expression without else whose test is false, evaluated
\*            in the very environment under test: always the default type.
Foreign     == {"u_Undefined", "u_Chainable", "u_Debug", "u_Strict", "noelse"}
UndefOthers == {"undef"} \cup Foreign
\* the undefined type (base, logging wrapper) of such an operand
OtherBase(base, other) ==
    CASE other = "undef"       -> base
      [] other = "u_Undefined" -> "Undefined"
      [] other = "u_Chainable" -> "Chainable"
      [] other = "u_Debug"     -> "Debug"
      [] other = "u_Strict"    -> "Strict"
      [] other = "noelse"      -> "Undefined"
OtherLogging(logging, other) == other = "undef" /\ logging
SameType(base, logging, other) ==
    other \in UndefOthers /\ OtherBase(base, other) = base /\ OtherLogging(logging, other) = logging
\* what an undefined value hashes by: its type
HashKey(b, l) == <<b, l>>

AccessOps  == {"getattr", "getitem_str", "getitem_int"}
PrintOps   == {"print"}
LenientOps == {"print", "bool", "not", "iter", "aiter", "len", "contains", "in_list", "hash", "eq", "ne"}
AlwaysOps  == {"defined", "undefined", "default", "default_bool", "copy", "deepcopy", "pickle"}
UnaryFail  == {"pos", "neg", "int", "float", "complex", "call"}
CmpOps     == {"lt", "le", "gt", "ge"}
ArithOps   == {"add", "sub", "mul", "truediv", "floordiv", "mod", "pow"}
BinaryOps  == {"eq", "ne"} \cup CmpOps \cup ArithOps
UnaryOps   == (LenientOps \ {"eq", "ne"}) \cup AlwaysOps \cup UnaryFail \cup AccessOps
Ops        == UnaryOps \cup BinaryOps

(* ------------------------------------------------------------------------ *)
(* Abstract layer: the documented table                                     *)
(* ------------------------------------------------------------------------ *)

\* Input shapes whose outcome the documentation does not determine.
\*  - `"s" % u`: Python gives the left operand (str formatting) the first and
\*    final word, the undefined is never asked;
\*  - pickling an instance of the class made by make_logging_undefined (a
\*    function-local class, not importable by name).
\*  - `v == s` / `v != s` with a strict undefined `s` to the right of a non-strict undefined
\*    `v` of a type StrictUndefined does not derive from (anything but the plain default type):
\*    again Python gives the left operand the first and final word (`v` answers "not my type"),
\*    the strict operand is never asked.  (`s == v`, and `v == s` for a `v` of the plain
\*    default type - StrictUndefined is a subclass of it and is therefore asked first - are
\*    determined: strict barks.)
StrictRightOfSibling(b, logging, op, side, other) ==
    /\ op \in {"eq", "ne"} /\ other \in Foreign
    /\ LET ob == OtherBase(b, other)
           lb == IF side = "l" THEN b ELSE ob                 \* the type of the left operand ...
           ll == IF side = "l" THEN logging ELSE FALSE
           rb == IF side = "l" THEN ob ELSE b                 \* ... and the base of the right one
       IN rb = "Strict" /\ lb # "Strict" /\ ~(lb = "Undefined" /\ ~ll)
Determined(b, logging, op, side, other) ==
    /\ ~(op = "mod" /\ side = "r" /\ other = "str")
    /\ ~(op = "pickle" /\ logging)
    /\ ~StrictRightOfSibling(b, logging, op, side, other)

\* strict "barks on ... all kinds of comparisons": also when it is the other operand
StrictOperand(base, op, other) == op \in BinaryOps /\ other \in Foreign /\ OtherBase(base, other) = "Strict"

Succeeds(base, op, other) ==
    \/ op \in AlwaysOps
    \/ base # "Strict" /\ op \in LenientOps /\ ~StrictOperand(base, op, other)
    \/ base = "Chainable" /\ op \in AccessOps

ValueOf(base, logging, op, other) ==
    CASE op = "print"                       -> IF base = "Debug" THEN "debug_str" ELSE "empty_str"
      [] op = "bool"                        -> "false"
      [] op = "not"                         -> "true"
      [] op \in {"iter", "aiter"}           -> "empty_iter"
      [] op = "len"                         -> "zero"
      [] op \in {"contains", "in_list"}     -> "false"
      [] op = "hash"                        -> "class_hash"
      [] op = "eq"                          -> IF SameType(base, logging, other) THEN "true" ELSE "false"
      [] op = "ne"                          -> IF SameType(base, logging, other) THEN "false" ELSE "true"
      [] op = "defined"                     -> "false"
      [] op = "undefined"                   -> "true"
      [] op \in {"default", "default_bool"} -> "default_value"
      [] op \in {"copy", "deepcopy", "pickle"} -> "equivalent_undefined"
      [] op \in AccessOps                   -> "self"

\* Whose origin the error message names.  With two undefined operands Python
\* asks the left one first, the documentation does not say: either is fine.
Blames(op, other) == IF op \in BinaryOps /\ other \in UndefOthers THEN "either" ELSE "self"

\* What the message must say about the origin of the undefined value:
\* <<mode, fragment>>; "exact" is the documented "'foo' is undefined" form and
\* the hint given to environment.undefined(hint).
VarName  == "x"
AttrName == "a"
KeyName  == "k"
IntKey   == "3"
HintText == "custom hint h1 for the missing thing"
Names(origin) ==
    CASE origin = "name"     -> [mode |-> "exact",    frag |-> "'" \o VarName \o "' is undefined"]
      [] origin = "attr"     -> [mode |-> "contains", frag |-> "'" \o AttrName \o "'"]
      [] origin = "item_str" -> [mode |-> "contains", frag |-> "'" \o KeyName \o "'"]
      [] origin = "item_int" -> [mode |-> "contains", frag |-> IntKey]
      [] origin = "hint"     -> [mode |-> "exact",    frag |-> HintText]

\* debug printing: '{{ foo }}' is documented for a missing name, otherwise
\* "the debug info" = something that names the origin
DebugText(origin) ==
    IF origin = "name" THEN [mode |-> "exact", frag |-> "{{ " \o VarName \o " }}"]
    ELSE [mode |-> "contains", frag |-> Names(origin).frag]

NoText == [mode |-> "none", frag |-> ""]

LogReq(logging, op) ==
    IF ~logging THEN "none"
    ELSE IF op \in {"print", "iter", "aiter"} THEN "required" ELSE "unspecified"

Result(base, logging, origin, op, side, other) ==
    IF Succeeds(base, op, other)
    THEN [kind |-> IF op \in AccessOps THEN "self" ELSE "value",
          val  |-> ValueOf(base, logging, op, other),
          blame |-> "nobody",
          msg  |-> Names(origin),
          shown |-> IF ValueOf(base, logging, op, other) = "debug_str" THEN DebugText(origin) ELSE NoText,
          log  |-> LogReq(logging, op)]
    ELSE [kind |-> "raises",
          val  |-> "UndefinedError",
          blame |-> Blames(op, other),
          msg  |-> Names(origin),
          shown |-> NoText,
          log  |-> LogReq(logging, op)]

(* ------------------------------------------------------------------------ *)
(* Operational layer: Python protocol dispatch over the class bodies        *)
(* ------------------------------------------------------------------------ *)

MRO(base, logging) ==
    (IF logging THEN <<"Logging">> ELSE <<>>)
        \o (IF base = "Undefined" THEN <<>> ELSE <<base>>) \o <<"Undefined">>

\* behaviour of the functions the class bodies define themselves
OwnBehaviour(cls, m) ==
    CASE cls = "Undefined" /\ m = "__getattr__" -> "guard_fail"    \* dunder -> AttributeError, else fail
      [] cls = "Undefined" /\ m = "__eq__"      -> "same_class"
      [] cls = "Undefined" /\ m = "__ne__"      -> "not_eq"        \* not self.__eq__(other)
      [] cls = "Undefined" /\ m = "__hash__"    -> "class_hash"
      [] cls = "Undefined" /\ m = "__str__"     -> "empty_str"
      [] cls = "Undefined" /\ m = "__len__"     -> "zero"
      [] cls = "Undefined" /\ m = "__iter__"    -> "empty_iter"
      [] cls = "Undefined" /\ m = "__aiter__"   -> "empty_iter"
      [] cls = "Undefined" /\ m = "__bool__"    -> "false"
      [] cls = "Chainable" /\ m = "__getattr__" -> "guard_self"
      [] cls = "Chainable" /\ m = "__getitem__" -> "self"
      [] cls = "Chainable" /\ m = "__html__"    -> "str_self"
      [] cls = "Debug"     /\ m = "__str__"     -> "debug_str"
      [] cls = "Logging"   /\ m \in {"__str__", "__iter__", "__aiter__", "__bool__"} -> "log_super"
      [] OTHER -> "unknown"

Body(cls, m) ==
    IF m \in Bodies[cls].fail THEN "fail"
    ELSE IF m \in Bodies[cls].own THEN OwnBehaviour(cls, m)
    ELSE "absent"

\* attribute lookup along the MRO; a "log_super" body logs and delegates
RECURSIVE Find(_, _, _)
Find(mro, m, logged) ==
    IF mro = <<>> THEN [beh |-> "absent", logged |-> logged]
    ELSE LET b == Body(Head(mro), m)
         IN IF b = "absent" THEN Find(Tail(mro), m, logged)
            ELSE IF b = "log_super" THEN Find(Tail(mro), m, TRUE)
            ELSE [beh |-> b, logged |-> logged]

Dunder(op) ==
    CASE op = "add" -> "__add__" [] op = "sub" -> "__sub__" [] op = "mul" -> "__mul__"
      [] op = "truediv" -> "__truediv__" [] op = "floordiv" -> "__floordiv__"
      [] op = "mod" -> "__mod__" [] op = "pow" -> "__pow__"
      [] op = "lt" -> "__lt__" [] op = "le" -> "__le__" [] op = "gt" -> "__gt__" [] op = "ge" -> "__ge__"
      [] op = "eq" -> "__eq__" [] op = "ne" -> "__ne__"
      [] op = "pos" -> "__pos__" [] op = "neg" -> "__neg__" [] op = "int" -> "__int__"
      [] op = "float" -> "__float__" [] op = "complex" -> "__complex__" [] op = "call" -> "__call__"
      [] op = "print" -> "__str__" [] op = "len" -> "__len__" [] op = "iter" -> "__iter__"
      [] op = "aiter" -> "__aiter__" [] op = "hash" -> "__hash__" [] op = "bool" -> "__bool__"
      [] op = "not" -> "__bool__" [] op = "contains" -> "__contains__"
      [] op \in {"getitem_str", "getitem_int"} -> "__getitem__"
      [] op = "getattr" -> "__getattr__"
      [] OTHER -> "none"

Reflected(m) ==
    CASE m = "__add__" -> "__radd__" [] m = "__sub__" -> "__rsub__" [] m = "__mul__" -> "__rmul__"
      [] m = "__truediv__" -> "__rtruediv__" [] m = "__floordiv__" -> "__rfloordiv__"
      [] m = "__mod__" -> "__rmod__" [] m = "__pow__" -> "__rpow__"
      [] m = "__lt__" -> "__gt__" [] m = "__le__" -> "__ge__" [] m = "__gt__" -> "__lt__" [] m = "__ge__" -> "__le__"
      [] OTHER -> m      \* __eq__ / __ne__ are their own reflection

\* The method Python ends up calling on the undefined operand.  The other
\* operands used here (int, float, str, list, None) answer NotImplemented to
\* every binary operator with a foreign right operand (except `str % x`, not
\* Determined), so the reflected method of the undefined is used; with two
\* undefined operands the left one's forward method is.
MethodFor(op, side, other) ==
    IF op \in BinaryOps /\ side = "r" /\ other \notin UndefOthers THEN Reflected(Dunder(op)) ELSE Dunder(op)

\* Two undefined operands `v == w` / `v != w`: Python asks the left operand first, unless the
\* type of the right one is a proper subclass of the type of the left one - then the right one
\* is asked first.  Neither body answers NotImplemented, so whoever is asked first decides.
\* (The types here form chains, so "proper subclass" is "its MRO properly ends with the other MRO".)
ProperSubtype(sub, sup) ==
    /\ Len(sub) > Len(sup)
    /\ SubSeq(sub, Len(sub) - Len(sup) + 1, Len(sub)) = sup
AskedFirst(mro, omro, side) ==
    LET left  == IF side = "l" THEN mro ELSE omro
        right == IF side = "l" THEN omro ELSE mro
    IN IF ProperSubtype(right, left) THEN right ELSE left

OpOutcome(base, logging, op, side, other) ==
    LET mro == MRO(base, logging)
        \* the operand whose method decides ==, != (the undefined itself unless the other is one, too)
        amro == IF op \in {"eq", "ne"} /\ other \in UndefOthers
                THEN AskedFirst(mro, MRO(OtherBase(base, other), OtherLogging(logging, other)), side)
                ELSE mro
        f   == Find(amro, MethodFor(op, side, other), FALSE)
        eq  == Find(amro, "__eq__", FALSE)
        ga  == Find(mro, "__getattr__", FALSE)
        V(v, l) == [kind |-> "value", val |-> v, logged |-> l]
        Rz(l)   == [kind |-> "raises", val |-> "UndefinedError", logged |-> l]
        Unk     == [kind |-> "unknown", val |-> "?", logged |-> FALSE]
        EqVal(b) == IF b = "same_class" THEN (IF SameType(base, logging, other) THEN "true" ELSE "false") ELSE "?"
    IN
    CASE op \in {"defined", "undefined", "default", "default_bool"} ->
            \* isinstance(value, Undefined): no method of the value is involved
            V(ValueOf(base, logging, op, other), FALSE)
      [] op \in {"copy", "deepcopy", "pickle"} ->
            \* the protocols probe dunder attributes with getattr(); they work iff the
            \* probe is answered with AttributeError (the guard), then object's defaults apply
            IF ga.beh \in {"guard_fail", "guard_self"} THEN V("equivalent_undefined", FALSE) ELSE Unk
      [] op = "getattr" ->
            CASE ga.beh = "guard_fail" -> Rz(ga.logged) [] ga.beh = "guard_self" -> [kind |-> "self", val |-> "self", logged |-> ga.logged]
              [] ga.beh = "fail" -> Rz(ga.logged) [] OTHER -> Unk
      [] op \in {"getitem_str", "getitem_int"} ->
            CASE f.beh = "fail" -> Rz(f.logged) [] f.beh = "self" -> [kind |-> "self", val |-> "self", logged |-> f.logged] [] OTHER -> Unk
      [] op \in {"bool", "not"} ->
            \* __bool__, else __len__, else true
            LET g == IF f.beh = "absent" THEN Find(mro, "__len__", FALSE) ELSE f
            IN CASE g.beh = "fail" -> Rz(g.logged)
                 [] g.beh \in {"false", "zero"} -> V(IF op = "bool" THEN "false" ELSE "true", g.logged)
                 [] OTHER -> Unk
      [] op = "contains" ->
            \* __contains__, else iteration
            LET g == IF f.beh = "absent" THEN Find(mro, "__iter__", FALSE) ELSE f
            IN CASE g.beh = "fail" -> Rz(g.logged) [] g.beh = "empty_iter" -> V("false", g.logged) [] OTHER -> Unk
      [] op = "in_list" ->
            \* list.__contains__ compares `1 == u`: int answers NotImplemented, u.__eq__(1) decides
            CASE eq.beh = "fail" -> Rz(eq.logged) [] eq.beh = "same_class" -> V("false", eq.logged) [] OTHER -> Unk
      [] op = "eq" ->
            CASE f.beh = "fail" -> Rz(f.logged) [] f.beh = "same_class" -> V(EqVal(f.beh), f.logged) [] OTHER -> Unk
      [] op = "ne" ->
            CASE f.beh = "fail" -> Rz(f.logged)
              [] f.beh = "not_eq" ->
                    (CASE eq.beh = "fail" -> Rz(eq.logged)
                       [] eq.beh = "same_class" -> V(IF EqVal(eq.beh) = "true" THEN "false" ELSE "true", eq.logged)
                       [] OTHER -> Unk)
              [] OTHER -> Unk
      [] OTHER ->
            CASE f.beh = "fail" -> Rz(f.logged)
              [] f.beh \in {"empty_str", "debug_str", "zero", "empty_iter", "class_hash"} -> V(f.beh, f.logged)
              [] OTHER -> Unk

(* ------------------------------------------------------------------------ *)
(* State machine for chains of operations                                   *)
(* ------------------------------------------------------------------------ *)

VARIABLES base, logging, origin,   \* which undefined value the chain starts from
          path,                    \* accesses applied so far (each returned the undefined itself)
          cur,                     \* "undef": the current value is still the undefined / "done"
          last,                    \* the final operation [op, side, other]
          res                      \* its documented outcome

vars == <<base, logging, origin, path, cur, last, res>>

NoOp  == [op |-> "none", side |-> "l", other |-> "none"]
NoRes == [kind |-> "none", val |-> "none", blame |-> "nobody", msg |-> NoText, shown |-> NoText, log |-> "none"]

Init ==
    /\ base \in Bases /\ logging \in BOOLEAN /\ origin \in Origins
    /\ path = <<>> /\ cur = "undef" /\ last = NoOp /\ res = NoRes

\* an access that hands back the undefined itself: the chain goes on
Access(a) ==
    /\ cur = "undef" /\ Len(path) < MaxDepth
    /\ Result(base, logging, origin, a, "l", "none").kind = "self"
    /\ path' = Append(path, a)
    /\ UNCHANGED <<base, logging, origin, cur, last, res>>

\* a second undefined of another type is offered to == and != (the operations that do not
\* simply fail), for the undefined a missing thing gives directly
OthersAt(op) ==
    IF op \in BinaryOps
    THEN (IF path = <<>> THEN Others \cup (IF op \in {"eq", "ne"} THEN Foreign ELSE {}) ELSE DeepOthers)
    ELSE {"none"}
SidesOf(op)  == IF op \in BinaryOps THEN {"l", "r"} ELSE {"l"}

\* the final operation of the chain (an access may be final, too)
Final(op, side, other) ==
    /\ cur = "undef"
    /\ Determined(base, logging, op, side, other)
    /\ cur' = "done"
    /\ last' = [op |-> op, side |-> side, other |-> other]
    /\ res' = Result(base, logging, origin, op, side, other)
    /\ Emit => PrintT(ToJson([base |-> base, logging |-> logging, origin |-> origin, path |-> path,
                              op |-> op, side |-> side, other |-> other, res |-> res']))
    /\ UNCHANGED <<base, logging, origin, path>>

\* Control group: the defined / undefined tests and the default filter applied to
\* values that are NOT undefined ("return true if the variable is defined"; "if the
\* value is undefined it will return the passed default value, otherwise the value of
\* the variable"; with the second parameter true, also for values that are false).
DefinedKinds == {"none", "zero", "empty_str", "empty_list", "false", "one", "text", "object"}
FalsyKinds   == {"none", "zero", "empty_str", "empty_list", "false"}
ControlValue(kind, op) ==
    CASE op = "defined"      -> "true"
      [] op = "undefined"    -> "false"
      [] op = "default"      -> "the_value"
      [] op = "default_bool" -> IF kind \in FalsyKinds THEN "default_value" ELSE "the_value"

Control(kind, op) ==
    /\ cur = "undef" /\ path = <<>> /\ base = "Undefined" /\ ~logging /\ origin = "name"
    /\ cur' = "control"
    /\ last' = [op |-> op, side |-> "l", other |-> kind]
    /\ res' = [kind |-> "value", val |-> ControlValue(kind, op), blame |-> "nobody",
               msg |-> NoText, shown |-> NoText, log |-> "none"]
    /\ Emit => PrintT(ToJson([base |-> "Defined", logging |-> FALSE, origin |-> kind, path |-> <<>>,
                              op |-> op, side |-> "l", other |-> "none", res |-> res']))
    /\ UNCHANGED <<base, logging, origin, path>>

Next ==
    \/ \E kind \in DefinedKinds : \E op \in {"defined", "undefined", "default", "default_bool"} : Control(kind, op)
    \/ \E a \in AccessOps : Access(a)
    \/ \E op \in Ops : \E side \in SidesOf(op) : \E other \in OthersAt(op) : Final(op, side, other)

Spec == Init /\ [][Next]_vars

(* ------------------------------------------------------------------------ *)
(* Properties                                                               *)
(* ------------------------------------------------------------------------ *)

TypeOK ==
    /\ base \in Bases /\ logging \in BOOLEAN /\ origin \in Origins
    /\ path \in Seq(AccessOps) /\ Len(path) <= MaxDepth
    /\ cur \in {"undef", "done", "control"}
    /\ cur = "done" => res.kind \in {"value", "raises", "self"}

\* "you can do nothing with it except checking if it's defined": everything
\* but the defined/undefined tests, the default filter and copying raises
C21_StrictRaisesWhereDocumented ==
    cur = "done" /\ base = "Strict" =>
        /\ (res.kind = "raises") <=> (last.op \notin AlwaysOps)
        /\ path = <<>>

\* the chainable type is the default type except that attribute and item
\* access hand back the undefined itself, wherever in a chain
\* (a second undefined of a fixed other type is left out of the three "same as the other type"
\* comparisons below: there the outcome depends on the type itself - C21_EqualityFollowsType)
C21_ChainableOnlyDiffersInAttrItem ==
    cur = "done" /\ base = "Chainable" /\ last.other \notin Foreign =>
        LET d == Result("Undefined", logging, origin, last.op, last.side, last.other)
        IN IF last.op \in AccessOps THEN res.kind = "self" /\ d.kind = "raises"
           ELSE res = d
\* ... and only the chainable type ever gets past an access
C21_OnlyChainableChains == path # <<>> => base = "Chainable"

\* every failure names where the undefined value came from - the first missing
\* thing, however long the chain (`foo.bar['baz'] + 42` -> 'foo' is undefined)
C21_MessageNamesOrigin ==
    cur = "done" /\ res.kind = "raises" =>
        /\ res.val = "UndefinedError"
        /\ res.msg = Names(origin)
        /\ res.msg.frag # ""
        /\ res.blame \in {"self", "either"}

\* debug differs from the default type only in what printing gives
C21_DebugOnlyDiffersInPrint ==
    cur = "done" /\ base = "Debug" /\ last.other \notin Foreign =>
        LET d == Result("Undefined", logging, origin, last.op, last.side, last.other)
        IN IF last.op \in PrintOps THEN res.val = "debug_str" /\ d.val = "empty_str" /\ res.shown = DebugText(origin)
           ELSE res = d

\* the tests tell defined values from undefined ones, whatever the value
C21_TestsSeparateDefinedFromUndefined ==
    /\ cur = "control" /\ last.op \in {"defined", "undefined"} =>
          res.val # Result("Undefined", FALSE, "name", last.op, "l", "none").val
    /\ cur = "done" /\ last.op \in {"defined", "undefined"} =>
          \A kind \in DefinedKinds : res.val # ControlValue(kind, last.op)

\* logging variants behave like their base and log printing and iteration
C21_LoggingKeepsBase ==
    cur = "done" /\ logging /\ last.other \notin Foreign =>
        LET d == Result(base, FALSE, origin, last.op, last.side, last.other)
        IN /\ res.kind = d.kind /\ res.val = d.val /\ res.msg = d.msg
           /\ (last.op \in {"print", "iter", "aiter"}) <=> (res.log = "required")

\* equality of two undefined values: never at odds with hashing (equal values have equal
\* hashes, and an undefined hashes by its type), symmetric in the operand order, `!=` is the
\* negation of `==`, and a strict operand on either side makes the comparison fail
C21_EqualityFollowsType ==
    cur = "done" /\ last.op \in {"eq", "ne"} /\ last.other \in UndefOthers =>
        LET ob   == OtherBase(base, last.other)
            ol   == OtherLogging(logging, last.other)
            flip == Result(base, logging, origin, last.op, IF last.side = "l" THEN "r" ELSE "l", last.other)
            neg  == Result(base, logging, origin, IF last.op = "eq" THEN "ne" ELSE "eq", last.side, last.other)
            equal == res.val = (IF last.op = "eq" THEN "true" ELSE "false")
        IN /\ (res.kind = "raises") <=> ("Strict" \in {base, ob})
           /\ res.kind = "value" =>
                 /\ res.val \in {"true", "false"}
                 /\ equal <=> (HashKey(base, logging) = HashKey(ob, ol))
                 /\ flip.kind = "value" /\ flip.val = res.val
                 /\ neg.kind = "value" /\ neg.val # res.val
           \* the value of an else-less conditional expression is of the default type whatever
           \* the environment's type: it equals a missing name only in a default environment
           /\ last.other = "noelse" /\ res.kind = "value" => (equal <=> (base = "Undefined" /\ ~logging))

\* the class bodies handed in by the harness, dispatched the way Python
\* dispatches special methods, give exactly the documented table
C21_BodiesRefineTable ==
    cur = "done" =>
        LET o == OpOutcome(base, logging, last.op, last.side, last.other)
        IN /\ o.kind = res.kind
           /\ o.val = res.val
           /\ res.log = "required" => o.logged
=============================================================================
