----------------------------- MODULE LRUConc -----------------------------
(***************************************************************************)
(* jinja2.utils.LRUCache under threads, at the granularity of the code's   *)
(* primitive steps (one action per source line that touches shared state). *)
(* __getitem__/get, __setitem__, __delitem__ and clear run under _wlock;    *)
(* __contains__ is a single unlocked dictionary read.                       *)
(*                                                                         *)
(* Every thread runs a short program of operations.  Calls and returns are *)
(* recorded in `H`; when all threads are done TLC decides whether the      *)
(* history is linearizable w.r.t. the sequential meaning LRU!Apply, and    *)
(* whether any call raised something the sequential map cannot raise.      *)
(* The constant `LockedOps` says which methods take the lock, so the model  *)
(* can also document why each lock is needed (expected counter-examples).  *)
(***************************************************************************)
EXTENDS Naturals, Sequences, FiniteSets, TLC

CONSTANTS Keys, Vals, Cap, NoVal, MaxHist,
          Threads,        \* set of thread ids
          ProgSet,        \* set of candidate programs (sequences of ops) for each thread
          InitItems,      \* sequence of <<k, v>> inserted before the threads start
          LockedOps       \* the methods that take _wlock.  The code as written:
                          \* {"getitem","setitem","delitem","clear"}; adding "contains"
                          \* models a locked __contains__, removing one documents why
                          \* that lock is needed (TLC then shows the bad schedule)

VARIABLES cmap, cq, lock, pc, prog, ip, tmp, H

L == INSTANCE LRU WITH mapping <- cmap, order <- cq, ret <- tmp, hist <- H

vars == <<cmap, cq, lock, pc, prog, ip, tmp, H>>

NoThread == "none"

RECURSIVE Fill(_, _, _)
Fill(m, o, items) ==
    IF items = <<>> THEN [m |-> m, o |-> o]
    ELSE LET i == L!Insert(m, o, items[1][1], items[1][2]) IN Fill(i.m, i.o, Tail(items))

Init0 == Fill([k \in Keys |-> NoVal], <<>>, InitItems)

Init ==
    /\ cmap = Init0.m
    /\ cq = Init0.o
    /\ lock = NoThread
    /\ prog \in [Threads -> ProgSet]
    /\ pc = [t \in Threads |-> "idle"]
    /\ ip = [t \in Threads |-> 1]
    /\ tmp = [t \in Threads |-> <<>>]
    /\ H = <<>>

CurOp(t) == prog[t][ip[t]]
Kind(t) == CurOp(t)[1]
Key(t) == CurOp(t)[2]

UsesLock(kind) == (IF kind = "get" THEN "getitem" ELSE kind) \in LockedOps

\* an operation's call is recorded when it starts, its return when it ends
Call(t) ==
    /\ pc[t] = "idle"
    /\ ip[t] <= Len(prog[t])
    /\ H' = Append(H, [e |-> "call", t |-> t, op |-> CurOp(t)])
    /\ pc' = [pc EXCEPT ![t] = IF UsesLock(Kind(t)) THEN "acquire" ELSE Kind(t) \o "1"]
    /\ UNCHANGED <<cmap, cq, lock, prog, ip, tmp>>

Acquire(t) ==
    /\ pc[t] = "acquire"
    /\ lock = NoThread
    /\ lock' = t
    /\ pc' = [pc EXCEPT ![t] = (IF Kind(t) = "get" THEN "getitem" ELSE Kind(t)) \o "1"]
    /\ UNCHANGED <<cmap, cq, prog, ip, tmp, H>>

\* return (or raise) result r: release the lock if held, record, advance
Return(t, r) ==
    /\ H' = Append(H, [e |-> "ret", t |-> t, r |-> r])
    /\ lock' = IF lock = t THEN NoThread ELSE lock
    /\ pc' = [pc EXCEPT ![t] = "idle"]
    /\ ip' = [ip EXCEPT ![t] = @ + 1]
    /\ tmp' = [tmp EXCEPT ![t] = <<>>]

Norm(kind) == IF kind = "get" THEN "getitem" ELSE kind
At(t, k, lbl) == pc[t] = lbl /\ Norm(Kind(t)) = k

InSeq(s, x) == \E i \in 1..Len(s) : s[i] = x
RemoveFirst(s, x) ==
    LET i == CHOOSE j \in 1..Len(s) : s[j] = x /\ \A h \in 1..(j-1) : s[h] # x
    IN SubSeq(s, 1, i - 1) \o SubSeq(s, i + 1, Len(s))

(* ---- __getitem__ / get -------------------------------------------------- *)
\* rv = self._mapping[key]
G1(t) ==
    /\ At(t, "getitem", "getitem1")
    /\ IF cmap[Key(t)] = NoVal
       THEN /\ Return(t, IF Kind(t) = "get" THEN <<"default">> ELSE <<"KeyError", Key(t)>>)
            /\ UNCHANGED <<cmap, cq, prog>>
       ELSE /\ tmp' = [tmp EXCEPT ![t] = <<"val", cmap[Key(t)]>>]
            /\ pc' = [pc EXCEPT ![t] = "getitem2"]
            /\ UNCHANGED <<cmap, cq, lock, prog, ip, H>>
\* if self._queue[-1] != key:
G2(t) ==
    /\ At(t, "getitem", "getitem2")
    /\ IF cq = <<>>
       THEN /\ Return(t, <<"raise", "IndexError">>) /\ UNCHANGED <<cmap, cq, prog>>
       ELSE /\ pc' = [pc EXCEPT ![t] = IF cq[Len(cq)] # Key(t) THEN "getitem3" ELSE "getitem5"]
            /\ UNCHANGED <<cmap, cq, lock, prog, ip, tmp, H>>
\* try: self._remove(key) except ValueError: pass
G3(t) ==
    /\ At(t, "getitem", "getitem3")
    /\ cq' = IF InSeq(cq, Key(t)) THEN RemoveFirst(cq, Key(t)) ELSE cq
    /\ pc' = [pc EXCEPT ![t] = "getitem4"]
    /\ UNCHANGED <<cmap, lock, prog, ip, tmp, H>>
\* self._append(key)
G4(t) ==
    /\ At(t, "getitem", "getitem4")
    /\ cq' = Append(cq, Key(t))
    /\ pc' = [pc EXCEPT ![t] = "getitem5"]
    /\ UNCHANGED <<cmap, lock, prog, ip, tmp, H>>
\* return rv
G5(t) ==
    /\ At(t, "getitem", "getitem5")
    /\ Return(t, tmp[t])
    /\ UNCHANGED <<cmap, cq, prog>>

(* ---- __setitem__ --------------------------------------------------------- *)
\* if key in self._mapping: ... elif len(self._mapping) == self.capacity:
S1(t) ==
    /\ At(t, "setitem", "setitem1")
    /\ pc' = [pc EXCEPT ![t] =
                IF cmap[Key(t)] # NoVal THEN "setitem2"
                ELSE IF Cardinality({k \in Keys : cmap[k] # NoVal}) = Cap THEN "setitem3"
                ELSE "setitem4"]
    /\ UNCHANGED <<cmap, cq, lock, prog, ip, tmp, H>>
\* self._remove(key)   (ValueError propagates)
S2(t) ==
    /\ At(t, "setitem", "setitem2")
    /\ IF InSeq(cq, Key(t))
       THEN /\ cq' = RemoveFirst(cq, Key(t))
            /\ pc' = [pc EXCEPT ![t] = "setitem4"]
            /\ UNCHANGED <<cmap, lock, prog, ip, tmp, H>>
       ELSE /\ Return(t, <<"raise", "ValueError">>) /\ UNCHANGED <<cmap, cq, prog>>
\* del self._mapping[self._popleft()]
S3(t) ==
    /\ At(t, "setitem", "setitem3")
    /\ IF cq = <<>>
       THEN /\ Return(t, <<"raise", "IndexError">>) /\ UNCHANGED <<cmap, cq, prog>>
       ELSE IF cmap[Head(cq)] = NoVal
            THEN /\ cq' = Tail(cq)
                 /\ Return(t, <<"raise", "KeyError">>) /\ UNCHANGED <<cmap, prog>>
            ELSE /\ cmap' = [cmap EXCEPT ![Head(cq)] = NoVal]
                 /\ cq' = Tail(cq)
                 /\ pc' = [pc EXCEPT ![t] = "setitem4"]
                 /\ UNCHANGED <<lock, prog, ip, tmp, H>>
\* self._append(key)
S4(t) ==
    /\ At(t, "setitem", "setitem4")
    /\ cq' = Append(cq, Key(t))
    /\ pc' = [pc EXCEPT ![t] = "setitem5"]
    /\ UNCHANGED <<cmap, lock, prog, ip, tmp, H>>
\* self._mapping[key] = value
S5(t) ==
    /\ At(t, "setitem", "setitem5")
    /\ cmap' = [cmap EXCEPT ![Key(t)] = CurOp(t)[3]]
    /\ Return(t, <<"none">>)
    /\ UNCHANGED <<cq, prog>>

(* ---- __delitem__ --------------------------------------------------------- *)
D1(t) ==
    /\ At(t, "delitem", "delitem1")
    /\ IF cmap[Key(t)] = NoVal
       THEN /\ Return(t, <<"KeyError", Key(t)>>) /\ UNCHANGED <<cmap, cq, prog>>
       ELSE /\ cmap' = [cmap EXCEPT ![Key(t)] = NoVal]
            /\ pc' = [pc EXCEPT ![t] = "delitem2"]
            /\ UNCHANGED <<cq, lock, prog, ip, tmp, H>>
D2(t) ==
    /\ At(t, "delitem", "delitem2")
    /\ cq' = IF InSeq(cq, Key(t)) THEN RemoveFirst(cq, Key(t)) ELSE cq
    /\ Return(t, <<"none">>)
    /\ UNCHANGED <<cmap, prog>>

(* ---- clear ---------------------------------------------------------------- *)
C1(t) ==
    /\ At(t, "clear", "clear1")
    /\ cmap' = [k \in Keys |-> NoVal]
    /\ pc' = [pc EXCEPT ![t] = "clear2"]
    /\ UNCHANGED <<cq, lock, prog, ip, tmp, H>>
C2(t) ==
    /\ At(t, "clear", "clear2")
    /\ cq' = <<>>
    /\ Return(t, <<"none">>)
    /\ UNCHANGED <<cmap, prog>>

(* ---- __contains__ (no lock, one read) ------------------------------------- *)
K1(t) ==
    /\ At(t, "contains", "contains1")
    /\ Return(t, <<"bool", cmap[Key(t)] # NoVal>>)
    /\ UNCHANGED <<cmap, cq, prog>>

ThreadStep(t) ==
    \/ Call(t) \/ Acquire(t)
    \/ G1(t) \/ G2(t) \/ G3(t) \/ G4(t) \/ G5(t)
    \/ S1(t) \/ S2(t) \/ S3(t) \/ S4(t) \/ S5(t)
    \/ D1(t) \/ D2(t) \/ C1(t) \/ C2(t) \/ K1(t)

AllDone == \A t \in Threads : pc[t] = "idle" /\ ip[t] > Len(prog[t])

Next == \E t \in Threads : ThreadStep(t)

Spec == Init /\ [][Next]_vars

(* ---- linearizability of the recorded history ------------------------------ *)
\* operations as records [t, op, r, c (index of call), d (index of return)]
OpsOf(h) ==
    { [t |-> h[i].t, op |-> h[i].op, c |-> i,
       d |-> CHOOSE j \in (i+1)..Len(h) : h[j].e = "ret" /\ h[j].t = h[i].t
                      /\ \A x \in (i+1)..(j-1) : ~(h[x].e = "ret" /\ h[x].t = h[i].t),
       r |-> h[CHOOSE j \in (i+1)..Len(h) : h[j].e = "ret" /\ h[j].t = h[i].t
                      /\ \A x \in (i+1)..(j-1) : ~(h[x].e = "ret" /\ h[x].t = h[i].t)].r]
      : i \in {x \in 1..Len(h) : h[x].e = "call"} }

RECURSIVE CanLin(_, _, _, _)
\* can the operations in `todo` be ordered, respecting real-time precedence, so
\* that the sequential map started in (m, o) explains every result and ends in
\* a state whose content equals (fm)?
CanLin(todo, m, o, fm) ==
    IF todo = {} THEN m = fm
    ELSE \E x \in todo :
            /\ \A y \in todo : ~(y.d < x.c)          \* nothing still to do finished before x began
            /\ LET a == L!Apply(m, o, x.op) IN
               /\ a.r = x.r
               /\ CanLin(todo \ {x}, a.m, a.o, fm)

C26_Linearizable == AllDone => CanLin(OpsOf(H), Init0.m, Init0.o, cmap)

C26_NoRaise == \A i \in 1..Len(H) : H[i].e = "ret" => H[i].r[1] # "raise"

\* when no thread is inside a critical section the queue and the mapping agree
C26_QuiescentConsistent ==
    (lock = NoThread /\ \A t \in Threads : pc[t] \in {"idle", "acquire", "contains1"})
        => /\ L!SeqSet(cq) = {k \in Keys : cmap[k] # NoVal}
           /\ Len(cq) = Cardinality({k \in Keys : cmap[k] # NoVal})
           /\ Len(cq) <= Cap
=============================================================================
