------------------------------- MODULE Native -------------------------------
(***************************************************************************)
(* Property C34: native rendering returns native values as documented.     *)
(*                                                                         *)
(* ABSTRACT LAYER (docs/nativetypes.rst, NativeTemplate.render docstring,  *)
(* the property statement).  A rendered template has a sequence of output  *)
(* items: every piece of template text and every `{{ expression }}` that   *)
(* is reached.  Expected(items, lit):                                      *)
(*   - no item                      -> None                                *)
(*   - exactly one item, not a str  -> that value itself                   *)
(*   - otherwise                    -> the text  join(str(item))  ...      *)
(*         ... parsed as a Python literal when it is one, else the text.   *)
(* Whether the text is a literal is Python's business: `lit` is an input   *)
(* that the harness supplies from ast.literal_eval, the spec only decides  *)
(* the case structure.                                                     *)
(*                                                                         *)
(* OPERATIONAL LAYER, shaped like nativetypes.py:                          *)
(*   Fold    the compiler merges every maximal run of constant items into  *)
(*           ONE str item (NativeCodeGenerator._output_const_repr)         *)
(*   the entry point hands native_concat either a generator (sync render)  *)
(*           or a list (render_async); `render` of an async environment    *)
(*           delegates to render_async (what Template.render does);        *)
(*   native_concat: Peek (islice(values, 2)), ReturnNone, ReturnSingle,    *)
(*           JoinAll (list(chain(head, rest)) for a generator - the order  *)
(*           of conversions is spec/NativeOrder.tla - the list itself      *)
(*           otherwise), Parse (literal_eval or fall back to the text).    *)
(* TLC checks that every behaviour of the operational layer ends in        *)
(* Expected(items, lit) (C34_SingleValuePassThrough, C34_ConcatThenLiteral,*)
(* C34_AllEntryPointsAgree) and prints each case for replay on the real    *)
(* NativeEnvironment.                                                      *)
(***************************************************************************)
EXTENDS Naturals, Sequences, FiniteSets, TLC, Json

CONSTANTS MaxItems,          \* longest item sequence
          AsyncRenderDelegates \* TRUE: NativeTemplate.render of an async environment runs render_async
                               \* (documented behaviour); FALSE: it iterates the async generator
                               \* directly (the pinned tree, finding F1)

\* an item: is its value a str?  is it a compile-time constant?
Item  == [str : BOOLEAN, const : BOOLEAN]
Modes == {"sync.render", "async.render_async", "async.render"}

VARIABLES items,    \* the property-level output items (input)
          lit,      \* is join(str(item)) a Python literal?  (input, from ast.literal_eval)
          mode,     \* entry point (input)
          yielded,  \* what root_render_func yields: sequence of [str, ids] (ids = the items it stands for)
          values,   \* "generator" | "list" | "asyncgen": what native_concat is given
          rest,     \* not yet consumed part of `yielded` (a generator is consumed once)
          head,     \* islice(values, 2)
          pc,       \* "start" | "concat" | "peeked" | "joined" | "done"
          raw,      \* ids of the items whose str() make up the text, in order
          result    \* [kind |-> "none" | "identity" | "literal" | "text" | "TypeError", of |-> ids]

vars == <<items, lit, mode, yielded, values, rest, head, pc, raw, result>>

Ids(n) == [k \in 1..n |-> k]
NoResult == [kind |-> "pending", of |-> <<>>]

(* ---- abstract layer -------------------------------------------------------- *)
Expected(its, l) ==
    IF its = <<>> THEN [kind |-> "none", of |-> <<>>]
    ELSE IF Len(its) = 1 /\ ~its[1].str THEN [kind |-> "identity", of |-> <<1>>]
    ELSE [kind |-> IF l THEN "literal" ELSE "text", of |-> Ids(Len(its))]

(* ---- operational layer ----------------------------------------------------- *)
\* constant folding of output: a maximal run of constant items becomes one str item
RECURSIVE Fold(_, _, _)
Fold(its, k, run) ==    \* run = ids of the constant run being collected
    IF k > Len(its) THEN (IF run = <<>> THEN <<>> ELSE <<[str |-> TRUE, ids |-> run]>>)
    ELSE IF its[k].const THEN Fold(its, k + 1, Append(run, k))
    ELSE (IF run = <<>> THEN <<>> ELSE <<[str |-> TRUE, ids |-> run]>>)
         \o <<[str |-> its[k].str, ids |-> <<k>>]>> \o Fold(its, k + 1, <<>>)

RECURSIVE Flat(_)
Flat(ys) == IF ys = <<>> THEN <<>> ELSE Head(ys).ids \o Flat(Tail(ys))

Init ==
    /\ items \in UNION {[1..n -> Item] : n \in 0..MaxItems}
    /\ lit \in BOOLEAN
    \* assumption (see RoundTrips): the str() of a constant with a safe repr is a literal
    /\ (Len(items) = 1 /\ items[1].const /\ ~items[1].str => lit)
    /\ mode \in Modes
    /\ yielded = <<>> /\ values = "none" /\ rest = <<>> /\ head = <<>>
    /\ pc = "start" /\ raw = <<>> /\ result = NoResult

\* the render method: compile (fold), run the root render function, hand the pieces to native_concat
Render ==
    /\ pc = "start"
    /\ yielded' = Fold(items, 1, <<>>)
    /\ rest' = yielded'
    /\ values' = CASE mode = "sync.render" -> "generator"
                   [] mode = "async.render_async" -> "list"
                   [] mode = "async.render" -> IF AsyncRenderDelegates THEN "list" ELSE "asyncgen"
    /\ pc' = "concat"
    /\ UNCHANGED <<items, lit, mode, head, raw, result>>

\* head = list(islice(values, 2))
Peek ==
    /\ pc = "concat" /\ values \in {"generator", "list"}
    /\ head' = SubSeq(rest, 1, IF Len(rest) < 2 THEN Len(rest) ELSE 2)
    /\ rest' = IF values = "generator" THEN SubSeq(rest, Len(head') + 1, Len(rest)) ELSE rest
    /\ pc' = "peeked"
    /\ UNCHANGED <<items, lit, mode, yielded, values, raw, result>>

\* an async generator is not iterable
PeekFails ==
    /\ pc = "concat" /\ values = "asyncgen"
    /\ result' = [kind |-> "TypeError", of |-> <<>>]
    /\ pc' = "done"
    /\ UNCHANGED <<items, lit, mode, yielded, values, rest, head, raw>>

ReturnNone ==
    /\ pc = "peeked" /\ head = <<>>
    /\ result' = [kind |-> "none", of |-> <<>>]
    /\ pc' = "done"
    /\ UNCHANGED <<items, lit, mode, yielded, values, rest, head, raw>>

\* a single value that is not a str is returned as it is ...
ReturnSingle ==
    /\ pc = "peeked" /\ Len(head) = 1 /\ ~head[1].str
    /\ result' = [kind |-> "identity", of |-> head[1].ids]
    /\ pc' = "done"
    /\ UNCHANGED <<items, lit, mode, yielded, values, rest, head, raw>>

\* ... a single str is the text
SingleText ==
    /\ pc = "peeked" /\ Len(head) = 1 /\ head[1].str
    /\ raw' = head[1].ids
    /\ pc' = "joined"
    /\ UNCHANGED <<items, lit, mode, yielded, values, rest, head, result>>

\* "".join(str(v) for v in list(chain(head, values)))  /  for v in values (a list is iterated again)
JoinAll ==
    /\ pc = "peeked" /\ Len(head) = 2
    /\ raw' = IF values = "generator" THEN Flat(head \o rest) ELSE Flat(rest)
    /\ rest' = IF values = "generator" THEN <<>> ELSE rest
    /\ pc' = "joined"
    /\ UNCHANGED <<items, lit, mode, yielded, values, head, result>>

\* literal_eval(parse(raw)) or the text itself
Parse ==
    /\ pc = "joined"
    /\ result' = [kind |-> IF lit THEN "literal" ELSE "text", of |-> raw]
    /\ pc' = "done"
    /\ UNCHANGED <<items, lit, mode, yielded, values, rest, head, raw>>

Report ==
    /\ pc = "done"
    /\ pc' = "reported"
    /\ PrintT(ToJson([items |-> items, lit |-> lit, mode |-> mode, expected |-> Expected(items, lit),
                      model |-> result]))
    /\ UNCHANGED <<items, lit, mode, yielded, values, rest, head, raw, result>>

Next == Render \/ Peek \/ PeekFails \/ ReturnNone \/ ReturnSingle \/ SingleText \/ JoinAll \/ Parse \/ Report

Spec == Init /\ [][Next]_vars /\ WF_vars(Next)

(* ---- properties ------------------------------------------------------------- *)
TypeOK ==
    /\ items \in Seq(Item) /\ Len(items) <= MaxItems
    /\ pc \in {"start", "concat", "peeked", "joined", "done", "reported"}
    /\ result.kind \in {"pending", "none", "identity", "literal", "text", "TypeError"}

\* The compiler's folding is invisible for a single constant non-str item only because a
\* constant with a safe repr reads back from its own str() (int, float, bool, None, tuples,
\* lists, dicts of those): `{{ 1 }}` is yielded as the str "1" and parsed back to 1.
RoundTrips(r, e) ==
    /\ e.kind = "identity" /\ items[1].const
    /\ r.kind = "literal" /\ r.of = <<1>>

Agrees(r, e) == r = e \/ RoundTrips(r, e)

\* a template whose output is a single non-string value returns that value itself
C34_SingleValuePassThrough ==
    pc \in {"done", "reported"} /\ Len(items) = 1 /\ ~items[1].str /\ result.kind # "TypeError" =>
        IF items[1].const THEN result.kind \in {"identity", "literal"} /\ result.of = <<1>>
        ELSE result = [kind |-> "identity", of |-> <<1>>]

\* any other template returns the literal value of the concatenation of ALL items, in
\* order, when it is a literal, and that text otherwise; an empty template returns None
C34_ConcatThenLiteral ==
    pc \in {"done", "reported"} /\ ~(Len(items) = 1 /\ ~items[1].str) /\ result.kind # "TypeError" =>
        IF items = <<>> THEN result.kind = "none"
        ELSE result = [kind |-> IF lit THEN "literal" ELSE "text", of |-> Ids(Len(items))]

\* render, render_async and render of an async environment all give the documented result
C34_AllEntryPointsAgree ==
    pc \in {"done", "reported"} => Agrees(result, Expected(items, lit))

\* native_concat never looks at a piece twice and never drops one
C34_NothingLostOrDoubled ==
    pc = "joined" => raw = Flat(yielded) /\ Flat(yielded) = Ids(Len(items))

C34_Terminates == <>(pc = "reported")
=============================================================================
