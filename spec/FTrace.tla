------------------------------ MODULE FTrace ------------------------------
(***************************************************************************)
(* Reader for the observation batches recorded by the filter harness       *)
(* (properties C22 / C23 / C24).  A batch is a JSON object                 *)
(*    vals : the distinct FVal values of the batch                         *)
(*    recs : records whose value fields are 1-based indices into vals      *)
(*           f, name   atoms (filter name; item-filter / test / mode name) *)
(*           inp, inp2 input before / after the call                       *)
(*           out       result (materialised) or X(exception class)         *)
(*           args, args2   arguments before / after, by name               *)
(*           x         further observed values, by name                    *)
(* (sharing values through a table keeps JsonDeserialize fast).            *)
(***************************************************************************)
EXTENDS FVal, Json, IOUtils

Data == JsonDeserialize(IOEnv.TRACE_FILE)
NRecs == Len(Data.recs)

RecAt(i) ==
    LET q == Data.recs[i]
        Tab(m) == [k \in DOMAIN m |-> Data.vals[m[k]]]
    IN [f |-> q.f, name |-> q.name,
        inp |-> Data.vals[q.inp], inp2 |-> Data.vals[q.inp2], out |-> Data.vals[q.out],
        args |-> Tab(q.args), args2 |-> Tab(q.args2), x |-> Tab(q.x)]

ArgsIntact(r) ==
    /\ VEq(r.inp2, r.inp)
    /\ \A k \in DOMAIN r.args : VEq(r.args2[k], r.args[k])
=============================================================================
