------------------------------ MODULE AsyncGen ------------------------------
(***************************************************************************)
(* Life cycle of the async generators a Jinja async render opens           *)
(* (property C36).                                                         *)
(*                                                                         *)
(* A render is a tree of async-generator instances: the root render        *)
(* function, one per block call, include, parent template root, loop       *)
(* filter function, and the generators drained eagerly by super() /        *)
(* self.block() / import / include-without-context.  Every instance moves  *)
(*      (not started) -> run <-> susp (at a yield) -> closed.              *)
(*                                                                         *)
(* The module is an interpreter for the small statement language into      *)
(* which the harness transliterates the code that jinja2 *generates* for a *)
(* concrete set of templates (and the few runtime helpers that open        *)
(* generators).  PROG_FILE holds one program per template set:             *)
(*     funcs : name -> [agen, short, body]   body = sequence of statements *)
(*  yield | pt | if a b | many body | open var fn | afor var body orelse g *)
(*  | try body handlers fin | aclose var | coro body | ret | raise         *)
(*  | reraise | break | continue | chunk                                   *)
(* The semantics below are Python's: `yield` suspends the generator and    *)
(* hands an item to the frame that iterates it; an exception / a           *)
(* cancellation / GeneratorExit unwinds the frame's continuation, running  *)
(* `finally` clauses on the way; `await g.aclose()` throws GeneratorExit   *)
(* into a generator suspended at a yield; a loop that is abandoned by an   *)
(* unwinding frame leaves the generator it iterates *as it is* - that is   *)
(* the leak C36 forbids.                                                   *)
(*                                                                         *)
(* Environment / consumer actions:                                         *)
(*   PtSuspend/GateResume  a data await really suspends the task           *)
(*   GateCancel            the task is cancelled at that await             *)
(*   GateFault             the awaited data function raises                *)
(*   ConsNext / ConsClose  the consumer of generate_async asks for the     *)
(*                         next chunk / stops and acloses                  *)
(* Data nondeterminism: `if` picks either branch, `many` iterates 0..Fuel  *)
(* times, a `pt` may or may not suspend.                                   *)
(***************************************************************************)
EXTENDS Naturals, Sequences, FiniteSets, TLC, Json, IOUtils

CONSTANTS MaxGens,     \* bound on generator instances per behaviour
          Fuel,        \* bound on loop iterations over data per behaviour (0 = unbounded:
                       \* used for trace validation, where the recorded trace bounds the run)
          Idealised,   \* TRUE: every abandoned loop closes its generator (design theorem)
          CallsSuspend,\* TRUE: an awaited data *call* always suspends (so in the harness' runs,
                       \* used for trace validation); FALSE: it may also return at once
          Modes        \* subset of {"generate", "render"}

Progs == JsonDeserialize(IOEnv.PROG_FILE)

VARIABLES pid,      \* which program
          mode,     \* "generate" (consumer iterates generate_async) or "render" (render_async)
          frames,   \* frames[1] = the task's coroutine; others = generator instances in start order
          stack,    \* the active chain: stack[Len] is executing
          phase,    \* "run" | "gate" | "chunk" | "done" | "end"
          how,      \* "complete" | "raise" | "close" | "cancel" | "fault"
          fuel

vars == <<pid, mode, frames, stack, phase, how, fuel>>

Funcs == Progs[pid].funcs
Top == stack[Len(stack)]
C == frames[Top].cont
H == Head(C)
T == Tail(C)

Stmt(o) == [op |-> o]
Unw(k) == [op |-> "unwind", kind |-> k]

NewFrame(fn, g, owner) ==
    [fn |-> fn, st |-> "run", cont |-> Funcs[fn].body, env |-> <<>>, exc |-> "none", g |-> g, owner |-> owner]

SetCont(c) == frames' = [frames EXCEPT ![Top].cont = c]

InitFrames ==
    /\ frames = << [fn |-> "task:" \o mode, st |-> "run",
                    cont |-> Progs[pid].funcs["task:" \o mode].body,
                    env |-> <<>>, exc |-> "none", g |-> TRUE, owner |-> 0] >>
    /\ stack = <<1>>
    /\ phase = "run"
    /\ how = "complete"
    /\ fuel = Fuel

Init ==
    /\ pid \in 1..Len(Progs)
    /\ mode \in Modes
    /\ InitFrames

Running == phase = "run" /\ stack # <<>>

(* -- plain control flow --------------------------------------------------- *)
If ==
    /\ Running /\ C # <<>> /\ H.op = "if"
    /\ \/ SetCont(H.a \o T)
       \/ SetCont(H.b \o T)
    /\ UNCHANGED <<pid, mode, stack, phase, how, fuel>>

Many ==
    /\ Running /\ C # <<>> /\ H.op = "many"
    /\ SetCont(<<[op |-> "loopm", body |-> H.body]>> \o T)
    /\ UNCHANGED <<pid, mode, stack, phase, how, fuel>>

LoopExit ==
    /\ Running /\ C # <<>> /\ H.op = "loopm"
    /\ SetCont(T)
    /\ UNCHANGED <<pid, mode, stack, phase, how, fuel>>

LoopIterate ==
    /\ Running /\ C # <<>> /\ H.op = "loopm" /\ (fuel > 0 \/ Fuel = 0)
    /\ SetCont(H.body \o C)
    /\ fuel' = IF Fuel = 0 THEN fuel ELSE fuel - 1
    /\ UNCHANGED <<pid, mode, stack, phase, how>>

Try ==
    /\ Running /\ C # <<>> /\ H.op = "try"
    /\ SetCont(H.body \o <<[op |-> "endtry", handlers |-> H.handlers, fin |-> H.fin]>> \o T)
    /\ UNCHANGED <<pid, mode, stack, phase, how, fuel>>

EndTry ==  \* the try block completed normally: run the finally clause
    /\ Running /\ C # <<>> /\ H.op = "endtry"
    /\ SetCont(H.fin \o T)
    /\ UNCHANGED <<pid, mode, stack, phase, how, fuel>>

Coro ==
    /\ Running /\ C # <<>> /\ H.op = "coro"
    /\ SetCont(H.body \o <<Stmt("endcoro")>> \o T)
    /\ UNCHANGED <<pid, mode, stack, phase, how, fuel>>

EndCoro ==
    /\ Running /\ C # <<>> /\ H.op = "endcoro"
    /\ SetCont(T)
    /\ UNCHANGED <<pid, mode, stack, phase, how, fuel>>

Jump ==  \* break / continue / return / raise start unwinding the continuation
    /\ Running /\ C # <<>> /\ H.op \in {"break", "continue", "ret", "raise", "reraise"}
    /\ LET k == CASE H.op = "break" -> "break"
                  [] H.op = "continue" -> "continue"
                  [] H.op = "ret" -> "ret"
                  [] H.op = "raise" -> "exc"
                  [] H.op = "reraise" -> frames[Top].exc
       IN SetCont(<<Unw(k)>> \o T)
    /\ how' = IF H.op = "raise" /\ how = "complete" THEN "raise" ELSE how
    /\ UNCHANGED <<pid, mode, stack, phase, fuel>>

(* -- generators ------------------------------------------------------------ *)
Open ==
    /\ Running /\ C # <<>> /\ H.op = "open"
    /\ frames' = [frames EXCEPT ![Top].cont = T,
                                ![Top].env = (H.var :> [fn |-> H.fn, gid |-> 0]) @@ @]
    /\ UNCHANGED <<pid, mode, stack, phase, how, fuel>>

AFor ==
    /\ Running /\ C # <<>> /\ H.op = "afor"
    /\ SetCont(<<[op |-> "iter", var |-> H.var, body |-> H.body, orelse |-> H.orelse, g |-> H.g]>> \o T)
    /\ UNCHANGED <<pid, mode, stack, phase, how, fuel>>

\* `async for`: ask the generator for its next item
IterStart ==  \* first __anext__: the generator object starts running (firstiter hook fires here)
    /\ Running /\ C # <<>> /\ H.op = "iter"
    /\ H.var \in DOMAIN frames[Top].env
    /\ frames[Top].env[H.var].gid = 0
    /\ Len(frames) < MaxGens
    /\ LET n == Len(frames) + 1 IN
       /\ frames' = Append([frames EXCEPT ![Top].env[H.var].gid = n],
                           NewFrame(frames[Top].env[H.var].fn, H.g, Top))
       /\ stack' = Append(stack, n)
    /\ UNCHANGED <<pid, mode, phase, how, fuel>>

IterResume ==
    /\ Running /\ C # <<>> /\ H.op = "iter"
    /\ H.var \in DOMAIN frames[Top].env
    /\ LET c == frames[Top].env[H.var].gid IN
       /\ c > 0
       /\ \/ /\ frames[c].st = "susp"
             /\ frames' = [frames EXCEPT ![c].st = "run"]
             /\ stack' = Append(stack, c)
          \/ /\ frames[c].st = "closed"       \* StopAsyncIteration at once
             /\ SetCont(H.orelse \o T)
             /\ stack' = stack
    /\ UNCHANGED <<pid, mode, phase, how, fuel>>

\* the running generator yields an item to the frame iterating it
Yield ==
    /\ Running /\ C # <<>> /\ H.op = "yield" /\ Len(stack) > 1
    /\ LET f == Top
           p == stack[Len(stack) - 1]
           ph == Head(frames[p].cont)
       IN /\ ph.op = "iter"
          /\ frames' = [frames EXCEPT ![f].st = "susp", ![f].cont = T,
                                      ![p].cont = ph.body \o frames[p].cont]
    /\ stack' = SubSeq(stack, 1, Len(stack) - 1)
    /\ UNCHANGED <<pid, mode, phase, how, fuel>>

\* the body of a generator function ran to its end (or a coroutine: the task)
Finish ==
    /\ Running /\ C = <<>>
    /\ IF Len(stack) = 1
       THEN /\ phase' = "done"
            /\ UNCHANGED <<frames, stack>>
       ELSE LET f == Top
                p == stack[Len(stack) - 1]
                ph == Head(frames[p].cont)
            IN /\ frames' = [frames EXCEPT ![f].st = "closed",
                                           ![p].cont = IF ph.op = "iter" THEN ph.orelse \o Tail(@) ELSE Tail(@)]
               /\ stack' = SubSeq(stack, 1, Len(stack) - 1)
               /\ phase' = phase
    /\ UNCHANGED <<pid, mode, how, fuel>>

\* await g.aclose()
AClose ==
    /\ Running /\ C # <<>> /\ H.op = "aclose"
    /\ LET known == H.var \in DOMAIN frames[Top].env
           c == IF known THEN frames[Top].env[H.var].gid ELSE 0
       IN IF c = 0 \/ frames[c].st # "susp"
          THEN /\ SetCont(T)               \* never started / already closed: nothing to do
               /\ stack' = stack
          ELSE /\ frames' = [frames EXCEPT ![Top].cont = <<Stmt("aclosing")>> \o T,
                                           ![c].st = "run",
                                           ![c].cont = <<Unw("genexit")>> \o @]
               /\ stack' = Append(stack, c)
    /\ UNCHANGED <<pid, mode, phase, how, fuel>>

(* -- unwinding -------------------------------------------------------------- *)
Matches(h, k) ==
    \/ h.catch = "BaseException" /\ k \in {"exc", "cancel", "genexit"}
    \/ h.catch = "Exception" /\ k = "exc"

FirstMatch(hs, k) ==
    LET idx == {i \in 1..Len(hs) : Matches(hs[i], k)} IN
    IF idx = {} THEN 0 ELSE CHOOSE i \in idx : \A j \in idx : i <= j

\* what an abandoned loop does with the generator it iterates: nothing (Python),
\* or - in the idealised design - close it
Abandon(n) == IF Idealised /\ n.op = "iter" THEN <<[op |-> "aclose", var |-> n.var]>> ELSE <<>>

UnwindStep ==
    /\ Running /\ C # <<>> /\ H.op = "unwind" /\ T # <<>>
    /\ LET k == H.kind
           n == Head(T)
           r == Tail(T)
       IN CASE n.op = "endtry" ->
                 LET i == FirstMatch(n.handlers, k) IN
                 IF i > 0
                 THEN frames' = [frames EXCEPT ![Top].exc = k,
                                    ![Top].cont = n.handlers[i].body
                                        \o <<[op |-> "endtry", handlers |-> <<>>, fin |-> n.fin]>> \o r]
                 ELSE SetCont(n.fin \o <<H>> \o r)
            [] n.op \in {"iter", "loopm"} ->
                 IF k = "break" THEN SetCont(Abandon(n) \o r)
                 ELSE IF k = "continue" THEN SetCont(T)
                 ELSE SetCont(Abandon(n) \o <<H>> \o r)
            [] n.op = "endcoro" ->
                 IF k = "ret" THEN SetCont(r) ELSE SetCont(<<H>> \o r)
            [] OTHER -> SetCont(<<H>> \o r)
    /\ UNCHANGED <<pid, mode, stack, phase, how, fuel>>

\* the unwinding leaves the frame
UnwindExit ==
    /\ Running /\ C # <<>> /\ H.op = "unwind" /\ T = <<>>
    /\ LET k == H.kind IN
       IF Len(stack) = 1
       THEN /\ phase' = "done"
            /\ frames' = [frames EXCEPT ![1].cont = <<>>]
            /\ stack' = stack
       ELSE LET f == Top
                p == stack[Len(stack) - 1]
                pc == frames[p].cont
                ph == Head(pc)
            IN /\ frames' = [frames EXCEPT
                      ![f].st = "closed", ![f].cont = <<>>,
                      ![p].cont = IF k \in {"genexit", "ret"}
                                  THEN (IF ph.op = "iter" THEN ph.orelse \o Tail(pc) ELSE Tail(pc))
                                  ELSE <<Unw(k)>> \o Tail(pc)]
               /\ stack' = SubSeq(stack, 1, Len(stack) - 1)
               /\ phase' = phase
    /\ UNCHANGED <<pid, mode, how, fuel>>

(* -- data await points --------------------------------------------------------- *)
PtPass ==
    /\ Running /\ C # <<>> /\ H.op = "pt"
    /\ ~(CallsSuspend /\ H.k = "call")
    /\ SetCont(T)
    /\ UNCHANGED <<pid, mode, stack, phase, how, fuel>>

PtSuspend ==
    /\ Running /\ C # <<>> /\ H.op = "pt"
    /\ SetCont(T)
    /\ phase' = "gate"
    /\ UNCHANGED <<pid, mode, stack, how, fuel>>

GateResume ==
    /\ phase = "gate"
    /\ phase' = "run"
    /\ UNCHANGED <<pid, mode, frames, stack, how, fuel>>

Undisturbed == how \in {"complete"}

GateCancel ==
    /\ phase = "gate" /\ Undisturbed
    /\ phase' = "run"
    /\ how' = "cancel"
    /\ SetCont(<<Unw("cancel")>> \o C)
    /\ UNCHANGED <<pid, mode, stack, fuel>>

GateFault ==
    /\ phase = "gate" /\ Undisturbed
    /\ phase' = "run"
    /\ how' = "fault"
    /\ SetCont(<<Unw("exc")>> \o C)
    /\ UNCHANGED <<pid, mode, stack, fuel>>

(* -- the consumer of generate_async ---------------------------------------------- *)
Chunk ==
    /\ Running /\ C # <<>> /\ H.op = "chunk"
    /\ SetCont(T)
    /\ phase' = "chunk"
    /\ UNCHANGED <<pid, mode, stack, how, fuel>>

ConsNext ==
    /\ phase = "chunk"
    /\ phase' = "run"
    /\ UNCHANGED <<pid, mode, frames, stack, how, fuel>>

ConsClose ==
    /\ phase = "chunk" /\ Undisturbed
    /\ phase' = "run"
    /\ how' = "close"
    /\ SetCont(<<Unw("break")>> \o C)
    /\ UNCHANGED <<pid, mode, stack, fuel>>

(* -- end of task ----------------------------------------------------------------- *)
Gens == 2..Len(frames)
Unclosed == {g \in Gens : frames[g].st # "closed"}
Short(fn) == Funcs[fn].short

Report ==
    /\ phase = "done"
    /\ phase' = "end"
    /\ Unclosed # {} =>
         PrintT(ToJson([pid |-> pid, mode |-> mode, how |-> how,
                        leaked |-> {Short(frames[g].fn) : g \in Unclosed}]))
    /\ UNCHANGED <<pid, mode, frames, stack, how, fuel>>

Step ==
    \/ If \/ Many \/ LoopExit \/ LoopIterate \/ Try \/ EndTry \/ Coro \/ EndCoro \/ Jump
    \/ Open \/ AFor \/ IterStart \/ IterResume \/ Yield \/ Finish \/ AClose
    \/ UnwindStep \/ UnwindExit
    \/ PtPass \/ PtSuspend \/ GateResume \/ GateCancel \/ GateFault
    \/ Chunk \/ ConsNext \/ ConsClose

Next == Step \/ Report

Spec == Init /\ [][Next]_vars

(* -- properties ------------------------------------------------------------------- *)
TypeOK ==
    /\ phase \in {"run", "gate", "chunk", "done", "end"}
    /\ how \in {"complete", "raise", "close", "cancel", "fault"}
    /\ \A i \in 1..Len(frames) : frames[i].st \in {"run", "susp", "closed"}
    /\ fuel \in 0..Fuel

\* C36: when the task is over every generator that was started is closed
C36_AllClosedAtTaskEnd == phase \in {"done", "end"} => Unclosed = {}

\* a generator whose opening site is syntactically guarded (try/finally + aclose,
\* or async with aclosing) is never the origin of a leak: it is left open only if
\* the generator that opened it was itself left open
C36_GuardedNeverLeaks ==
    phase \in {"done", "end"} => \A g \in Unclosed : frames[g].g => frames[g].owner \in Unclosed

\* the active chain: exactly the running frames, innermost last, no frame twice
C36_ChainDiscipline ==
    /\ \A i \in 1..Len(stack) : frames[stack[i]].st = "run"
    /\ \A i, j \in 1..Len(stack) : i # j => stack[i] # stack[j]
    /\ phase \in {"run", "gate", "chunk"} =>
          \A g \in 1..Len(frames) : frames[g].st = "run" => \E i \in 1..Len(stack) : stack[i] = g
    /\ phase = "chunk" => \A g \in Gens : frames[g].st # "run"

\* closed is final, and a closed generator holds no continuation
C36_ClosedIsFinal ==
    [][\A g \in 1..Len(frames) : frames[g].st = "closed" =>
            frames'[g].st = "closed" /\ frames'[g].cont = <<>>]_vars

\* a complete render in which no loop is left early closes everything even
\* without any guard: leaks need an abandoned loop
NoEarlyExit == how = "complete"

\* generator states by start order, as the harness sees them through the asyncgen hooks
Snap == [i \in 1..(Len(frames) - 1) |-> <<Short(frames[i + 1].fn), frames[i + 1].st>>]
=============================================================================
