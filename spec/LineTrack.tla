------------------------------ MODULE LineTrack ------------------------------
(***************************************************************************)
(* A small program-layout model for property C35 (errors point at the       *)
(* template line that caused them).  A case is a set of templates built     *)
(* around ONE probe -- a construct that raises when rendered, or a malformed*)
(* token -- placed inside a nest of wrappers (if / for / block / macro /    *)
(* call block / include / parent template via extends / block of a child    *)
(* template / imported macro), with blank lines, text, whitespace-control   *)
(* signs, line breaks inside tags and trim_blocks / lstrip_blocks.          *)
(*                                                                         *)
(* Source text is a sequence of ITEMS: a line break ("nl"), a run of        *)
(* blanks ("sp"), plain text ("txt") or a tag (name, depth, referenced      *)
(* template, left/right sign, number of line breaks inside the tag).  The   *)
(* harness turns items into Jinja source ("nl" becomes \n, \r\n or \r).     *)
(*                                                                         *)
(* Abstract layer (what the property says): LineOf(items, i) = 1 + the      *)
(* number of line breaks of the source before item i.  The expected report  *)
(* for a case is (template that contains the probe, LineOf(probe)).         *)
(*                                                                         *)
(* Operational layer (shaped like Lexer.tokeniter, lexer.py:758-818): Scan  *)
(* walks a template tag by tag with the lexer's line counter               *)
(*    lineno += data.count("\n") + newlines_stripped                        *)
(* where a left "-" strips the whitespace before the tag (its line breaks   *)
(* are remembered in newlines_stripped), a right "-" makes the following    *)
(* whitespace part of the tag-end token, trim_blocks makes one following    *)
(* line break part of it, and line breaks inside a tag are whitespace       *)
(* tokens.  C35_TokenLine: every tag token is reported on LineOf(tag).      *)
(* Switch CountStripped (TRUE in the code): without the newlines_stripped   *)
(* term TLC refutes C35_TokenLine.                                          *)
(* A {% raw %} block (Raws) is lexed differently: the whole opening tag,    *)
(* with the line breaks written inside it and the whitespace "-%}" swallows,*)
(* is ONE begin token (raw_begin) that the "#bygroup" branch counts with    *)
(*    lineno += value.count("\n")                                           *)
(* and {% endraw %} ends the raw state like an ordinary tag (left "-",      *)
(* right "-", trim_blocks).  Switch CountBegin (TRUE in the code): without  *)
(* that increment every token after such a raw block is reported too early  *)
(* and TLC refutes C35_TokenLine.                                           *)
(***************************************************************************)
EXTENDS Naturals, Sequences, FiniteSets, TLC, Json

CONSTANTS
    Wrappers,       \* subset of {"if","for","with","filter","setblock","autoescape","block","macro","call",
                    \*            "include","extends","childblock","import"}
    MaxDepth,       \* nesting depth 0..MaxDepth
    Pres,           \* numbers of blank lines at the top of every template
    Gaps,           \* what stands between two tags: "tight","sp","nl","nlsp","nl2","txtnl","nltxt"
    ProbeGaps,      \* ... and directly before the probe
    Signs,          \* whitespace-control policy for all tags: "none","lminus","rminus","both"
    NlIns,          \* line breaks inside opening tags: subset of {0, 1}
    Trims,          \* trim_blocks + lstrip_blocks: subset of BOOLEAN
    Probes,         \* a construct that raises when rendered: "raise" ({{ boom() }}), "raiseif", "raiseset",
                    \* "raisefor", "raiseauto", "raisetrans" (statements whose expression raises);
                    \* or a malformed token: "badtag","badexpr","badchar","badclose"
    CountStripped,
    Raws,           \* a {% raw %} ... {% endraw %} block: "none"; "top" (first thing after the blank lines of every
                    \* template); "probe" (directly before the probe, inside the nest).  Its tags follow the sign
                    \* policy, the opening tag takes the line break inside tags, its body is the tag gap
    CountBegin      \* the "#bygroup" branch of the lexer advances the counter by the line breaks of the begin token

VARIABLES wraps, pre, gap, pgap, sign, nlin, trim, probe, raw,   \* the case (chosen in Init / Wrap)
          phase, tpls, j, p, lineno, tokLines

vars == <<wraps, pre, gap, pgap, sign, nlin, trim, probe, raw, phase, tpls, j, p, lineno, tokLines>>

(* ---- items ---------------------------------------------------------------- *)
NL == [k |-> "nl", name |-> "", d |-> 0, ref |-> "", l |-> "", r |-> "", nlin |-> 0]
SP == [NL EXCEPT !.k = "sp"]
TXT == [NL EXCEPT !.k = "txt"]
IsWs(it) == it.k \in {"nl", "sp"}

Num == <<"1", "2", "3", "4", "5", "6">>
TplName(i) == "t" \o Num[i]
AuxName(dd) == "a" \o Num[dd]

LSign == IF sign \in {"lminus", "both"} THEN "-" ELSE ""
RSign == IF sign \in {"rminus", "both"} THEN "-" ELSE ""
OpenWithNl == {"if", "for", "block", "macro", "call", "raw"}

Tag(name, dd, ref) ==
    [k |-> "tag", name |-> name, d |-> dd, ref |-> ref, l |-> LSign, r |-> RSign,
     nlin |-> IF name \in OpenWithNl THEN nlin ELSE 0]

\* tags that are {% ... %} blocks (trim_blocks applies); the others are {{ ... }}
VarTags == {"callm", "caller", "callimp", "outvar", "raise", "badexpr", "badchar", "badclose"}

(* ---- wrappers ------------------------------------------------------------- *)
IsMulti(w) == w \in {"include", "extends", "import"}        \* the content moves to a new template

TplOf(ws, dd) == 1 + Cardinality({e \in 1..(dd - 1) : IsMulti(ws[e])})
NumTpls(ws) == 1 + Cardinality({e \in 1..Len(ws) : IsMulti(ws[e])})

\* nestings Jinja accepts: "extends" must be in the top-level scope of its template, i.e. the only
\* wrappers around it in the same template are conditionals (the others are excluded shapes)
Valid(ws) ==
    \A dd \in 1..Len(ws) :
        ws[dd] \in {"extends", "childblock"} =>
            \A e \in 1..(dd - 1) :
                /\ TplOf(ws, e) = TplOf(ws, dd) /\ ~IsMulti(ws[e]) => ws[e] = "if"
                /\ TplOf(ws, e) + 1 = TplOf(ws, dd) => ws[e] # "import"      \* the body of an imported macro

\* tags a wrapper puts into the template it starts in, before / after its content
OpenHere(w, dd, nextTpl) ==
    CASE w = "if" -> <<Tag("if", dd, "")>>
      [] w = "for" -> <<Tag("for", dd, "")>>
      [] w = "with" -> <<Tag("with", dd, "")>>
      [] w = "filter" -> <<Tag("filter", dd, "")>>
      [] w = "setblock" -> <<Tag("setblock", dd, "")>>
      [] w = "autoescape" -> <<Tag("autoescape", dd, "")>>
      [] w = "block" -> <<Tag("block", dd, "")>>
      [] w = "macro" -> <<Tag("macro", dd, "")>>
      [] w = "call" -> <<Tag("macro", dd, "c"), Tag("caller", dd, ""), Tag("endmacro", dd, ""), Tag("call", dd, "")>>
      [] w = "include" -> <<Tag("include", dd, nextTpl)>>
      [] w = "extends" -> <<Tag("extends", dd, nextTpl)>>
      [] w = "childblock" -> <<Tag("extends", dd, AuxName(dd)), Tag("block", dd, "")>>
      [] w = "import" -> <<Tag("import", dd, nextTpl), Tag("callimp", dd, nextTpl)>>

CloseHere(w, dd) ==
    CASE w = "if" -> <<Tag("endif", dd, "")>>
      [] w = "for" -> <<Tag("endfor", dd, "")>>
      [] w = "with" -> <<Tag("endwith", dd, "")>>
      [] w = "filter" -> <<Tag("endfilter", dd, "")>>
      [] w = "setblock" -> <<Tag("endset", dd, "")>>
      [] w = "autoescape" -> <<Tag("endautoescape", dd, "")>>
      [] w = "block" -> <<Tag("endblock", dd, "")>>
      [] w = "macro" -> <<Tag("endmacro", dd, ""), Tag("callm", dd, "")>>
      [] w = "call" -> <<Tag("endcall", dd, "")>>
      [] w = "childblock" -> <<Tag("endblock", dd, "")>>
      [] OTHER -> <<>>

\* tags at the very start / end of the template a multi-template wrapper creates
InnerOpen(w, dd) == IF w = "import" THEN <<Tag("macro", dd, "i")>> ELSE <<>>
InnerClose(w, dd) == IF w = "import" THEN <<Tag("endmacro", dd, "")>> ELSE <<>>

RECURSIVE Concat(_)
Concat(ss) == IF ss = <<>> THEN <<>> ELSE Head(ss) \o Concat(Tail(ss))
Rev(s) == [x \in 1..Len(s) |-> s[Len(s) + 1 - x]]

Creator(ws, i) == CHOOSE dd \in 1..Len(ws) : IsMulti(ws[dd]) /\ TplOf(ws, dd) = i - 1   \* wrapper that created template i > 1
Depths(ws, i) == SelectSeq([x \in 1..Len(ws) |-> x], LAMBDA dd : TplOf(ws, dd) = i)

ProbeTag == Tag(probe, Len(wraps) + 1, "")
\* the raw block (two tags; Spread puts the tag gap between them: that is the raw body)
RawAt(where) == IF raw = where THEN <<Tag("raw", 0, ""), Tag("endraw", 0, "")>> ELSE <<>>

\* the tags of template i, in source order
TagsOf(ws, i) ==
    LET ds == Depths(ws, i) IN
    RawAt("top")
    \o (IF i > 1 THEN InnerOpen(ws[Creator(ws, i)], Creator(ws, i)) ELSE <<>>)
    \o Concat([x \in 1..Len(ds) |-> OpenHere(ws[ds[x]], ds[x], TplName(i + 1))])
    \o (IF i = NumTpls(ws) THEN RawAt("probe") \o <<ProbeTag>> ELSE <<>>)
    \o Concat([x \in 1..Len(ds) |-> CloseHere(ws[Rev(ds)[x]], Rev(ds)[x])])
    \o (IF i > 1 THEN InnerClose(ws[Creator(ws, i)], Creator(ws, i)) ELSE <<>>)

GapItems(g) ==
    CASE g = "tight" -> <<>>
      [] g = "sp" -> <<SP>>
      [] g = "nl" -> <<NL>>
      [] g = "nlsp" -> <<NL, SP>>
      [] g = "nl2" -> <<NL, NL>>
      [] g = "txtnl" -> <<TXT, NL>>
      [] g = "nltxt" -> <<NL, TXT>>

RECURSIVE Spread(_)
Spread(tags) ==
    IF tags = <<>> THEN <<>>
    ELSE IF Len(tags) = 1 THEN tags
    ELSE <<tags[1]>> \o GapItems(IF tags[2].name = probe THEN pgap ELSE gap) \o Spread(Tail(tags))

\* an output expression directly after the last tag puts a labelled top-level statement on the line
\* of a closing tag (blocks are generated after the root function: their lines come out of order)
Layout(tags) == [x \in 1..pre |-> NL] \o Spread(tags) \o <<Tag("outvar", 0, ""), NL>>

\* the auxiliary parent of a childblock: declares the block, nothing else
AuxTpls(ws) ==
    LET ds == SelectSeq([x \in 1..Len(ws) |-> x], LAMBDA dd : ws[dd] = "childblock") IN
    [x \in 1..Len(ds) |-> [name |-> AuxName(ds[x]),
                           items |-> <<[Tag("block", ds[x], "") EXCEPT !.l = "", !.r = "", !.nlin = 0],
                                       [Tag("endblock", ds[x], "") EXCEPT !.l = "", !.r = ""]>>]]

Templates(ws) ==
    [i \in 1..NumTpls(ws) |-> [name |-> TplName(i), items |-> Layout(TagsOf(ws, i))]] \o AuxTpls(ws)

(* ---- abstract layer --------------------------------------------------------- *)
NlsIn(it) == IF it.k = "nl" THEN 1 ELSE IF it.k = "tag" THEN it.nlin ELSE 0
RECURSIVE NlCount(_)
NlCount(items) == IF items = <<>> THEN 0 ELSE NlsIn(Head(items)) + NlCount(Tail(items))
LineOf(items, x) == 1 + NlCount(SubSeq(items, 1, x - 1))

ProbeIdx(items) == CHOOSE x \in 1..Len(items) : items[x].k = "tag" /\ items[x].name = probe
ExpectedReport ==
    LET t == tpls[NumTpls(wraps)] IN [tpl |-> t.name, line |-> LineOf(t.items, ProbeIdx(t.items))]

(* ---- the machine -------------------------------------------------------------- *)
Init ==
    /\ wraps = <<>>
    /\ pre \in Pres /\ gap \in Gaps /\ pgap \in ProbeGaps /\ sign \in Signs
    /\ nlin \in NlIns /\ trim \in Trims /\ probe \in Probes /\ raw \in Raws
    /\ phase = "nest"
    /\ tpls = <<>>
    /\ j = 1 /\ p = 1 /\ lineno = 1 /\ tokLines = <<>>

\* choose the nesting, outermost wrapper first
Wrap(w) ==
    /\ phase = "nest" /\ Len(wraps) < MaxDepth
    /\ wraps' = Append(wraps, w)
    /\ UNCHANGED <<pre, gap, pgap, sign, nlin, trim, probe, raw, phase, tpls, j, p, lineno, tokLines>>

\* lay the templates out and report what the property expects for the case
Build ==
    /\ phase = "nest" /\ Valid(wraps)
    /\ tpls' = Templates(wraps)
    /\ phase' = "scan"
    /\ UNCHANGED <<wraps, pre, gap, pgap, sign, nlin, trim, probe, raw, j, p, lineno, tokLines>>

Items == tpls[j].items
\* index of the first tag at or after position x (Len + 1 if none)
RECURSIVE NextTag(_, _)
NextTag(items, x) == IF x > Len(items) THEN x ELSE IF items[x].k = "tag" THEN x ELSE NextTag(items, x + 1)
\* first position at or after x that is not whitespace
RECURSIVE SkipWs(_, _)
SkipWs(items, x) == IF x > Len(items) THEN x ELSE IF IsWs(items[x]) THEN SkipWs(items, x + 1) ELSE x
\* start of the whitespace run that ends just before position x, not going below lo
RECURSIVE WsStart(_, _, _)
WsStart(items, x, lo) == IF x > lo /\ IsWs(items[x - 1]) THEN WsStart(items, x - 1, lo) ELSE x

\* one tag: the data token before it, the tag's tokens, and what the end token swallows
ScanTag ==
    /\ phase = "scan" /\ NextTag(Items, p) <= Len(Items)
    /\ LET q == NextTag(Items, p)
           tag == Items[q]
           s == IF tag.l = "-" THEN WsStart(Items, q, p) ELSE q            \* text.rstrip()
           dataNl == NlCount(SubSeq(Items, p, s - 1))                       \* data.count("\n")
           strippedNl == NlCount(SubSeq(Items, s, q - 1))                   \* newlines_stripped
           beginLine == lineno + dataNl + (IF CountStripped THEN strippedNl ELSE 0)
           e == IF tag.r = "-" THEN SkipWs(Items, q + 1)                     \* "-%}\s*"
                ELSE IF trim /\ tag.name \notin (VarTags \cup {"raw"})     \* (no "\n?" after {% raw %})
                        /\ q + 1 <= Len(Items) /\ Items[q + 1].k = "nl"
                     THEN q + 2                                              \* "%}\n?"
                     ELSE q + 1
           \* line breaks between the begin delimiter and the end of what the end token swallows.  For an
           \* ordinary tag they are whitespace tokens inside the tag and the block_end / variable_end token;
           \* for {% raw %} the whole opening tag with what "-%}\s*" swallows is ONE begin token (raw_begin),
           \* counted by the "#bygroup" branch:  lineno += value.count("\n")
           inTag == tag.nlin + NlCount(SubSeq(Items, q + 1, e - 1))
       IN /\ tokLines' = Append(tokLines, [tpl |-> j, idx |-> q, line |-> beginLine])
          /\ lineno' = beginLine + (IF tag.name = "raw" /\ ~CountBegin THEN 0 ELSE inTag)
          /\ p' = e
    /\ UNCHANGED <<wraps, pre, gap, pgap, sign, nlin, trim, probe, raw, phase, tpls, j>>

NextTemplate ==
    /\ phase = "scan" /\ NextTag(Items, p) > Len(Items) /\ j < Len(tpls)
    /\ j' = j + 1 /\ p' = 1 /\ lineno' = 1
    /\ UNCHANGED <<wraps, pre, gap, pgap, sign, nlin, trim, probe, raw, phase, tpls, tokLines>>

Finish ==
    /\ phase = "scan" /\ NextTag(Items, p) > Len(Items) /\ j = Len(tpls)
    /\ phase' = "done"
    /\ PrintT(ToJson([wraps |-> wraps, pre |-> pre, gap |-> gap, pgap |-> pgap, sign |-> sign, nlin |-> nlin,
                      raw |-> raw, trim |-> trim, probe |-> probe, tpls |-> tpls, expect |-> ExpectedReport,
                      toks |-> tokLines]))
    /\ UNCHANGED <<wraps, pre, gap, pgap, sign, nlin, trim, probe, raw, tpls, j, p, lineno, tokLines>>

Next == (\E w \in Wrappers : Wrap(w)) \/ Build \/ ScanTag \/ NextTemplate \/ Finish

Spec == Init /\ [][Next]_vars

(* ---- properties ---------------------------------------------------------------- *)
\* the lexer's line counter reports every tag on the source line it starts on
C35_TokenLine ==
    \A x \in 1..Len(tokLines) :
        tokLines[x].line = LineOf(tpls[tokLines[x].tpl].items, tokLines[x].idx)

\* exactly one probe, in the innermost template
C35_OneProbe ==
    phase # "nest" =>
        /\ \A i \in 1..Len(tpls) :
               Cardinality({x \in 1..Len(tpls[i].items) : tpls[i].items[x].name = probe})
                   = IF i = NumTpls(wraps) THEN 1 ELSE 0

\* the scan visits every tag of every template exactly once
TagCount(items) == Len(SelectSeq(items, LAMBDA it : it.k = "tag"))
RECURSIVE TagTotal(_)
TagTotal(ts) == IF ts = <<>> THEN 0 ELSE TagCount(Head(ts).items) + TagTotal(Tail(ts))
C35_AllTagsScanned == phase = "done" => Len(tokLines) = TagTotal(tpls)
=============================================================================
