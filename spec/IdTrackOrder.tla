---------------------------- MODULE IdTrackOrder ----------------------------
(***************************************************************************)
(* Property C30 (template compilation is deterministic): the passes of      *)
(* jinja2/idtracking.py and jinja2/compiler.py that iterate over Python     *)
(* SETS, with every iteration order an explicit nondeterministic choice.    *)
(* Python's set order depends on the string hash seed of the process; a     *)
(* dict keeps insertion order (assigning to an existing key keeps its       *)
(* place).  The model compiles a small top-level program twice in lockstep: *)
(*    out    the emitted instruction list with the chosen iteration orders  *)
(*    canon  the same with every set visited in sorted order                *)
(* C30_OrderIndependent: out = canon, whatever orders are chosen.           *)
(*                                                                         *)
(* Sites (each has a switch "the code sorts before iterating"):             *)
(*   branch   Symbols.branch_update   for name in stores          UNSORTED  *)
(*   dump     Symbols.dump_stores     for name in sorted(node.stores)       *)
(*   deps     pull_dependencies       for name in sorted(names)  (filters,  *)
(*                                    tests; numbers the t_N identifiers)   *)
(*   assign   pop_assign_tracking     enumerate(sorted(vars))               *)
(*   public   pop_assign_tracking     [x for x in vars ...] then            *)
(*                                    sorted(public_names)                  *)
(*   undecl   find_undeclared         returns a set that is only used for   *)
(*                                    membership tests (no iteration)       *)
(*   trans    ext.InternationalizationExtension.parse                       *)
(*                                    for name in sorted(referenced)        *)
(*                                    (unsorted before repair 3239c13: F30a)*)
(*                                    (free names of a {% trans %} block;   *)
(*                                    fixes the order of the variables dict *)
(*                                    and so of the loads and of the        *)
(*                                    emitted dict literal)                 *)
(* With every site but `branch` sorted TLC proves the invariant on the      *)
(* bounded model; with a switch of a sorted site off TLC refutes it (that   *)
(* sorted() is load-bearing); the unsorted branch site is harmless because  *)
(* it only overwrites keys that are already in the loads dict.  The trans   *)
(* site was NOT sorted in the tree this check was first run on: for programs *)
(* with a trans block that references two or more free names the model      *)
(* reports order-dependent output with trans |-> FALSE (finding F30a, seen   *)
(* on the real code as seed-dependent generated source); with trans |-> TRUE *)
(* (the repair, now in the code) the invariant holds.                        *)
(*                                                                         *)
(* Names are numbers (the harness maps them to identifiers whose string     *)
(* order is the numeric order and whose hash order varies with the seed).   *)
(* Statements (top level of a template; Stmts is supplied by the harness):  *)
(*   [k |-> "set",  a |-> <<targets>>]           {% set n2, n1 = ... %}      *)
(*   [k |-> "if",   a |-> <<b1, b2, ...>>]       stores per if/elif/else     *)
(*   [k |-> "from", a |-> <<names>>]             {% from "m" import ... %}   *)
(*   [k |-> "out",  a |-> <<filters, tests>>]    {{ r|f2|f1 }}{{ r is t }}   *)
(*   [k |-> "include", a |-> <<>>]               {% include %} (local ctx)   *)
(*   [k |-> "macro", a |-> <<specials used>>]    caller=1 kwargs=2 varargs=3 *)
(*   [k |-> "trans", a |-> <<free names>>]       {% trans %}{{ n3 }} {{ n2 }}  *)
(***************************************************************************)
EXTENDS Naturals, Sequences, FiniteSets, TLC, Json

CONSTANTS Stmts,        \* the statement alphabet
          MaxStmts,
          Private,      \* names that start with an underscore (not exported)
          Switches      \* set of switch records [branch, dump, deps, assign, public, trans] to explore

CodeSwitches == [branch |-> FALSE, dump |-> TRUE, deps |-> TRUE, assign |-> TRUE, public |-> TRUE, trans |-> TRUE]
\* every site is sorted, except possibly the branch site (it does not matter)
SortedAsInCode(s) == s.dump /\ s.deps /\ s.assign /\ s.public /\ s.trans

COND == 98      \* the name every if-test reads
RVAR == 99      \* the name every output reads
MACRONAME == 97

VARIABLES sw, prog, phase, i,
          tord,                           \* per statement: the order ext.parse gave the free names of a trans block
          refs, stores, loads,            \* Symbols of the root frame (loads: dict as a sequence of <<name, kind>>)
          fids, tids, lastId,             \* self.filters / self.tests (dicts name -> t_N), _last_identifier
          out,
          cloads, cfids, ctids, canon,    \* the same compilation with sorted iteration everywhere
          sites                           \* coverage: sites that iterated over a set with >= 2 elements

vars == <<sw, prog, phase, i, tord, refs, stores, loads, fids, tids, lastId, out, cloads, cfids, ctids, canon, sites>>

(* ---- Python data structures ------------------------------------------------ *)
RECURSIVE SortedSeq(_)
SortedSeq(S) == IF S = {} THEN <<>>
                ELSE LET m == CHOOSE x \in S : \A y \in S : x <= y IN <<m>> \o SortedSeq(S \ {m})

Perms(S) == {f \in [1..Cardinality(S) -> S] : \A x, y \in 1..Cardinality(S) : x # y => f[x] # f[y]}

\* iteration orders of a set: every order, or only the sorted one when the code sorts
Orders(S, sorted) == IF sorted THEN {SortedSeq(S)} ELSE Perms(S)

Range(s) == {s[x] : x \in 1..Len(s)}
HasKey(d, k) == \E x \in 1..Len(d) : d[x][1] = k
\* d[k] = v : an existing key keeps its position, a new key goes to the end
DictSet(d, k, v) ==
    IF HasKey(d, k) THEN [x \in 1..Len(d) |-> IF d[x][1] = k THEN <<k, v>> ELSE d[x]]
    ELSE Append(d, <<k, v>>)
RECURSIVE DictUpdate(_, _)
DictUpdate(d, e) == IF e = <<>> THEN d ELSE DictUpdate(DictSet(d, Head(e)[1], Head(e)[2]), Tail(e))
DictGet(d, k) == (CHOOSE x \in Range(d) : x[1] = k)[2]

(* ---- idtracking: Symbols.store / load on [refs, stores, loads] --------------- *)
\* the root frame has no parent: a first store defines the name as undefined
Store(sym, n) ==
    [refs |-> sym.refs \cup {n}, stores |-> sym.stores \cup {n},
     loads |-> IF n \in sym.refs THEN sym.loads ELSE Append(sym.loads, <<n, "undefined">>)]
Load(sym, n) ==
    IF n \in sym.refs THEN sym
    ELSE [refs |-> sym.refs \cup {n}, stores |-> sym.stores, loads |-> Append(sym.loads, <<n, "resolve">>)]
RECURSIVE LoadAll(_, _)
LoadAll(sym, ns) == IF ns = <<>> THEN sym ELSE LoadAll(Load(sym, Head(ns)), Tail(ns))
RECURSIVE StoreAll(_, _)
StoreAll(sym, ns) == IF ns = <<>> THEN sym ELSE StoreAll(Store(sym, Head(ns)), Tail(ns))

\* FrameSymbolVisitor.visit_If up to the point where branch_update loops over `stores`
BranchSyms(sym, branches) == [b \in 1..Len(branches) |-> StoreAll(sym, branches[b])]
NewStores(sym, bs) == UNION {bs[b].stores : b \in 1..Len(bs)} \ sym.stores
RECURSIVE Merge(_, _)
Merge(sym, bs) ==
    IF bs = <<>> THEN sym
    ELSE Merge([refs |-> sym.refs \cup Head(bs).refs, stores |-> sym.stores \cup Head(bs).stores,
                loads |-> DictUpdate(sym.loads, Head(bs).loads)], Tail(bs))
\* for name in stores: self.loads[target] = (VAR_LOAD_RESOLVE, name)
RECURSIVE ResolveAll(_, _)
ResolveAll(ld, order) == IF order = <<>> THEN ld ELSE ResolveAll(DictSet(ld, Head(order), "resolve"), Tail(order))

(* ---- the machine -------------------------------------------------------------- *)
Sym == [refs |-> refs, stores |-> stores, loads |-> loads]
CSym == [refs |-> refs, stores |-> stores, loads |-> cloads]

Init ==
    /\ sw \in Switches
    /\ prog = <<>> /\ phase = "pick" /\ i = 1
    /\ tord = [x \in 1..MaxStmts |-> <<>>]
    /\ refs = {} /\ stores = {} /\ loads = <<>> /\ cloads = <<>>
    /\ fids = <<>> /\ tids = <<>> /\ cfids = <<>> /\ ctids = <<>> /\ lastId = 0
    /\ out = <<>> /\ canon = <<>> /\ sites = {}

Pick(s) ==
    /\ phase = "pick" /\ Len(prog) < MaxStmts
    /\ prog' = Append(prog, s)
    /\ UNCHANGED <<sw, phase, i, tord, refs, stores, loads, fids, tids, lastId, out, cloads, cfids, ctids, canon, sites>>

Go ==
    /\ phase = "pick" /\ prog # <<>>
    /\ phase' = "parse"
    /\ UNCHANGED <<sw, prog, i, tord, refs, stores, loads, fids, tids, lastId, out, cloads, cfids, ctids, canon, sites>>

\* Environment.parse: the i18n extension registers the free names of a trans block
\*     for name in referenced: variables[name] = nodes.Name(name, "load")            SITE trans
Parse ==
    /\ phase = "parse"
    /\ IF i <= Len(prog)
       THEN /\ IF prog[i].k = "trans"
               THEN \E order \in Orders(Range(prog[i].a[1]), sw.trans) :
                        /\ tord' = [tord EXCEPT ![i] = order]
                        /\ sites' = IF Len(order) >= 2 THEN sites \cup {"trans"} ELSE sites
               ELSE UNCHANGED <<tord, sites>>
            /\ i' = i + 1 /\ phase' = phase
       ELSE /\ phase' = "analyze" /\ i' = 1 /\ UNCHANGED <<tord, sites>>
    /\ UNCHANGED <<sw, prog, refs, stores, loads, fids, tids, lastId, out, cloads, cfids, ctids, canon>>

Mark(site, S) == IF Cardinality(S) >= 2 THEN sites \cup {site} ELSE sites

\* frame.symbols.analyze_node(template): one statement per step
Analyze ==
    /\ phase = "analyze" /\ i <= Len(prog)
    /\ LET s == prog[i] IN
       CASE s.k \in {"set", "from"} ->
                LET r == StoreAll(Sym, s.a[1]) c == StoreAll(CSym, s.a[1])
                IN refs' = r.refs /\ stores' = r.stores /\ loads' = r.loads /\ cloads' = c.loads /\ sites' = sites
         [] s.k = "macro" ->
                LET r == Store(Sym, MACRONAME) c == Store(CSym, MACRONAME)
                IN refs' = r.refs /\ stores' = r.stores /\ loads' = r.loads /\ cloads' = c.loads /\ sites' = sites
         [] s.k = "out" ->
                LET r == Load(Sym, RVAR) c == Load(CSym, RVAR)
                IN refs' = r.refs /\ stores' = r.stores /\ loads' = r.loads /\ cloads' = c.loads /\ sites' = sites
         [] s.k = "include" -> UNCHANGED <<refs, stores, loads, cloads, sites>>
         [] s.k = "trans" ->       \* the order was fixed when the extension parsed the block (see Parse)
                LET r == LoadAll(Sym, tord[i]) c == LoadAll(CSym, SortedSeq(Range(s.a[1])))
                IN refs' = r.refs /\ stores' = r.stores /\ loads' = r.loads /\ cloads' = c.loads /\ sites' = sites
         [] s.k = "if" ->
                LET r0 == Load(Sym, COND)       c0 == Load(CSym, COND)
                    bs == BranchSyms(r0, s.a)   cbs == BranchSyms(c0, s.a)
                    new == NewStores(r0, bs)
                    m == Merge(r0, bs)          cm == Merge(c0, cbs)
                IN \E order \in Orders(new, sw.branch) :              \* SITE branch
                       /\ refs' = m.refs /\ stores' = m.stores
                       /\ loads' = ResolveAll(m.loads, order)
                       /\ cloads' = ResolveAll(cm.loads, SortedSeq(new))
                       /\ sites' = Mark("branch", new)
    /\ i' = i + 1
    /\ UNCHANGED <<sw, prog, phase, tord, fids, tids, lastId, out, cfids, ctids, canon>>

\* CodeGenerator.enter_frame: resolve lines in dict order, then one "a = b = missing" line
LoadLines(ld) ==
    LET res == SelectSeq(ld, LAMBDA e : e[2] = "resolve")
        und == SelectSeq(ld, LAMBDA e : e[2] = "undefined")
    IN [x \in 1..Len(res) |-> <<"resolve", res[x][1]>>]
       \o (IF und = <<>> THEN <<>> ELSE << <<"missing", [x \in 1..Len(und) |-> und[x][1]]>> >>)

EnterFrame ==
    /\ phase = "analyze" /\ i > Len(prog)
    /\ out' = out \o LoadLines(loads)
    /\ canon' = canon \o LoadLines(cloads)
    /\ phase' = "deps"
    /\ UNCHANGED <<sw, prog, i, tord, refs, stores, loads, fids, tids, lastId, cloads, cfids, ctids, sites>>

\* pull_dependencies(template body): the visitor collects two sets
AllOf(pos) == UNION {Range(prog[x].a[pos]) : x \in {y \in 1..Len(prog) : prog[y].k = "out"}}
RECURSIVE Number(_, _, _)
Number(order, base, kind) ==      \* id_map[name] = temporary_identifier(); emit the try/except preamble
    IF order = <<>> THEN [ids |-> <<>>, lines |-> <<>>]
    ELSE LET rest == Number(Tail(order), base + 1, kind)
         IN [ids |-> << <<Head(order), base + 1>> >> \o rest.ids,
             lines |-> << <<"dep", kind, Head(order), base + 1>> >> \o rest.lines]

Deps ==
    /\ phase = "deps"
    /\ LET F == AllOf(1) T == AllOf(2) IN
       \E fo \in Orders(F, sw.deps), to \in Orders(T, sw.deps) :        \* SITE deps (twice)
           LET f == Number(fo, lastId, "filters")            t == Number(to, lastId + Len(fo), "tests")
               cf == Number(SortedSeq(F), lastId, "filters") ct == Number(SortedSeq(T), lastId + Len(fo), "tests")
           IN /\ fids' = f.ids /\ tids' = t.ids /\ cfids' = cf.ids /\ ctids' = ct.ids
              /\ lastId' = lastId + Len(fo) + Len(to)
              /\ out' = out \o f.lines \o t.lines
              /\ canon' = canon \o cf.lines \o ct.lines
              /\ sites' = IF Cardinality(F) >= 2 \/ Cardinality(T) >= 2 THEN sites \cup {"deps"} ELSE sites
    /\ phase' = "emit" /\ i' = 1
    /\ UNCHANGED <<sw, prog, tord, refs, stores, loads, cloads>>

\* pop_assign_tracking for a top-level assignment to the names `targets`
AssignLines(vs, order, pubOrder) ==
    (IF Cardinality(vs) = 1 THEN << <<"ctxvar", CHOOSE x \in vs : TRUE>> >>
     ELSE << <<"ctxupdate", order>> >>)
    \o (IF pubOrder = <<>> THEN <<>>
        ELSE IF Len(pubOrder) = 1 THEN << <<"exportadd", pubOrder[1]>> >>
        ELSE << <<"exportupdate", pubOrder>> >>)

\* visit_Filter / visit_Test call the t_N chosen by pull_dependencies: {{ r|f2|f1 }} is t_f1(t_f2(r)),
\* every test is an output of its own
Rev(s) == [x \in 1..Len(s) |-> s[Len(s) + 1 - x]]
UseLines(fs, ts, fi, ti) ==
    [x \in 1..Len(fs) |-> <<"use", DictGet(fi, Rev(fs)[x])>>] \o [x \in 1..Len(ts) |-> <<"use", DictGet(ti, ts[x])>>]

RECURSIVE Flat(_)
Flat(ss) == IF ss = <<>> THEN <<>> ELSE Head(ss) \o Flat(Tail(ss))

RECURSIVE Single(_)
Single(ns) == IF ns = <<>> THEN <<>>
              ELSE <<<<"ctxvar", Head(ns)>>>> \o (IF Head(ns) \in Private THEN <<>> ELSE <<<<"exportadd", Head(ns)>>>>)
                   \o Single(Tail(ns))

Emit ==
    /\ phase = "emit" /\ i <= Len(prog)
    /\ LET s == prog[i] IN
       CASE s.k = "set" ->
                LET V == Range(s.a[1])  P == V \ Private IN
                \E o \in Orders(V, sw.assign), po \in Orders(P, sw.public) :          \* SITES assign, public
                    /\ out' = out \o AssignLines(V, o, po)
                    /\ canon' = canon \o AssignLines(V, SortedSeq(V), SortedSeq(P))
                    /\ sites' = Mark("assign", V) \cup Mark("public", P)
         [] s.k = "if" ->          \* every {% set x = .. %} in a branch is a one-name assignment
                /\ out' = out \o <<<<"if">>>> \o Single(Flat(s.a))
                /\ canon' = canon \o <<<<"if">>>> \o Single(Flat(s.a))
                /\ sites' = sites
         [] s.k = "from" ->        \* visit_FromImport works on lists, in source order
                /\ out' = Append(out, <<"from", s.a[1]>>)
                /\ canon' = Append(canon, <<"from", s.a[1]>>)
                /\ sites' = sites
         [] s.k = "out" ->
                /\ out' = out \o UseLines(s.a[1], s.a[2], fids, tids)
                /\ canon' = canon \o UseLines(s.a[1], s.a[2], cfids, ctids)
                /\ sites' = sites
         [] s.k = "include" ->     \* dump_local_context -> Symbols.dump_stores
                \E o \in Orders(stores, sw.dump) :                                     \* SITE dump
                    /\ out' = Append(out, <<"localctx", o>>)
                    /\ canon' = Append(canon, <<"localctx", SortedSeq(stores)>>)
                    /\ sites' = Mark("dump", stores)
         [] s.k = "trans" ->       \* the % {...} dict literal (or the keyword arguments) in variables order
                /\ out' = Append(out, <<"transvars", tord[i]>>)
                /\ canon' = Append(canon, <<"transvars", SortedSeq(Range(s.a[1]))>>)
                /\ sites' = sites
         [] s.k = "macro" ->       \* find_undeclared(body, ("caller","kwargs","varargs")): a set, membership only
                LET U == Range(s.a[1]) IN
                /\ out' = Append(out, <<"macro", 2 \in U, 3 \in U, 1 \in U>>)
                /\ canon' = Append(canon, <<"macro", 2 \in U, 3 \in U, 1 \in U>>)
                /\ sites' = Mark("undecl", U)
    /\ i' = i + 1
    /\ UNCHANGED <<sw, prog, phase, tord, refs, stores, loads, fids, tids, lastId, cloads, cfids, ctids>>

Done ==
    /\ phase = "emit" /\ i > Len(prog)
    /\ phase' = "done"
    /\ IF SortedAsInCode(sw) /\ out = canon
       THEN PrintT(ToJson([prog |-> prog, canon |-> canon, sites |-> sites]))
       ELSE IF out # canon     \* a sorted site is switched off and this order gives different code
            THEN PrintT(ToJson([leak |-> sw, prog |-> prog]))
            ELSE TRUE
    /\ UNCHANGED <<sw, prog, i, tord, refs, stores, loads, fids, tids, lastId, out, cloads, cfids, ctids, canon, sites>>

Next == (\E s \in Stmts : Pick(s)) \/ Go \/ Parse \/ Analyze \/ EnterFrame \/ Deps \/ Emit \/ Done

Spec == Init /\ [][Next]_vars

(* ---- properties ----------------------------------------------------------------- *)
\* the generated code does not depend on any set iteration order
C30_OrderIndependent == SortedAsInCode(sw) => out = canon

\* ... in particular the loads dict (order of the l_N_x = ... lines) does not
C30_LoadsIndependent == sw.trans => loads = cloads

\* the unsorted site only touches keys that already exist (why it is harmless)
C30_BranchOverwritesOnly ==
    phase = "analyze" /\ i <= Len(prog) /\ prog[i].k = "if" =>
        LET r0 == Load(Sym, COND) bs == BranchSyms(r0, prog[i].a)
        IN \A n \in NewStores(r0, bs) : HasKey(Merge(r0, bs).loads, n)

\* for the negative controls (a sorted site switched off): expected to be violated
C30_AnySwitches == out = canon
=============================================================================
