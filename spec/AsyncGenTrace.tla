---------------------------- MODULE AsyncGenTrace ----------------------------
(***************************************************************************)
(* Trace validation for C36: executions of the real engine, driven by the  *)
(* harness (jv.asyncgen_util.Runner) and observed through                  *)
(* sys.set_asyncgen_hooks, are accepted iff they are behaviours of         *)
(* AsyncGen.tla for the program extracted from the generated code.         *)
(*                                                                         *)
(* A recorded trace is the sequence of points at which control was back    *)
(* in the driver -                                                         *)
(*    gate   the task suspended in an awaited data function                *)
(*    chunk  generate_async handed a chunk to its consumer                 *)
(*    done   the task finished                                             *)
(* each with the states of all engine generators started so far, in start  *)
(* order (snap), and with what the driver did next (act: resume / cancel / *)
(* fault / next / close).  Between two recorded points the specification   *)
(* may take any internal steps; at a recorded point its generator states   *)
(* must equal the recorded ones.                                           *)
(***************************************************************************)
EXTENDS AsyncGen

Traces == JsonDeserialize(IOEnv.TRACE_FILE)

VARIABLES tid, l

tvars == <<pid, mode, frames, stack, phase, how, fuel, tid, l>>

E == Traces[tid].ev

TInit ==
    /\ tid \in 1..Len(Traces)
    /\ l = 0
    /\ pid = Traces[tid].pid
    /\ mode = Traces[tid].mode
    /\ InitFrames

Visible(p) == p \in {"gate", "chunk", "done"}

\* Generator instances are only ever appended to `frames` and keep their function, and every
\* recorded snapshot lists the generators in start order: so a behaviour that starts a generator
\* which is not the next one of the last recorded snapshot can never be accepted.  (Pure pruning,
\* implied by the snapshot equalities below; it keeps the search linear when a loop may or may not
\* put an adapter generator between the data and the loop body and no recorded point intervenes.)
LastSnap == E[Len(E)].snap
StartsAsRecorded ==
    Len(frames') > Len(frames) =>
        LET n == Len(frames') - 1 IN
        /\ n <= Len(LastSnap)
        /\ LastSnap[n][1] = Short(frames'[n + 1].fn)

TNext ==
    /\ Step
    /\ UNCHANGED tid
    /\ StartsAsRecorded
    /\ IF phase = "run"
       THEN IF Visible(phase')
            THEN /\ l < Len(E)
                 /\ E[l + 1].k = phase'
                 /\ E[l + 1].snap = Snap'
                 /\ phase' = "done" => E[l + 1].how = how'
                 /\ l' = l + 1
            ELSE l' = l
       ELSE \* the driver's move after a recorded point
            /\ l' = l
            /\ l > 0
            /\ LET a == E[l].act IN
               CASE a = "resume" -> phase = "gate" /\ how' = how
                 [] a = "cancel" -> phase = "gate" /\ how' = "cancel" /\ how # "cancel"
                 [] a = "fault" -> phase = "gate" /\ how' = "fault" /\ how # "fault"
                 [] a = "next" -> phase = "chunk" /\ how' = how
                 [] a = "close" -> phase = "chunk" /\ how' = "close" /\ how # "close"
                 [] OTHER -> FALSE

TSpec == TInit /\ [][TNext]_tvars

Accepting == phase = "done" /\ l = Len(E)

\* used as a CONSTRAINT: reports every accepted trace id (the harness computes
\* rejected = all - accepted; printing keeps this independent of the worker count)
Collect == IF Accepting THEN PrintT("ACC " \o ToString(tid)) ELSE TRUE

\* a trace that was accepted ends with every generator closed, or the real run leaked
C36_AcceptedEndsClosed == Accepting => (Unclosed = {} <=> \A i \in 1..Len(E[l].snap) : E[l].snap[i][2] = "closed")
=============================================================================
