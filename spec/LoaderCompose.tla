--------------------------- MODULE LoaderCompose ---------------------------
(***************************************************************************)
(* ChoiceLoader / PrefixLoader resolution (property C28, second sentence): *)
(* a composition of loaders resolves a name to the first loader that has   *)
(* it and raises TemplateNotFound exactly when none has it.                *)
(*                                                                         *)
(* A composition is a tree                                                 *)
(*    [k |-> "leaf",   id]                       a loader with the set of  *)
(*                                               templates has[id]         *)
(*    [k |-> "choice", subs]                     ChoiceLoader(subs)        *)
(*    [k |-> "prefix", delim, keys, subs]        PrefixLoader({keys[j]:    *)
(*                                               subs[j]}, delim)          *)
(* Names and delimiters are sequences of atoms (words, "/", ":", "-", ">")  *)
(* as in Loaders.tla; a delimiter may have several atoms ("::", "->").     *)
(*                                                                         *)
(* Operational layer = get_source / load of the two classes as a machine   *)
(* with an explicit stack of active loader calls and a result register:    *)
(*   LeafLookup                     leaf answers (source or TemplateNotFound)*)
(*   ChoiceTry / ChoiceCatch /      the for loop with try/except of        *)
(*   ChoiceReturn / ChoiceExhausted ChoiceLoader                           *)
(*   PrefixRoute / PrefixNoRoute /  template.split(delimiter, 1), mapping  *)
(*   PrefixReturn                   lookup, delegation, re-raise           *)
(* Abstract layer = Candidates(tree, name): the leaves that can answer, in *)
(* priority order, each with the local name it is asked; the result is the *)
(* first candidate that has its name.                                      *)
(***************************************************************************)
EXTENDS Naturals, Sequences, FiniteSets, TLC, Json

CONSTANTS Comps,      \* set of [id |-> n, t |-> tree]: the compositions
          NameSet,    \* set of names
          LeafHas     \* leaf id -> set of names it has

VARIABLES c, tree, name, stack, ret, asked,    \* c = id of the composition, tree = the composition
          want,                              \* what the abstract layer says for (tree, name): [res, asked, cands]
          has                                \* leaf id -> set of names it has NOW (= LeafHas here; LoaderSession.tla,
                                             \* which extends this module, lets it change between two lookups)

vars == <<c, tree, name, stack, ret, asked, want, has>>

None == <<"none">>
NF == <<"TemplateNotFound">>
Src(id, n) == <<"source", id, n>>

(* ---- abstract layer ----------------------------------------------------- *)
\* the delimiter is a non-empty sequence of atoms ("/", "::", "->", ...); str.split(delim, 1) cuts at
\* its first occurrence and drops the WHOLE delimiter
OccursAt(n, d, k) == k + Len(d) - 1 <= Len(n) /\ SubSeq(n, k, k + Len(d) - 1) = d
HasDelim(n, d) == \E k \in 1..Len(n) : OccursAt(n, d, k)
FirstIdx(n, d) == CHOOSE k \in 1..Len(n) : OccursAt(n, d, k) /\ \A j \in 1..(k - 1) : ~OccursAt(n, d, j)

\* where a prefix loader sends a name: 0 = nowhere
RouteIdx(t, n) ==
    IF ~HasDelim(n, t.delim) THEN 0
    ELSE LET pre == SubSeq(n, 1, FirstIdx(n, t.delim) - 1)
             hits == {j \in 1..Len(t.keys) : t.keys[j] = pre}
         IN IF hits = {} THEN 0 ELSE CHOOSE j \in hits : TRUE
RouteRest(t, n) == SubSeq(n, FirstIdx(n, t.delim) + Len(t.delim), Len(n))

RECURSIVE Concat(_)
Concat(ss) == IF ss = <<>> THEN <<>> ELSE Head(ss) \o Concat(Tail(ss))

RECURSIVE Candidates(_, _)
Candidates(t, n) ==
    CASE t.k = "leaf" -> << <<t.id, n>> >>
      [] t.k = "choice" -> Concat([j \in 1..Len(t.subs) |-> Candidates(t.subs[j], n)])
      [] t.k = "prefix" -> IF RouteIdx(t, n) = 0 THEN <<>>
                           ELSE Candidates(t.subs[RouteIdx(t, n)], RouteRest(t, n))

Has(cand) == cand[2] \in has[cand[1]]

AbstractResult(t, n) ==
    LET cs == Candidates(t, n)
        hits == {k \in 1..Len(cs) : Has(cs[k])}
    IN IF hits = {} THEN NF
       ELSE LET k == CHOOSE k \in hits : \A j \in hits : k <= j IN Src(cs[k][1], cs[k][2])

\* the leaves consulted: all candidates up to and including the first hit
AbstractAsked(t, n) ==
    LET cs == Candidates(t, n)
        hits == {k \in 1..Len(cs) : Has(cs[k])}
    IN IF hits = {} THEN cs
       ELSE SubSeq(cs, 1, CHOOSE k \in hits : \A j \in hits : k <= j)

(* ---- operational layer --------------------------------------------------- *)
Frame(t, n, pre) == [t |-> t, n |-> n, i |-> 0, pre |-> pre]
Top == stack[Len(stack)]
Pop == SubSeq(stack, 1, Len(stack) - 1)
SetTopI(k) == [stack EXCEPT ![Len(stack)].i = k]

Init ==
    /\ has = LeafHas
    /\ \E comp \in Comps : c = comp.id /\ tree = comp.t
    /\ name \in NameSet
    /\ want = [res |-> AbstractResult(tree, name), asked |-> AbstractAsked(tree, name),
               cands |-> Candidates(tree, name)]
    /\ stack = <<Frame(tree, name, <<>>)>>
    /\ ret = None
    /\ asked = <<>>

LeafLookup ==
    /\ stack # <<>> /\ Top.t.k = "leaf" /\ ret = None
    /\ ret' = IF Top.n \in has[Top.t.id] THEN Src(Top.t.id, Top.n) ELSE NF
    /\ asked' = Append(asked, <<Top.t.id, Top.n>>)
    /\ stack' = Pop
    /\ UNCHANGED <<c, tree, name, want, has>>

\* for loader in self.loaders: try: return loader.get_source(...)
ChoiceTry ==
    /\ stack # <<>> /\ Top.t.k = "choice" /\ ret = None /\ Top.i < Len(Top.t.subs)
    /\ stack' = Append(SetTopI(Top.i + 1), Frame(Top.t.subs[Top.i + 1], Top.n, Top.pre))
    /\ UNCHANGED <<c, tree, name, ret, asked, want, has>>

\* except TemplateNotFound: pass   (the loop goes on with ChoiceTry / ChoiceExhausted)
ChoiceCatch ==
    /\ stack # <<>> /\ Top.t.k = "choice" /\ ret = NF
    /\ ret' = None
    /\ UNCHANGED <<c, tree, name, stack, asked, want, has>>

ChoiceReturn ==
    /\ stack # <<>> /\ Top.t.k = "choice" /\ ret # None /\ ret # NF
    /\ stack' = Pop
    /\ UNCHANGED <<c, tree, name, ret, asked, want, has>>

\* raise TemplateNotFound(template) after the loop
ChoiceExhausted ==
    /\ stack # <<>> /\ Top.t.k = "choice" /\ ret = None /\ Top.i = Len(Top.t.subs)
    /\ ret' = NF
    /\ stack' = Pop
    /\ UNCHANGED <<c, tree, name, asked, want, has>>

\* prefix, name = template.split(self.delimiter, 1); loader = self.mapping[prefix]
PrefixRoute ==
    /\ stack # <<>> /\ Top.t.k = "prefix" /\ ret = None /\ Top.i = 0
    /\ RouteIdx(Top.t, Top.n) # 0
    /\ LET j == RouteIdx(Top.t, Top.n)
           rest == RouteRest(Top.t, Top.n)
           cut == SubSeq(Top.n, 1, Len(Top.n) - Len(rest))
       IN stack' = Append(SetTopI(1), Frame(Top.t.subs[j], rest, Top.pre \o cut))
    /\ UNCHANGED <<c, tree, name, ret, asked, want, has>>

\* ValueError (no delimiter) / KeyError (unknown prefix) -> TemplateNotFound
PrefixNoRoute ==
    /\ stack # <<>> /\ Top.t.k = "prefix" /\ ret = None /\ Top.i = 0
    /\ RouteIdx(Top.t, Top.n) = 0
    /\ ret' = NF
    /\ stack' = Pop
    /\ UNCHANGED <<c, tree, name, asked, want, has>>

\* result of the delegate, or its TemplateNotFound re-raised with the full name
PrefixReturn ==
    /\ stack # <<>> /\ Top.t.k = "prefix" /\ ret # None /\ Top.i = 1
    /\ stack' = Pop
    /\ UNCHANGED <<c, tree, name, ret, asked, want, has>>

Done ==
    /\ stack = <<>> /\ ret # None
    /\ PrintT(ToJson([c |-> c, n |-> name, r |-> ret, asked |-> asked]))
    /\ UNCHANGED vars

Next == LeafLookup \/ ChoiceTry \/ ChoiceCatch \/ ChoiceReturn \/ ChoiceExhausted
        \/ PrefixRoute \/ PrefixNoRoute \/ PrefixReturn \/ Done

Spec == Init /\ [][Next]_vars /\ WF_vars(Next)

(* ---- properties ----------------------------------------------------------- *)
Finished == stack = <<>>

\* the answer is the source of the first candidate that has the name
C28_ChoiceFirst == Finished => ret = want.res

\* TemplateNotFound exactly when no candidate has the name
C28_NotFoundIffNone ==
    Finished => (ret = NF <=> \A k \in 1..Len(want.cands) : ~Has(want.cands[k]))

\* every active call works on the original name minus the prefixes routed so far
C28_PrefixRouting == \A k \in 1..Len(stack) : stack[k].pre \o stack[k].n = name

\* leaves are consulted in candidate order, and not beyond the first hit
C28_AskedInOrder ==
    LET aa == want.asked
    IN /\ Len(asked) <= Len(aa) /\ asked = SubSeq(aa, 1, Len(asked))
       /\ Finished => asked = aa

C28_ComposeTerminates == <>Finished
=============================================================================
