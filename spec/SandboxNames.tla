---------------------------- MODULE SandboxNames ----------------------------
(***************************************************************************)
(* C18, the names of a sandboxed template.  A call `n(...)` written in a   *)
(* template goes through the call gate with THE VALUE THE NAME HOLDS WHEN   *)
(* THE CALL HAPPENS (SandboxGate.CallGate decides by the object).  A name  *)
(* has a history: it may have been bound by a {% macro %} definition, by   *)
(* {% set %}, {% with %}, a for loop or as a macro parameter, in this or   *)
(* in an enclosing scope, and is rebound freely.  Neither the kind of a    *)
(* binding nor what the name held earlier (or holds further down the       *)
(* source) says anything about the object that is called.                  *)
(*                                                                         *)
(* Abstract layer: Call(n) asks the gate about Lookup(n).                  *)
(* Operational layer (shaped like a compiler that decides per call site    *)
(* whether to emit the gate): GateEmitted(n).  With TrustMacroNames the    *)
(* compiler skips the gate for names some macro definition of the source   *)
(* binds ("macros are the template's own code") -- the negative control:   *)
(* TLC must then find an unsafe callable running.                          *)
(***************************************************************************)
EXTENDS Naturals, Sequences, FiniteSets

CONSTANTS Names,            \* variable names of the template
          MaxDepth,         \* nesting of scopes
          MaxSteps,
          TrustMacroNames   \* BOOLEAN: the shortcut (must be FALSE for the property to hold)

VARIABLES scopes,      \* stack of frames: name -> [kind, val] (kind "none" = not bound here)
          macroNames,  \* names some macro definition seen so far in the source binds
          ranLog,      \* <<name, kind of the binding, value, gate asked>> of everything that ran
          outcome, steps

nvars == <<scopes, macroNames, ranLog, outcome, steps>>

Vals == {"macro", "safe", "unsafe"}     \* a macro of the template, a safe / an unsafe callable of the application
ScopeKinds == {"with", "loop", "param"} \* bindings that open a scope of their own
Unbound == [kind |-> "none", val |-> "none"]
EmptyFrame == [n \in Names |-> Unbound]

NInit ==
    /\ scopes = <<EmptyFrame>>
    /\ macroNames = {}
    /\ ranLog = <<>>
    /\ outcome = "none"
    /\ steps = 0

Running == outcome = "none" /\ steps < MaxSteps
Top == Len(scopes)

RECURSIVE LookupFrom(_, _)
LookupFrom(n, d) ==
    IF d = 0 THEN Unbound
    ELSE IF scopes[d][n].kind # "none" THEN scopes[d][n] ELSE LookupFrom(n, d - 1)
Lookup(n) == LookupFrom(n, Top)

(* {% macro n() %}...{% endmacro %} in the current scope *)
DefMacro(n) ==
    /\ Running
    /\ scopes' = [scopes EXCEPT ![Top][n] = [kind |-> "macro", val |-> "macro"]]
    /\ macroNames' = macroNames \cup {n}
    /\ steps' = steps + 1
    /\ UNCHANGED <<ranLog, outcome>>

(* {% set n = v %} in the current scope *)
BindSet(n, v) ==
    /\ Running
    /\ scopes' = [scopes EXCEPT ![Top][n] = [kind |-> "set", val |-> v]]
    /\ steps' = steps + 1
    /\ UNCHANGED <<macroNames, ranLog, outcome>>

(* {% with n = v %} / {% for n in [v] %} / the body of a macro whose parameter n received v *)
Enter(k, n, v) ==
    /\ Running
    /\ Top < MaxDepth
    /\ scopes' = Append(scopes, [EmptyFrame EXCEPT ![n] = [kind |-> k, val |-> v]])
    /\ steps' = steps + 1
    /\ UNCHANGED <<macroNames, ranLog, outcome>>

Leave ==
    /\ Running
    /\ Top > 1
    /\ scopes' = SubSeq(scopes, 1, Top - 1)
    /\ steps' = steps + 1
    /\ UNCHANGED <<macroNames, ranLog, outcome>>

(* does the generated code ask the gate at a call site whose callee is the name n *)
GateEmitted(n) == ~(TrustMacroNames /\ n \in macroNames)

(* {{ n() }}: the gate (if asked) sees the value the name holds NOW; a refusal raises SecurityError
   before anything runs *)
Call(n) ==
    /\ Running
    /\ Lookup(n).kind # "none"
    /\ LET b == Lookup(n)
           asked == GateEmitted(n)
       IN IF asked /\ b.val = "unsafe"
          THEN /\ outcome' = "SecurityError"
               /\ UNCHANGED ranLog
          ELSE /\ ranLog' = Append(ranLog, <<n, b.kind, b.val, asked>>)
               /\ UNCHANGED outcome
    /\ steps' = steps + 1
    /\ UNCHANGED <<scopes, macroNames>>

NDefMacro == \E n \in Names : DefMacro(n)
NBindSet == \E n \in Names : \E v \in {"safe", "unsafe"} : BindSet(n, v)
NEnter == \E k \in ScopeKinds : \E n \in Names : \E v \in {"safe", "unsafe"} : Enter(k, n, v)
NCall == \E n \in Names : Call(n)

NNext == NDefMacro \/ NBindSet \/ NEnter \/ Leave \/ NCall

NSpec == NInit /\ [][NNext]_nvars

NTypeOK ==
    /\ outcome \in {"none", "SecurityError"}
    /\ macroNames \subseteq Names
    /\ Top \in 1..MaxDepth

\* C18 at the level of names: whatever the history of a name, an unsafe callable never runs
C18_NamesUnsafeNeverRuns == \A i \in 1..Len(ranLog) : ranLog[i][3] # "unsafe"

\* the abstract rule: every call asked the gate (about the value that then ran)
C18_EveryCallAsksTheGate == \A i \in 1..Len(ranLog) : ranLog[i][4]

\* reachability witnesses (must be VIOLATED: used as vacuity guards): a name a macro definition bound
\* is rebound to an unsafe callable and called -- the call is refused
NoRefusalOfARebound == ~(outcome = "SecurityError" /\ macroNames # {})
=============================================================================
