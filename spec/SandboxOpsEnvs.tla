--------------------------- MODULE SandboxOpsEnvs ---------------------------
(***************************************************************************)
(* Operator interception with SEVERAL sandboxed environments (C20).        *)
(*                                                                         *)
(* "For every sandboxed environment that intercepts a set of operators,    *)
(* every application of an intercepted operator is routed through the      *)
(* interception hook ...  The rendered result equals the hook's result":   *)
(* the hook of an environment is call_binop / call_unop, which by default  *)
(* looks the operator up in the callback table of THAT environment         *)
(* (binop_table / unop_table: "a copy of [the default table] is available  *)
(* on each instance").  What an environment intercepts and what its        *)
(* callbacks are is state of that environment alone.                       *)
(*                                                                         *)
(* State: envs[e] = the operator configuration of environment e            *)
(* (SandboxOpsSem: intercepted sets b, u; callback tables tb, tu), `live`  *)
(* = the environments created so far.  A scenario (IOEnv.SCEN_FILE,        *)
(* written by the harness' generator) is a sequence of steps               *)
(*   new(e, b, u)            a fresh environment: the given intercepted    *)
(*                           sets, the builtin operator for every entry    *)
(*   install(e, op, un, k)   the application puts callback k (0 = the      *)
(*                           builtin operator back) into e's table for the *)
(*                           binary (un = FALSE) / unary operator op       *)
(*   icept(e, b, u)          e's intercepted sets are replaced             *)
(*   render(e, c)            e renders the template of case c: evaluated   *)
(*                           by SandboxOpsSem under envs[e]                *)
(* (one action each).  TLC walks every scenario and prints, for every      *)
(* render step, the expected applications that go through the hook (with   *)
(* the callback each one reaches), the values and the status;              *)
(* the harness performs the same steps on real SandboxedEnvironment        *)
(* instances (hooks installed through env.binop_table / env.unop_table)    *)
(* and compares.                                                           *)
(***************************************************************************)
EXTENDS SandboxOpsSem, Json, IOUtils

In == JsonDeserialize(IOEnv.SCEN_FILE)
Cases == In.cases
Scenarios == In.scenarios
EnvIds == 1..In.nenv

VARIABLES scn,    \* the scenario walked (never changes)
          pc,     \* next step
          live,   \* environments that exist
          envs,   \* environment -> operator configuration
          res     \* result of the last render step

vars == <<scn, pc, live, envs, res>>

Builtin == [b |-> {}, u |-> {}, tb |-> [op \in BinOps |-> 0], tu |-> [op \in UnOps |-> 0]]

Steps == Scenarios[scn]
S == Steps[pc]

Init ==
    /\ scn \in 1..Len(Scenarios)
    /\ pc = 1
    /\ live = {}
    /\ envs = [e \in EnvIds |-> Builtin]
    /\ res = NoRes

More == pc <= Len(Steps)
Adv == pc' = pc + 1 /\ UNCHANGED scn

New ==
    /\ More /\ Adv
    /\ S.t = "new" /\ S.e \notin live
    /\ live' = live \cup {S.e}
    /\ envs' = [envs EXCEPT ![S.e] = [Builtin EXCEPT !.b = SetOf(S.b), !.u = SetOf(S.u)]]
    /\ UNCHANGED res

Install ==
    /\ More /\ Adv
    /\ S.t = "install" /\ S.e \in live
    /\ envs' = IF S.un THEN [envs EXCEPT ![S.e].tu[S.op] = S.tag]
               ELSE [envs EXCEPT ![S.e].tb[S.op] = S.tag]
    /\ UNCHANGED <<live, res>>

Icept ==
    /\ More /\ Adv
    /\ S.t = "icept" /\ S.e \in live
    /\ envs' = [envs EXCEPT ![S.e].b = SetOf(S.b), ![S.e].u = SetOf(S.u)]
    /\ UNCHANGED <<live, res>>

Render ==
    /\ More /\ Adv
    /\ S.t = "render" /\ S.e \in live
    /\ res' = RunCase(Cases[S.c], envs[S.e])
    /\ PrintT(ToJson([scn |-> scn, pc |-> pc, st |-> res'.st, out |-> res'.out, log |-> HookLog(res')]))
    /\ UNCHANGED <<live, envs>>

Step == New \/ Install \/ Icept \/ Render

Spec == Init /\ [][Step]_vars

(* ---- properties ---------------------------------------------------------------- *)
Rendered == pc > 1 /\ Steps[pc - 1].t = "render"
Last == Steps[pc - 1]

(* the hook sees all and only the executed applications of the operators THIS
   environment intercepts *)
C20_AllAndOnlyIntercepted == Rendered => AllAndOnlyIntercepted(res, envs[Last.e])

(* ... and each of them yields what the callback THIS environment holds for the operator
   returns: the builtin one unless the application installed another one in this
   environment *)
C20_ResultIsOwnHooks ==
    Rendered =>
        \A k \in 1..Len(res.apps) :
            LET a == res.apps[k] IN
            a.h => a.tag = (IF a.u THEN envs[Last.e].tu[a.op] ELSE envs[Last.e].tb[a.op])

(* a fresh environment has the builtin operator in every entry, whatever was installed
   in other environments before *)
C20_FreshEnvironmentHasBuiltins ==
    (pc > 1 /\ Last.t = "new") => (envs[Last.e].tb = Builtin.tb /\ envs[Last.e].tu = Builtin.tu)

(* a step concerns the environment it names: the configuration of every other one stays
   (action property) *)
C20_StepsAreLocal == [][\A f \in EnvIds : f # S.e => envs'[f] = envs[f]]_vars
=============================================================================
