---------------------------- MODULE SandboxData ----------------------------
(***************************************************************************)
(* Ground truth for property C19: the meaning of every public method of    *)
(* the four builtin container types list / dict / set / collections.deque, *)
(* written as its EFFECT ON A MODEL OF THE CONTAINER                       *)
(*     list, deque  -> finite sequence of elements                          *)
(*     set          -> finite set of elements                               *)
(*     dict         -> function from a finite set of keys to elements       *)
(* (not copied from jinja2.sandbox._mutable_spec).  From the effects TLC   *)
(* derives                                                                  *)
(*     Mutates(kind, m)  ==  some container state and some argument exist   *)
(*                           for which calling m leaves a different state   *)
(*     Mutators(kind)    ==  the public names that mutate                   *)
(* The effects themselves are bound to CPython by replay (SandboxDataMC:   *)
(* TLC enumerates (kind, method, state, args, state') and the harness runs *)
(* the real method on a real container), so the classification is checked  *)
(* against Python's own semantics on the running interpreter.              *)
(*                                                                         *)
(* A call that raises (pop from empty, remove of a missing element, index  *)
(* out of range) leaves the container unchanged.                           *)
(***************************************************************************)
EXTENDS Integers, Sequences, FiniteSets, TLC

Elems == {1, 2, 3}
DKeys == {"k1", "k2"}
ContainerKinds == {"list", "dict", "set", "deque"}

SeqsUpTo(S, n) == UNION {[1..k -> S] : k \in 0..n}

States(kind) ==
    CASE kind \in {"list", "deque"} -> SeqsUpTo(Elems, 2)
      [] kind = "set"  -> SUBSET Elems
      [] kind = "dict" -> UNION {[D -> {1, 2}] : D \in SUBSET DKeys}

(* public names, as dir() shows them on CPython 3.8 .. 3.13 *)
Methods(kind) ==
    CASE kind = "list" ->
           {"append", "clear", "copy", "count", "extend", "index", "insert",
            "pop", "remove", "reverse", "sort"}
      [] kind = "dict" ->
           {"clear", "copy", "fromkeys", "get", "items", "keys", "pop",
            "popitem", "setdefault", "update", "values"}
      [] kind = "set" ->
           {"add", "clear", "copy", "difference", "difference_update", "discard",
            "intersection", "intersection_update", "isdisjoint", "issubset",
            "issuperset", "pop", "remove", "symmetric_difference",
            "symmetric_difference_update", "union", "update"}
      [] kind = "deque" ->
           {"append", "appendleft", "clear", "copy", "count", "extend",
            "extendleft", "index", "insert", "maxlen", "pop", "popleft",
            "remove", "reverse", "rotate"}

(* names that are plain data attributes, not methods (reading them cannot
   run code on the container) *)
DataAttrs(kind) == IF kind = "deque" THEN {"maxlen"} ELSE {}

(* argument tuples explored per method *)
ElemArgs  == {<<x>> : x \in Elems}
SeqArgs   == {<<s>> : s \in SeqsUpTo(Elems, 2)}
SetArgs   == {<<s>> : s \in SUBSET {1, 2}}
NoArgs    == {<<>>}

Args(kind, m) ==
    CASE m \in {"clear", "copy", "reverse", "sort", "popitem", "items", "keys",
                "values", "popleft", "maxlen"} -> NoArgs
      [] m = "pop" -> IF kind = "dict" THEN {<<k>> : k \in DKeys} ELSE NoArgs
      [] m \in {"append", "appendleft", "count", "index", "remove", "add", "discard"} -> ElemArgs
      [] m \in {"extend", "extendleft"} -> SeqArgs
      [] m = "insert" -> {<<i, x>> : i \in 0..2, x \in {3}}
      [] m = "rotate" -> {<<n>> : n \in {0, 1}}
      [] m \in {"difference", "difference_update", "intersection",
                "intersection_update", "isdisjoint", "issubset", "issuperset",
                "symmetric_difference", "symmetric_difference_update", "union"} -> SetArgs
      [] m = "update" ->
           IF kind = "set" THEN SetArgs
           ELSE {<<d>> : d \in {[k \in {} |-> 0], [k \in {"k1"} |-> 2], [k \in {"k2"} |-> 1]}}
      [] m = "get" -> {<<k>> : k \in DKeys}
      [] m = "setdefault" -> {<<k, 2>> : k \in DKeys}
      [] m = "fromkeys" -> {<<s>> : s \in SeqsUpTo({1, 2}, 1)}

(* -- sequence helpers ------------------------------------------------------ *)
Rev(s) == [i \in 1..Len(s) |-> s[Len(s) + 1 - i]]

InsertAt(s, i, x) ==          \* list.insert(i, x), 0 <= i
    LET j == IF i > Len(s) THEN Len(s) ELSE i
    IN  SubSeq(s, 1, j) \o <<x>> \o SubSeq(s, j + 1, Len(s))

FirstIdx(s, x) == IF \E i \in 1..Len(s) : s[i] = x
                  THEN CHOOSE i \in 1..Len(s) : s[i] = x /\ \A j \in 1..(i - 1) : s[j] # x
                  ELSE 0

RemoveFirst(s, x) ==
    LET i == FirstIdx(s, x)
    IN  IF i = 0 THEN s ELSE SubSeq(s, 1, i - 1) \o SubSeq(s, i + 1, Len(s))

IsPerm(s, t) == /\ Len(s) = Len(t)
                /\ \A x \in Elems : Cardinality({i \in 1..Len(s) : s[i] = x})
                                  = Cardinality({i \in 1..Len(t) : t[i] = x})

Sorted(s) == CHOOSE t \in [1..Len(s) -> Elems] :
                 IsPerm(s, t) /\ \A i \in 1..(Len(t) - 1) : t[i] <= t[i + 1]

RotR(s) == IF s = <<>> THEN s ELSE <<s[Len(s)]>> \o SubSeq(s, 1, Len(s) - 1)

Restrict(d, D) == [k \in D |-> d[k]]
Merge(d, e) == [k \in (DOMAIN d) \cup (DOMAIN e) |-> IF k \in DOMAIN e THEN e[k] ELSE d[k]]

(* -- the effect of calling method m with argument tuple a on state s --------- *)
SeqEffect(m, s, a) ==
    CASE m = "append"     -> Append(s, a[1])
      [] m = "appendleft" -> <<a[1]>> \o s
      [] m = "clear"      -> <<>>
      [] m = "extend"     -> s \o a[1]
      [] m = "extendleft" -> Rev(a[1]) \o s
      [] m = "insert"     -> InsertAt(s, a[1], a[2])
      [] m = "pop"        -> IF s = <<>> THEN s ELSE SubSeq(s, 1, Len(s) - 1)
      [] m = "popleft"    -> IF s = <<>> THEN s ELSE Tail(s)
      [] m = "remove"     -> RemoveFirst(s, a[1])
      [] m = "reverse"    -> Rev(s)
      [] m = "sort"       -> Sorted(s)
      [] m = "rotate"     -> IF a[1] = 1 THEN RotR(s) ELSE s
      [] OTHER            -> s          \* copy count index maxlen

SetEffect(m, s, a) ==
    CASE m = "add"                         -> s \cup {a[1]}
      [] m = "clear"                       -> {}
      [] m = "difference_update"           -> s \ a[1]
      [] m = "discard"                     -> s \ {a[1]}
      [] m = "intersection_update"         -> s \cap a[1]
      [] m = "pop"                         -> IF s = {} THEN s ELSE s \ {CHOOSE x \in s : TRUE}
      [] m = "remove"                      -> s \ {a[1]}
      [] m = "symmetric_difference_update" -> (s \ a[1]) \cup (a[1] \ s)
      [] m = "update"                      -> s \cup a[1]
      [] OTHER                             -> s   \* copy difference intersection isdisjoint issubset
                                                  \* issuperset symmetric_difference union

DictEffect(m, d, a) ==
    CASE m = "clear"      -> [k \in {} |-> 0]
      [] m = "pop"        -> Restrict(d, (DOMAIN d) \ {a[1]})
      [] m = "popitem"    -> IF DOMAIN d = {} THEN d
                             ELSE Restrict(d, (DOMAIN d) \ {CHOOSE k \in DOMAIN d : TRUE})
      [] m = "setdefault" -> IF a[1] \in DOMAIN d THEN d ELSE Merge(d, [k \in {a[1]} |-> a[2]])
      [] m = "update"     -> Merge(d, a[1])
      [] OTHER            -> d          \* copy fromkeys get items keys values

Effect(kind, m, s, a) ==
    CASE kind \in {"list", "deque"} -> SeqEffect(m, s, a)
      [] kind = "set"               -> SetEffect(m, s, a)
      [] kind = "dict"              -> DictEffect(m, s, a)

(* pop() of a set and popitem() of a dict may remove any element as far as this
   model can tell (the model keeps no iteration order): the set of states the
   call may leave *)
EffectSet(kind, m, s, a) ==
    IF kind = "set" /\ m = "pop" /\ s # {} THEN {s \ {x} : x \in s}
    ELSE IF kind = "dict" /\ m = "popitem" /\ DOMAIN s # {}
         THEN {Restrict(s, (DOMAIN s) \ {k}) : k \in DOMAIN s}
    ELSE {Effect(kind, m, s, a)}

(* JSON-friendly encodings used when cases are exported for replay *)
ArgTags(kind, m) ==
    CASE Args(kind, m) = NoArgs -> <<>>
      [] m = "pop" /\ kind = "dict" -> <<"str">>
      [] m \in {"get"} -> <<"str">>
      [] m = "setdefault" -> <<"str", "int">>
      [] m = "insert" -> <<"int", "int">>
      [] m \in {"extend", "extendleft", "fromkeys"} -> <<"seq">>
      [] m = "update" /\ kind = "dict" -> <<"dict">>
      [] Args(kind, m) = SetArgs -> <<"set">>
      [] OTHER -> <<"int">>

Pairs(d) == {<<k, d[k]>> : k \in DOMAIN d}
EncState(kind, s) == IF kind = "dict" THEN Pairs(s) ELSE s
EncArgs(kind, m, a) ==
    [i \in 1..Len(a) |-> IF ArgTags(kind, m)[i] = "dict" THEN Pairs(a[i]) ELSE a[i]]

(* which methods exist on which kind is part of the semantics: SeqEffect is shared
   by list and deque but e.g. "appendleft" is only a name of deque *)
Mutates(kind, m) ==
    /\ m \in Methods(kind)
    /\ \E s \in States(kind) : \E a \in Args(kind, m) : Effect(kind, m, s, a) # s

(* zero-arity constant: TLC evaluates the table once *)
MutatorsTable == [kind \in ContainerKinds |-> {m \in Methods(kind) : Mutates(kind, m)}]
Mutators(kind) == MutatorsTable[kind]

(* sanity: the non-determinism of pop / popitem on sets and dicts (CHOOSE) does not
   matter for the classification -- any removed element changes the state *)
ASSUME \A kind \in ContainerKinds : Mutators(kind) \subseteq Methods(kind)
=============================================================================
