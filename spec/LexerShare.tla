----------------------------- MODULE LexerShare -----------------------------
(***************************************************************************)
(* C11, "the configured newline sequence" / "when keep_trailing_newline is *)
(* set": the settings that count are those of the environment that renders *)
(* the template - also while OTHER environments are being used.            *)
(*                                                                         *)
(* Tokenising is lazy.  Lexer.tokeniter is a generator: it reads           *)
(* keep_trailing_newline when its first token is asked for; Lexer.wrap is  *)
(* a generator: it reads newline_sequence for every data token it passes   *)
(* on; a TokenStream / Parser pulls one token ahead and the rest on        *)
(* demand; Environment.lex hands the tokeniter generator to the caller.    *)
(* Lexers are shared objects (get_lexer: module-level cache keyed by the   *)
(* lexer-relevant options).  So between two pulls of one environment's     *)
(* token stream any other environment may look up its lexer, start or      *)
(* advance a stream of its own (an extension parsing a sub-template,       *)
(* another thread compiling).  The model runs up to MaxStreams lazy        *)
(* streams and complete uses of other environments in every interleaving.  *)
(*                                                                         *)
(* A configuration is [nl, keep]; every other option is the same in all    *)
(* of them.  A template has NData data tokens (text split by comments or   *)
(* raw blocks).                                                            *)
(*   Open(c, "parser")  Parser(env_c, source): env.lexer (get_lexer), a    *)
(*                      TokenStream, which pulls its first token           *)
(*   Open(c, "lex")     env_c.lex(source): env.lexer, an unstarted         *)
(*                      generator of raw tokens (newline_sequence is not   *)
(*                      applied to those; keep_trailing_newline is)        *)
(*   Pull(s)            stream s is advanced by one data token             *)
(*   Touch(c)           env_c compiles and renders some other template     *)
(*                      from start to end                                  *)
(*   Finish             every stream is used up (the history is printed)   *)
(* Real design (Refresh = FALSE): a lexer is built from the configuration  *)
(* of the environment that missed the cache and is never written again;    *)
(* KeyFields = {"nl", "keep"}.  Refresh = TRUE models a lexer that is      *)
(* shared across newline settings and re-pointed to the asking             *)
(* environment's settings on every lookup - right for strictly sequential  *)
(* use only; TLC must find the violation (vacuity guard of the harness).   *)
(***************************************************************************)
EXTENDS Naturals, Sequences, FiniteSets, TLC, Json

CONSTANTS CfgSeq,      \* the configurations in play: sequence of [nl, keep]
          KeyFields,   \* which of "nl", "keep" are part of get_lexer's key
          Refresh,     \* get_lexer writes the asking environment's settings onto the lexer it returns
          NData,       \* data tokens per template
          MaxStreams,  \* lazy streams per history
          MaxTouch,    \* complete uses of other environments per history
          Emit

VARIABLES lexers,    \* lexer objects: sequence of [nl, keep] (what the object's attributes say NOW)
          cache,     \* _lexer_cache: sequence of [key, lex]
          streams,   \* [cfg, how, lex, pulled, keep (what tokeniter read: <<>> or <<flag>>), nls (per data token)]
          touches,
          hist,
          done

vars == <<lexers, cache, streams, touches, hist, done>>

CfgIds == 1..Len(CfgSeq)
Key(c) == [f \in KeyFields |-> c[f]]

\* get_lexer(environment with configuration c): [lexers, cache, idx]
GetLexer(c) ==
    LET hit == {i \in 1..Len(cache) : cache[i].key = Key(c)}
        idx == IF hit # {} THEN cache[CHOOSE i \in hit : TRUE].lex ELSE Len(lexers) + 1
        ls  == IF hit # {} THEN lexers ELSE Append(lexers, [nl |-> c.nl, keep |-> c.keep])
    IN  [lexers |-> IF Refresh THEN [ls EXCEPT ![idx] = [nl |-> c.nl, keep |-> c.keep]] ELSE ls,
         cache  |-> IF hit # {} THEN cache ELSE Append(cache, [key |-> Key(c), lex |-> idx]),
         idx    |-> idx]

Init ==
    /\ lexers = <<>> /\ cache = <<>> /\ streams = <<>> /\ touches = 0 /\ hist = <<>> /\ done = FALSE

\* one token is delivered by stream st, whose lexer object currently says lx
Advance(st, lx) ==
    [st EXCEPT !.pulled = @ + 1,
               !.keep = IF st.pulled = 0 THEN <<lx.keep>> ELSE @,       \* tokeniter starts: reads the flag once
               !.nls = IF st.how = "parser" THEN Append(@, lx.nl) ELSE @] \* wrap: per data token

Open(i, how) ==
    /\ ~done /\ Len(streams) < MaxStreams
    /\ LET g == GetLexer(CfgSeq[i])
           st == [cfg |-> i, how |-> how, lex |-> g.idx, pulled |-> 0, keep |-> <<>>, nls |-> <<>>]
       IN  /\ lexers' = g.lexers /\ cache' = g.cache
           /\ streams' = Append(streams, IF how = "parser" /\ NData > 0 THEN Advance(st, g.lexers[g.idx]) ELSE st)
    /\ hist' = Append(hist, <<"open", i, how>>)
    /\ UNCHANGED <<touches, done>>

Pull(s) ==
    /\ ~done /\ s <= Len(streams) /\ streams[s].pulled < NData
    /\ streams' = [streams EXCEPT ![s] = Advance(@, lexers[@.lex])]
    /\ hist' = Append(hist, <<"pull", s>>)
    /\ UNCHANGED <<lexers, cache, touches, done>>

Touch(i) ==
    /\ ~done /\ touches < MaxTouch
    /\ streams # <<>>            \* (a use before every stream is a sequential history: C13 / LexerCache)
    /\ \E s \in 1..Len(streams) : streams[s].pulled < NData
    /\ LET g == GetLexer(CfgSeq[i]) IN lexers' = g.lexers /\ cache' = g.cache
    /\ touches' = touches + 1
    /\ hist' = Append(hist, <<"touch", i>>)
    /\ UNCHANGED <<streams, done>>

Finish ==
    /\ ~done /\ streams # <<>>
    /\ \A s \in 1..Len(streams) : streams[s].pulled = NData
    /\ done' = TRUE
    /\ Emit => PrintT(ToJson(hist))
    /\ UNCHANGED <<lexers, cache, streams, touches, hist>>

Next ==
    \/ \E i \in CfgIds : \E how \in {"parser", "lex"} : Open(i, how)
    \/ \E s \in 1..MaxStreams : Pull(s)
    \/ \E i \in CfgIds : Touch(i)
    \/ Finish

Spec == Init /\ [][Next]_vars

(* every token of a stream is produced under the newline settings of the    *)
(* environment the stream belongs to, whatever happened in between          *)
C11_OwnNewlineSettings ==
    \A s \in 1..Len(streams) :
        LET st == streams[s] IN
        /\ \A j \in 1..Len(st.keep) : st.keep[j] = CfgSeq[st.cfg].keep
        /\ \A j \in 1..Len(st.nls) : st.nls[j] = CfgSeq[st.cfg].nl

\* a cached lexer still says what it was filed under
C11_CachedLexersMatchKey ==
    \A i \in 1..Len(cache) : Key(lexers[cache[i].lex]) = cache[i].key
=============================================================================
