---------------------------- MODULE BCCacheAlias ----------------------------
(***************************************************************************)
(* Property C27, the cache key: one source FILE may be reachable under      *)
(* several template NAMES (overlapping FileSystemLoader search paths such   *)
(* as [root, root/theme]: root/theme/page is "theme/page" and "page").      *)
(* Compiled code embeds the template name (Template.name, {{ self }}, the   *)
(* `parent` handed to Environment.join_path by include / extends / import), *)
(* so what a load must execute is "the current source of the file compiled  *)
(* FOR THIS NAME".  All names of one file have the same source, hence the   *)
(* same checksum: only the KEY keeps their entries apart.                   *)
(*                                                                         *)
(*   KeyMode = "name+file"  key = sha1(name | filename)   (as documented)   *)
(*   KeyMode = "file"       key = the file name alone: TLC refutes          *)
(*                          C27_CodeCompiledForOwnName (negative control)   *)
(***************************************************************************)
EXTENDS Naturals, TLC, Json

CONSTANTS Names, Files, FileOf, NVersions, KeyMode, None, EmitGraph

VARIABLES source,   \* file -> version of its text
          fs,       \* key -> None or [cks: version, v: version, n: name the code was compiled for]
          ret       \* last load: [res |-> code executed, allowed |-> what the property permits]

vars == <<source, fs, ret>>

KeyOf(n) == IF KeyMode = "name+file" THEN n ELSE FileOf[n]
Keys == {KeyOf(n) : n \in Names}
Compiled(n) == [v |-> source[FileOf[n]], n |-> n]

Init ==
    /\ source = [f \in Files |-> 1]
    /\ fs = [k \in Keys |-> None]
    /\ ret = None

ViewRec == [src |-> source, fs |-> {[k |-> k, e |-> fs[k]] : k \in {x \in Keys : fs[x] # None}}]
Emit(op, r) == EmitGraph => PrintT(ToJson([s |-> ViewRec, a |-> op, res |-> r.res, allowed |-> r.allowed, t |-> ViewRec']))

Load(n) ==                    \* BaseLoader.load: get_source, get_bucket (key, checksum), compile on a miss, set_bucket
    LET k == KeyOf(n)
        hit == fs[k] # None /\ fs[k].cks = source[FileOf[n]]
        code == IF hit THEN [v |-> fs[k].v, n |-> fs[k].n] ELSE Compiled(n)
        r == [res |-> code, allowed |-> Compiled(n)]
    IN  /\ fs' = IF hit THEN fs ELSE [fs EXCEPT ![k] = [cks |-> source[FileOf[n]], v |-> source[FileOf[n]], n |-> n]]
        /\ ret' = r
        /\ UNCHANGED source
        /\ Emit(<<"load", n>>, r)

Modify(f) ==
    /\ source[f] < NVersions
    /\ source' = [source EXCEPT ![f] = @ + 1]
    /\ ret' = None
    /\ UNCHANGED fs
    /\ Emit(<<"modify", f, source[f] + 1>>, [res |-> None, allowed |-> None])

Clear ==
    /\ \E k \in Keys : fs[k] # None
    /\ fs' = [k \in Keys |-> None]
    /\ ret' = None
    /\ UNCHANGED source
    /\ Emit(<<"clear">>, [res |-> None, allowed |-> None])

Next == (\E n \in Names : Load(n)) \/ (\E f \in Files : Modify(f)) \/ Clear

Spec == Init /\ [][Next]_vars

TypeOK ==
    /\ source \in [Files -> 1..NVersions]
    /\ \A k \in Keys : fs[k] = None \/ (fs[k].cks \in 1..NVersions /\ fs[k].v \in 1..NVersions /\ fs[k].n \in Names)

\* the code a load executes was compiled from the current source of the file, for the name that was loaded
C27_CodeCompiledForOwnName == ret # None => ret.res = ret.allowed
\* an entry found under a name's key was compiled for that name
C27_EntriesKeptApartByName == \A n \in Names : fs[KeyOf(n)] # None => FileOf[fs[KeyOf(n)].n] = FileOf[n] /\ (KeyMode = "name+file" => fs[KeyOf(n)].n = n)
=============================================================================
