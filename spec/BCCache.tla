------------------------------ MODULE BCCache ------------------------------
(***************************************************************************)
(* The bytecode cache of jinja2 (property C27), at the granularity of      *)
(* whole operations: template loads through BaseLoader.load with a         *)
(* BytecodeCache, source changes, cache clears, external damage of stored  *)
(* entries, interrupted writes, and (for the memcached cache) a failing    *)
(* client.  The write path at file-operation granularity, with concurrent  *)
(* processes and crashes, is BCCacheWrite.tla; it justifies treating an    *)
(* interrupted write here as "final entry unchanged, or completely new".   *)
(*                                                                         *)
(* Environments 1..Len(CfgOf) share ONE cache; CfgOf[e] is the             *)
(* compile-relevant configuration of environment e (autoescape, sandbox,   *)
(* async, whitespace options, ...).  A code object is identified by what   *)
(* it was compiled from: [v: source version, c: configuration]; rendering  *)
(* it shows exactly that pair.                                             *)
(*                                                                         *)
(* A stored entry is  magic | pickled checksum | marshalled code  and is   *)
(* modelled as [magic, cks, code, len] where len is the length class of    *)
(* the bytes that are there:                                               *)
(*    0 empty  1 inside magic  2 magic complete  3 inside checksum         *)
(*    4 checksum complete  5 inside code  6 complete                       *)
(*                                                                         *)
(* Two CONSTANTS select between the behaviour the property demands and the *)
(* mechanism as implemented:                                               *)
(*   KeyCoversConfig  TRUE: entries are keyed by (name, configuration)     *)
(*                    FALSE: by name only   (jinja2: sha1(name|filename))  *)
(*   GuardedRead      TRUE: an entry that ends inside the checksum is a    *)
(*                    miss; FALSE: reading it raises (jinja2: pickle.load  *)
(*                    outside any try)                                     *)
(* With (FALSE, .) and two different configurations TLC refutes            *)
(* C27_RendersCurrentSourceUnderOwnConfig (finding F3); with (., FALSE)    *)
(* it refutes C27_DamagedIsMiss (finding F2).                              *)
(***************************************************************************)
EXTENDS Integers, Sequences, FiniteSets, TLC, Json

CONSTANTS Names,           \* template names
          NVersions,       \* source versions 1..NVersions
          CfgOf,           \* sequence: environment -> configuration, e.g. <<"c1", "c2">>
          Store,           \* "fs" FileSystemBytecodeCache | "mem" MemcachedBytecodeCache
          IgnoreErrors,    \* mem: ignore_memcache_errors
          KeyCoversConfig,
          GuardedRead,
          TruncClasses,    \* length classes external damage may truncate an entry to (subset of 0..5)
          AllowForeign,    \* external damage may replace the magic by another interpreter's
          Stages,          \* where a write may be interrupted: subset of CrashStages
          ClearStages,     \* where another environment's clear() may fall into a write: subset of CrashStages
          None,            \* "no entry" (model value)
          EmitGraph        \* print every transition as a JSON line (graph export for the replay)

VARIABLES source,   \* name -> current source version
          fs,       \* key -> stored entry or None  (for "mem": the server's content)
          junk,     \* fs: a left-over temporary file of an interrupted write exists
          mode,     \* mem: how the client behaves:  [kind, c]
          ret       \* last operation and its observable outcome

vars == <<source, fs, junk, mode, ret>>

Envs == 1..Len(CfgOf)
Cfgs == {CfgOf[e] : e \in Envs}
Versions == 1..NVersions

Empty == 0
InMagic == 1
MagicEnd == 2
InCks == 3
CksEnd == 4
InCode == 5
Full == 6

CrashStages == {"preTemp", "tempPartial", "tempFull", "replaced"}
ASSUME Stages \subseteq CrashStages /\ ClearStages \subseteq CrashStages /\ TruncClasses \subseteq 0..5 /\ Store \in {"fs", "mem"}

KeyOf(n, c) == IF KeyCoversConfig THEN <<n, c>> ELSE <<n, "*">>
Keys == {KeyOf(n, c) : n \in Names, c \in Cfgs}

Code == [v : Versions, c : Cfgs]
Entry == [magic : {"ok", "foreign"}, cks : Versions, code : Code, len : 0..6]
NewEntry(v, c) == [magic |-> "ok", cks |-> v, code |-> [v |-> v, c |-> c], len |-> Full]

ClientKinds == {"ok", "raise", "setraise", "none", "trunc"}
OkMode == [kind |-> "ok", c |-> 0]

\* results: <<kind, version, text>>
Miss == <<"miss", 0, "">>
Rendered(v, c) == <<"render", v, c>>            \* the output of source version v compiled under c
RaiseDamaged == <<"raise", 0, "damaged-entry">> \* EOFError / UnpicklingError out of get_template
RaiseClient == <<"raise", 0, "client-error">>   \* the memcache client's own exception
NoRes == <<"none", 0, "">>

Init ==
    /\ source = [n \in Names |-> 1]
    /\ fs = [k \in Keys |-> None]
    /\ junk = FALSE
    /\ mode = OkMode
    /\ ret = [op |-> <<"init">>, res |-> NoRes, allowed |-> {NoRes}]

(* -- reading an entry: Bucket.load_bytecode ----------------------------------- *)
Read(ent, cks) ==
    IF ent = None THEN Miss                                        \* no file / client returned None
    ELSE IF ent.len < MagicEnd \/ ent.magic # "ok" THEN Miss       \* f.read(len(magic)) != bc_magic
    ELSE IF ent.len < CksEnd THEN (IF GuardedRead THEN Miss ELSE RaiseDamaged)   \* pickle.load(f)
    ELSE IF ent.cks # cks THEN Miss                                \* entry of another source
    ELSE IF ent.len < Full THEN Miss                               \* marshal.load fails, caught
    ELSE <<"hit", ent.code.v, ent.code.c>>

MinOf(a, b) == IF a < b THEN a ELSE b

\* what the cache hands to the reader for key k
Fetch(k) ==
    IF Store = "fs" \/ mode.kind \in {"ok", "setraise"} THEN fs[k]
    ELSE IF mode.kind = "trunc" /\ fs[k] # None THEN [fs[k] EXCEPT !.len = MinOf(@, mode.c)]
    ELSE None

GetFails == Store = "mem" /\ mode.kind = "raise"
SetFails == Store = "mem" /\ mode.kind \in {"raise", "setraise"}

\* BaseLoader.load(env e, name n): get_source, get_bucket, [compile, set_bucket]
\*   [res, fs: entries afterwards, wrote: a cache write was attempted]
LoadResult(e, n) ==
    LET v == source[n]
        c == CfgOf[e]
        k == KeyOf(n, c)
    IN  IF GetFails /\ ~IgnoreErrors THEN [res |-> RaiseClient, fs |-> fs, wrote |-> FALSE]
        ELSE LET r == IF GetFails THEN Miss ELSE Read(Fetch(k), v) IN
             IF r[1] = "raise" THEN [res |-> r, fs |-> fs, wrote |-> FALSE]
             ELSE IF r[1] = "hit" THEN [res |-> Rendered(r[2], r[3]), fs |-> fs, wrote |-> FALSE]
             ELSE IF SetFails
                  THEN [res |-> IF IgnoreErrors THEN Rendered(v, c) ELSE RaiseClient, fs |-> fs, wrote |-> TRUE]
                  ELSE [res |-> Rendered(v, c), fs |-> [fs EXCEPT ![k] = NewEntry(v, c)], wrote |-> TRUE]

\* what the property allows a load to show: the current source compiled under the loading
\* environment's own configuration -- or, when the application asked for memcache errors
\* not to be ignored and the client fails, that error
Allowed(e, n) ==
    {Rendered(source[n], CfgOf[e])}
        \cup (IF Store = "mem" /\ ~IgnoreErrors /\ mode.kind \in {"raise", "setraise"} THEN {RaiseClient} ELSE {})

(* -- actions ---------------------------------------------------------------- *)
\* the observable projection of a state (entries as a set of records: JSON-friendly)
ViewRec == [src |-> source,
            fs |-> {[n |-> k[1], c |-> k[2], e |-> fs[k]] : k \in {x \in Keys : fs[x] # None}},
            junk |-> junk, mode |-> mode]
Emit(op, res, allowed) ==
    EmitGraph => PrintT(ToJson([s |-> ViewRec, a |-> op, res |-> res, allowed |-> allowed, t |-> ViewRec']))

Finish(op, res, allowed) ==
    /\ ret' = [op |-> op, res |-> res, allowed |-> allowed]
    /\ Emit(op, res, allowed)

Load(e, n) ==                         \* env_e.get_template(n).render()
    LET r == LoadResult(e, n) IN
    /\ fs' = r.fs
    /\ UNCHANGED <<source, junk, mode>>
    /\ Finish(<<"load", e, n>>, r.res, Allowed(e, n))

\* the same load, but the process dies while writing the new entry.  Nothing is observed;
\* the final entry is untouched unless the crash came after the rename (BCCacheWrite.tla).
CrashedLoad(e, n, st) ==
    LET r == LoadResult(e, n) IN
    /\ Store = "fs" /\ r.wrote
    /\ fs' = IF st = "replaced" THEN r.fs ELSE fs
    /\ junk' = (junk \/ st \in {"tempPartial", "tempFull"})
    /\ UNCHANGED <<source, mode>>
    /\ Finish(<<"crash", e, n, st>>, NoRes, {NoRes})

\* the same load, while ANOTHER environment sharing the cache calls clear() at stage st of
\* the write.  clear() removes entries, never a writer's temporary file (BCCacheWrite.tla:
\* C27_ClearLeavesWritersAlone), so the load completes as if undisturbed -- a concurrent clear
\* can only cause misses -- and only its own new entry is there afterwards.
LoadDuringClear(e, n, st) ==
    LET r == LoadResult(e, n)
        k == KeyOf(n, CfgOf[e])
    IN
    /\ Store = "fs" /\ r.wrote
    /\ fs' = [x \in Keys |-> IF x = k /\ st # "replaced" THEN r.fs[k] ELSE None]
    /\ UNCHANGED <<source, junk, mode>>
    /\ Finish(<<"loadclear", e, n, st>>, r.res, Allowed(e, n))

Modify(n, v) ==                       \* the template source changes
    /\ v # source[n]
    /\ source' = [source EXCEPT ![n] = v]
    /\ UNCHANGED <<fs, junk, mode>>
    /\ Finish(<<"modify", n, v>>, NoRes, {NoRes})

Clear ==                              \* FileSystemBytecodeCache.clear(): entries go, left-overs stay
    /\ Store = "fs"
    /\ fs' = [k \in Keys |-> None]
    /\ UNCHANGED <<source, junk, mode>>
    /\ Finish(<<"clear">>, NoRes, {NoRes})

Truncate(k, c) ==                     \* external damage: the entry loses its tail
    /\ Store = "fs" /\ fs[k] # None /\ c < fs[k].len
    /\ fs' = [fs EXCEPT ![k] = [@ EXCEPT !.len = c]]
    /\ UNCHANGED <<source, junk, mode>>
    /\ Finish(<<"truncate", k, c>>, NoRes, {NoRes})

ForeignMagic(k) ==                    \* the entry was written by another interpreter version
    /\ Store = "fs" /\ AllowForeign /\ fs[k] # None /\ fs[k].magic = "ok" /\ fs[k].len >= MagicEnd
    /\ fs' = [fs EXCEPT ![k] = [@ EXCEPT !.magic = "foreign"]]
    /\ UNCHANGED <<source, junk, mode>>
    /\ Finish(<<"foreign", k>>, NoRes, {NoRes})

SetMode(m) ==                         \* the memcache client starts to behave differently
    /\ Store = "mem" /\ m # mode
    /\ mode' = m
    /\ UNCHANGED <<source, fs, junk>>
    /\ Finish(<<"mode", m.kind, m.c>>, NoRes, {NoRes})

Modes == [kind : ClientKinds \ {"trunc"}, c : {0}] \cup [kind : {"trunc"}, c : TruncClasses]

Next ==
    \/ \E e \in Envs, n \in Names : Load(e, n)
    \/ \E e \in Envs, n \in Names, st \in Stages : CrashedLoad(e, n, st)
    \/ \E e \in Envs, n \in Names, st \in ClearStages : LoadDuringClear(e, n, st)
    \/ \E n \in Names, v \in Versions : Modify(n, v)
    \/ Clear
    \/ \E k \in Keys, c \in TruncClasses : Truncate(k, c)
    \/ \E k \in Keys : ForeignMagic(k)
    \/ \E m \in Modes : SetMode(m)

Spec == Init /\ [][Next]_vars

(* -- properties ---------------------------------------------------------------- *)
IsLoad == ret.op[1] \in {"load", "loadclear"}

TypeOK ==
    /\ source \in [Names -> Versions]
    /\ fs \in [Keys -> Entry \cup {None}]
    /\ junk \in BOOLEAN
    /\ mode \in Modes

\* a load renders exactly what compiling the current source under the loading
\* environment's own configuration renders
C27_RendersCurrentSourceUnderOwnConfig == IsLoad => ret.res \in ret.allowed

\* a truncated, foreign or stale entry is a miss: never an exception of the cache's own
C27_DamagedIsMiss == ret.res # RaiseDamaged

\* the checksum protects against stale source: whatever is rendered is the current version
C27_NeverStaleSource == (IsLoad /\ ret.res[1] = "render") => ret.res[2] = source[ret.op[3]]

\* without external damage every stored entry is complete, whatever was interrupted
C27_FinalNeverPartial == (TruncClasses = {}) => \A k \in Keys : fs[k] # None => fs[k].len = Full

\* a stored entry always holds the code of the source it is check-summed for
C27_EntryConsistent == \A k \in Keys : fs[k] # None => fs[k].code.v = fs[k].cks

\* with configuration in the key an entry is only ever found by environments of its configuration
C27_KeyedEntriesOwnConfig ==
    KeyCoversConfig => \A n \in Names, c \in Cfgs : fs[KeyOf(n, c)] # None => fs[KeyOf(n, c)].code.c = c

View == ViewRec
=============================================================================
