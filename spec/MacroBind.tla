----------------------------- MODULE MacroBind -----------------------------
(***************************************************************************)
(* Macro argument binding (property C06).                                  *)
(*                                                                         *)
(* A case is a macro signature and one call of it:                         *)
(*   sig  = [n    |-> number of ordinary parameters (the first n of a,b,c,d)*)
(*           dk   |-> kinds of the trailing defaults ("const" | "prev" =   *)
(*                    the preceding parameter | "outer" = a template       *)
(*                    variable that is re-assigned between definition and  *)
(*                    call | "self" = the parameter's own name, which is   *)
(*                    not bound yet while its default is evaluated),       *)
(*                    Len(dk) <= n                                         *)
(*           ec   |-> the signature ends with an explicit parameter named  *)
(*                    `caller` that has a default                          *)
(*           uses |-> which of varargs / kwargs / caller the body mentions]*)
(*   call = [npos |-> number of positional arguments "p1".."pN"            *)
(*           kws  |-> names passed as keywords (value "k<name>")           *)
(*           cb   |-> the call is a {% call %} block (passes caller=...)   *)
(*           dup  |-> a keyword that is given twice (explicitly and inside *)
(*                    **mapping), "" = none                                *)
(*           rk   |-> the keyword that names no parameter ("u") is written *)
(*                    with a name that is a reserved word of Python        *)
(*                    ("class", "for", ...): the call site cannot use      *)
(*                    Python's keyword syntax and delivers one mapping]    *)
(*                                                                         *)
(* ABSTRACT LAYER  Rules(sig, call): the calling rules as the property     *)
(* states them - positionals fill parameters in order; surplus positionals *)
(* go to varargs or TypeError; keywords fill the remaining parameters by   *)
(* name; unconsumed keywords go to kwargs or TypeError; unfilled           *)
(* parameters take their default evaluated at call time or are undefined;  *)
(* a body that mentions `caller` receives the call block (or undefined).   *)
(*                                                                         *)
(* OPERATIONAL LAYER  the steps of jinja2.runtime.Macro.__call__ (and the  *)
(* flags compiler.macro_body derives from the body: catch_kwargs,          *)
(* catch_varargs, caller, explicit_caller), then the parameter-default     *)
(* prologue of the compiled macro function:                                *)
(*   Deliver -> TakePositional -> FillFromKeywords -> Caller -> Kwargs     *)
(*           -> Varargs -> Invoke -> done                                  *)
(*                                                                         *)
(* TLC checks that both layers agree on every enumerated case              *)
(* (C06_MatchesRules) and the individual clauses C06_*.  The Done step     *)
(* prints every case with its outcome; the harness turns each into a real  *)
(* template call and a call through template.module.                       *)
(***************************************************************************)
EXTENDS Integers, Sequences, FiniteSets, TLC, Json

CONSTANTS
    MaxParams,      \* 0..4 ordinary parameters
    MinParams,
    MaxDefaults,    \* 0..3 trailing defaults
    DefKinds,       \* subset of {"const", "prev", "outer", "self"}
    UsesSets,       \* set of subsets of {"varargs", "kwargs", "caller"}
    ExplicitCaller, \* subset of BOOLEAN
    MaxPos,         \* 0..5 positional arguments
    KwExtra,        \* keyword names that are no ordinary parameter: subset of {"u", "caller"}
    MaxKw,          \* at most this many keywords
    CallBlocks,     \* subset of BOOLEAN
    AllowDup,       \* BOOLEAN
    ReservedKw      \* subset of BOOLEAN: spellings of the unknown keyword (FALSE = u, TRUE = a Python reserved word)

VARIABLES sig, call, pc, arguments, kw, found, outcome

vars == <<sig, call, pc, arguments, kw, found, outcome>>

Names   == <<"a", "b", "c", "d">>
PosVal  == <<"p1", "p2", "p3", "p4", "p5", "p6">>
DConst  == [a |-> "da", b |-> "db", c |-> "dc", d |-> "dd", caller |-> "dcaller"]
Missing == "missing"          \* runtime.missing
Undef   == "U"                \* an Undefined value
OuterAtCall == "oc"           \* value of the outer variable when the macro is called
OuterAtDef  == "od"           \* ... when the macro was defined

\* value passed for keyword k; a call block passes the block as caller
KV(c, k) == IF k = "caller" THEN (IF c.cb THEN "CB" ELSE "kcaller")
            ELSE CASE k = "a" -> "ka" [] k = "b" -> "kb" [] k = "c" -> "kc" [] k = "d" -> "kd" [] k = "u" -> "ku"

\* the name under which keyword k travels (and under which it shows up in kwargs)
KwName(c, k) == IF k = "u" /\ c.rk THEN "class" ELSE k
\* compiler.signature has two spellings of a call site.  "keywords": `m(p.., k=v, .., caller=caller)`;
\* "mapping" (some keyword name is reserved in Python): `m(p.., **{'k': v, .., 'caller': caller})`.
\* The extra keyword arguments the compiler adds (the call block as `caller`) are *variables* of the
\* generated code in both spellings; both deliver the same names with the same values.
SiteSpelling(c) == IF \E k \in c.kws : KwName(c, k) = "class" THEN "mapping" ELSE "keywords"

Params(s) == SubSeq(Names, 1, s.n) \o (IF s.ec THEN <<"caller">> ELSE <<>>)
Argc(s)   == Len(Params(s))
\* kind of the default of parameter i ("none" = no default)
DefKind(s, i) ==
    IF s.ec /\ i = s.n + 1 THEN "const"
    ELSE IF i > s.n - Len(s.dk) THEN s.dk[i - (s.n - Len(s.dk))] ELSE "none"

DkSeqs == UNION {[1..k -> DefKinds] : k \in 0..MaxDefaults}
Sigs ==
    {s \in [n : MinParams..MaxParams, dk : DkSeqs, ec : ExplicitCaller, uses : UsesSets] :
        /\ Len(s.dk) <= s.n
        \* "prev" needs a preceding parameter
        /\ \A j \in 1..Len(s.dk) : s.dk[j] = "prev" => (s.n - Len(s.dk)) + j >= 2}

KwNames(s) == {Names[i] : i \in 1..s.n} \cup KwExtra
Calls(s) ==
    {c \in [npos : 0..MaxPos, kws : {K \in SUBSET KwNames(s) : Cardinality(K) <= MaxKw},
            cb : CallBlocks, dup : {""} \cup (IF AllowDup THEN KwNames(s) ELSE {}), rk : ReservedKw] :
        \* the reserved spelling concerns the keyword u only
        /\ (c.rk => "u" \in c.kws)
        \* (the mapping spelling merges the written keywords with **mapping in one dict(...): a name given
        \* twice is then not a duplicate for Python's call protocol; outside the rules stated here: excluded)
        /\ ~(c.rk /\ c.dup # "")
        \* (one duplicated keyword aborts the call whatever else is passed: enumerate it for simple calls only)
        /\ (c.dup # "" => c.dup \in c.kws /\ c.npos = 0 /\ ~c.cb)
        \* `{% call m(caller=x) %}` would spell the keyword twice in the generated call: excluded
        /\ ~(c.cb /\ "caller" \in c.kws)}

EffKw(c) == c.kws \cup (IF c.cb THEN {"caller"} ELSE {})
Args(c)  == SubSeq(PosVal, 1, c.npos)
ImplicitCaller(s) == "caller" \in s.uses /\ ~s.ec

TypeErr == [kind |-> "TypeError", params |-> <<>>, varargs |-> <<>>, kwargs |-> {}, caller |-> "-"]

(* ------------------------------------------------------------------------ *)
(* ABSTRACT LAYER: the calling rules                                        *)
(* ------------------------------------------------------------------------ *)
RECURSIVE RuleParam(_, _, _)
\* value of parameter i
RuleParam(s, c, i) ==
    LET name == Params(s)[i] IN
    IF i <= c.npos THEN Args(c)[i]                      \* positional arguments fill parameters in order
    ELSE IF name \in EffKw(c) THEN KV(c, name)          \* keywords fill the remaining parameters by name
    ELSE CASE DefKind(s, i) = "none"  -> Undef          \* unfilled: undefined ...
           [] DefKind(s, i) = "const" -> DConst[name]   \* ... or the default, evaluated at call time
           [] DefKind(s, i) = "prev"  -> RuleParam(s, c, i - 1)
           [] DefKind(s, i) = "outer" -> OuterAtCall
           \* the parameter is not bound while its own default is evaluated (and it hides an outer
           \* variable of the same name): the name is undefined there
           [] DefKind(s, i) = "self"  -> Undef

\* keywords that fill a parameter (or the implicit caller)
Consumed(s, c) ==
    {k \in EffKw(c) : \E i \in 1..Argc(s) : Params(s)[i] = k /\ i > c.npos}
        \cup (IF ImplicitCaller(s) THEN {"caller"} \cap EffKw(c) ELSE {})
Unconsumed(s, c) == EffKw(c) \ Consumed(s, c)
Surplus(s, c) == IF c.npos > Argc(s) THEN SubSeq(Args(c), Argc(s) + 1, c.npos) ELSE <<>>

Rules(s, c) ==
    IF c.dup # "" THEN TypeErr                                        \* Python's own call protocol
    ELSE IF Surplus(s, c) # <<>> /\ "varargs" \notin s.uses THEN TypeErr
    ELSE IF Unconsumed(s, c) # {} /\ "kwargs" \notin s.uses THEN TypeErr
    ELSE [kind    |-> "ok",
          params  |-> [i \in 1..Argc(s) |-> RuleParam(s, c, i)],
          varargs |-> IF "varargs" \in s.uses THEN Surplus(s, c) ELSE <<>>,
          kwargs  |-> IF "kwargs" \in s.uses THEN {<<KwName(c, k), KV(c, k)>> : k \in Unconsumed(s, c)} ELSE {},
          caller  |-> IF ImplicitCaller(s)
                      THEN (IF "caller" \in EffKw(c) THEN KV(c, "caller") ELSE Undef)
                      ELSE "-"]

(* ------------------------------------------------------------------------ *)
(* OPERATIONAL LAYER: Macro.__call__                                        *)
(* ------------------------------------------------------------------------ *)
CatchKwargs  == "kwargs" \in sig.uses      \* compiler: body mentions kwargs
CatchVarargs == "varargs" \in sig.uses
AccessCaller == "caller" \in sig.uses      \* Macro.caller
ExplCaller   == sig.ec                     \* Macro.explicit_caller

Init ==
    /\ sig \in Sigs
    /\ call \in Calls(sig)
    /\ pc = "deliver"
    /\ arguments = <<>>
    /\ kw = {}
    /\ found = FALSE
    /\ outcome = [kind |-> "running"]

Fail == pc' = "done" /\ outcome' = TypeErr /\ UNCHANGED <<sig, call, arguments, kw, found>>

\* context.call(m, *args, **kwargs): Python rejects a keyword given twice
Deliver ==
    /\ pc = "deliver"
    /\ IF call.dup # "" THEN Fail
       ELSE /\ pc' = "positional"
            \* either spelling of the call site hands over the written keywords plus the call block
            /\ kw' = (CASE SiteSpelling(call) = "keywords" -> call.kws \cup (IF call.cb THEN {"caller"} ELSE {})
                       [] SiteSpelling(call) = "mapping"  -> {k \in KwNames(sig) \cup {"caller"} :
                                                                k \in call.kws \/ (k = "caller" /\ call.cb)})
            /\ UNCHANGED <<sig, call, arguments, found, outcome>>

\* arguments = list(args[: self._argument_count])
TakePositional ==
    /\ pc = "positional"
    /\ arguments' = SubSeq(Args(call), 1, IF call.npos < Argc(sig) THEN call.npos ELSE Argc(sig))
    /\ pc' = "keywords"
    /\ UNCHANGED <<sig, call, kw, found, outcome>>

\* if off != argument_count: for name in self.arguments[off:]: kwargs.pop(name) or missing
FillFromKeywords ==
    /\ pc = "keywords"
    /\ LET off == Len(arguments)
           rest == SubSeq(Params(sig), off + 1, Argc(sig))
       IN IF off # Argc(sig)
          THEN /\ arguments' = arguments \o
                        [j \in 1..Len(rest) |-> IF rest[j] \in kw THEN KV(call, rest[j]) ELSE Missing]
               /\ kw' = kw \ {rest[j] : j \in 1..Len(rest)}
               /\ found' = (\E j \in 1..Len(rest) : rest[j] = "caller")
          ELSE /\ found' = ExplCaller
               /\ UNCHANGED <<arguments, kw>>
    /\ pc' = "caller"
    /\ UNCHANGED <<sig, call, outcome>>

\* if self.caller and not found_caller: caller = kwargs.pop("caller", None) or undefined
Caller ==
    /\ pc = "caller"
    /\ IF AccessCaller /\ ~found
       THEN /\ arguments' = Append(arguments, IF "caller" \in kw THEN KV(call, "caller") ELSE Undef)
            /\ kw' = kw \ {"caller"}
       ELSE UNCHANGED <<arguments, kw>>
    /\ pc' = "kwargs"
    /\ UNCHANGED <<sig, call, found, outcome>>

\* if self.catch_kwargs: arguments.append(kwargs) elif kwargs: raise TypeError
Kwargs ==
    /\ pc = "kwargs"
    /\ IF CatchKwargs
       THEN /\ arguments' = Append(arguments, {<<KwName(call, k), KV(call, k)>> : k \in kw})
            /\ pc' = "varargs"
            /\ UNCHANGED <<sig, call, kw, found, outcome>>
       ELSE IF kw # {} THEN Fail
       ELSE pc' = "varargs" /\ UNCHANGED <<sig, call, arguments, kw, found, outcome>>

\* if self.catch_varargs: arguments.append(args[argument_count:]) elif len(args) > argument_count: raise
Varargs ==
    /\ pc = "varargs"
    /\ IF CatchVarargs
       THEN /\ arguments' = Append(arguments, SubSeq(Args(call), Argc(sig) + 1, call.npos))
            /\ pc' = "invoke"
            /\ UNCHANGED <<sig, call, kw, found, outcome>>
       ELSE IF call.npos > Argc(sig) THEN Fail
       ELSE pc' = "invoke" /\ UNCHANGED <<sig, call, arguments, kw, found, outcome>>

\* the compiled macro function: `if l_1_x is missing: l_1_x = <default>` for every parameter in order
\* A parameter counts as stored only AFTER its `if ... is missing` block (mark_parameter_stored);
\* a name read before that compiles to `(undefined(name) if l_x is missing else l_x)`.
RECURSIVE Resolved(_, _)
ReadParam(args, j, stored) ==
    IF j \in stored THEN Resolved(args, j)
    ELSE IF args[j] = Missing THEN Undef ELSE args[j]
Resolved(args, i) ==
    IF args[i] # Missing THEN args[i]
    ELSE LET stored == 1..(i - 1) IN       \* parameters already stored while default i is evaluated
         CASE DefKind(sig, i) = "none"  -> Undef
           [] DefKind(sig, i) = "const" -> DConst[Params(sig)[i]]
           [] DefKind(sig, i) = "prev"  -> ReadParam(args, i - 1, stored)
           [] DefKind(sig, i) = "outer" -> OuterAtCall
           [] DefKind(sig, i) = "self"  -> ReadParam(args, i, stored)

Invoke ==
    /\ pc = "invoke"
    /\ LET n == Argc(sig)
           \* order of the extra arguments: caller, kwargs, varargs
           ic == IF AccessCaller /\ ~ExplCaller THEN 1 ELSE 0
           ik == IF CatchKwargs THEN 1 ELSE 0
       IN outcome' = [kind    |-> "ok",
                      params  |-> [i \in 1..n |-> Resolved(arguments, i)],
                      caller  |-> IF ic = 1 THEN arguments[n + 1] ELSE "-",
                      kwargs  |-> IF ik = 1 THEN arguments[n + ic + 1] ELSE {},
                      varargs |-> IF CatchVarargs THEN arguments[n + ic + ik + 1] ELSE <<>>]
    /\ pc' = "done"
    /\ UNCHANGED <<sig, call, arguments, kw, found>>

\* report the case (the harness replays it on the real engine)
Done ==
    /\ pc = "done"
    /\ PrintT(ToJson([sig |-> sig, call |-> call, out |-> outcome]))
    /\ pc' = "reported"
    /\ UNCHANGED <<sig, call, arguments, kw, found, outcome>>

Next == Deliver \/ TakePositional \/ FillFromKeywords \/ Caller \/ Kwargs \/ Varargs \/ Invoke \/ Done

Spec == Init /\ [][Next]_vars /\ WF_vars(Next)

(* ------------------------------------------------------------------------ *)
(* PROPERTIES                                                               *)
(* ------------------------------------------------------------------------ *)
Finished == pc \in {"done", "reported"}
Ok == outcome.kind = "ok"

\* the engine's steps and the calling rules agree on every case
C06_MatchesRules == Finished => outcome = Rules(sig, call)

\* every parameter gets exactly one value, with priority positional > keyword > default > undefined,
\* and no keyword both fills a parameter and lands in kwargs
C06_EachParamOnce ==
    Finished /\ Ok =>
        /\ Len(outcome.params) = Argc(sig)
        /\ \A i \in 1..Argc(sig) :
              LET name == Params(sig)[i] IN
              /\ (i <= call.npos => outcome.params[i] = PosVal[i])
              /\ (i > call.npos /\ name \in EffKw(call) => outcome.params[i] = KV(call, name))
              /\ (i > call.npos /\ name \in EffKw(call) => <<name, KV(call, name)>> \notin outcome.kwargs)
              /\ outcome.params[i] # Missing       \* the internal marker never becomes a parameter value
              /\ (i > call.npos /\ name \notin EffKw(call) /\ DefKind(sig, i) = "none" => outcome.params[i] = Undef)

\* surplus positional arguments go to varargs iff the body uses varargs, else TypeError
C06_SurplusPositional ==
    Finished /\ call.dup = "" /\ call.npos > Argc(sig) =>
        IF "varargs" \in sig.uses
        THEN (Ok => outcome.varargs = SubSeq(PosVal, Argc(sig) + 1, call.npos))
        ELSE outcome.kind = "TypeError"

\* a keyword that fills no parameter goes to kwargs iff the body uses kwargs, else TypeError;
\* this includes a keyword naming a parameter that a positional argument already filled
C06_UnknownKeyword ==
    Finished /\ call.dup = "" =>
        \A k \in EffKw(call) :
            LET isFree == \E i \in 1..Argc(sig) : Params(sig)[i] = k /\ i > call.npos
                toCaller == k = "caller" /\ ImplicitCaller(sig)
            IN (~isFree /\ ~toCaller) =>
                 IF "kwargs" \in sig.uses THEN (Ok => <<KwName(call, k), KV(call, k)>> \in outcome.kwargs)
                 ELSE outcome.kind = "TypeError"

\* defaults see the outer variable as it is at call time and earlier parameters as bound
C06_DefaultsAtCallTime ==
    Finished /\ Ok =>
        \A i \in 1..Argc(sig) :
            /\ outcome.params[i] # OuterAtDef
            /\ (i > call.npos /\ Params(sig)[i] \notin EffKw(call) =>
                  /\ (DefKind(sig, i) = "outer" => outcome.params[i] = OuterAtCall)
                  /\ (DefKind(sig, i) = "prev" => outcome.params[i] = outcome.params[i - 1])
                  /\ (DefKind(sig, i) = "const" => outcome.params[i] = DConst[Params(sig)[i]])
                  \* its own name is not bound (nor an outer variable visible) in a parameter's default
                  /\ (DefKind(sig, i) = "self" => outcome.params[i] = Undef))

\* the spelling of a keyword name (a reserved word of Python or not) changes nothing but the name
\* under which it arrives: same parameters, same caller, same TypeError
RenameU(o) == [o EXCEPT !.kwargs = {IF p[1] = "u" THEN <<"class", p[2]>> ELSE p : p \in @}]
C06_KeywordNameIrrelevant ==
    Finished /\ call.rk => outcome = RenameU(Rules(sig, [call EXCEPT !.rk = FALSE]))

\* the call block reaches a body that mentions caller; without a block caller is undefined;
\* a macro that cannot take the block (no caller, no kwargs) rejects a call block
C06_CallerRules ==
    Finished /\ call.dup = "" =>
        /\ (Ok /\ ImplicitCaller(sig) => outcome.caller = (IF "caller" \in EffKw(call) THEN KV(call, "caller") ELSE Undef))
        /\ (call.cb /\ "caller" \notin sig.uses /\ ~sig.ec /\ "kwargs" \notin sig.uses => outcome.kind = "TypeError")
        /\ (Ok /\ call.cb /\ sig.ec /\ call.npos <= sig.n => outcome.params[sig.n + 1] = "CB")

C06_Terminates == <>(pc = "reported")
=============================================================================
