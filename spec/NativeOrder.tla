----------------------------- MODULE NativeOrder -----------------------------
(***************************************************************************)
(* Property C09 for native environments: WHEN output values become text.   *)
(*                                                                         *)
(* A native template does not convert `{{ expression }}` values when they  *)
(* are written: root_render_func (and every block function) yields the     *)
(* values themselves and environment.concat = native_concat turns them     *)
(* into text at the end.  What that text is depends on when each value is  *)
(* converted if the rest of the template changes the value, and which      *)
(* error a render raises depends on it if a conversion fails.  A sync and  *)
(* an async environment must agree on both (C09).                          *)
(*                                                                         *)
(* PROGRAMS.  One mutable list L (abstracted to its length), an object     *)
(* `bad` whose str() raises ValueError, and the statements                 *)
(*   txt   template text                    (yields a str)                 *)
(*   ref   {{ L }}                          (yields the list itself)       *)
(*   push  {% set _ = L.append(1) %}        (changes the list, no output)  *)
(*   bad   {{ bad }}                        (yields the object)            *)
(*   div   {{ 1 // z }} with z = 0          (the template raises)          *)
(*   call  {{ self.b() }} or {{ m() }}      (yields concat(body))          *)
(* over every statement sequence up to MaxOps, the called body being one   *)
(* of Bodies, written as block b (via = "block": its function is a         *)
(* generator that BlockReference hands to concat) or as macro m (via =     *)
(* "macro": the body writes into a buffer, a list, in both modes).         *)
(*                                                                         *)
(* OPERATIONAL LAYER, one action per step of the implementation:           *)
(*   Pull     the consumer resumes the render generator, which runs to its *)
(*            next yield (changing L on the way), to its end, or raises    *)
(*   Convert  str() of ONE collected value, with L as it is now            *)
(*   Finish   native_concat's case analysis: no value -> None, one value   *)
(*            -> the value itself (a str: the text), else the joined text  *)
(* The ASYNC renderer collects `[v async for v in root_render_func(ctx)]`  *)
(* and then concats the list.  The SYNC renderer hands the generator to    *)
(* native_concat.  Lazy = FALSE is the repaired tree (finding F36): the    *)
(* generator runs to its end before the first Convert.  Lazy = TRUE is the *)
(* pinned tree: islice(values, 2), then every further value is converted   *)
(* as soon as it is pulled - TLC shows that C09_NativeParity fails for it  *)
(* (the harness asserts that it does).  The same holds one level down for  *)
(* `self.b()` (BlockReference.__call__ / _async_call), modelled by the     *)
(* functional twin Concat() of the actions; C09_ActionsMatchFunction ties  *)
(* the two definitions together.                                           *)
(*                                                                         *)
(* Every program is printed with the result of both renderers and replayed *)
(* on NativeEnvironment: sync render, async render, async render_async.    *)
(* The text alphabet is chosen so that no joined text is a Python literal  *)
(* (parsing literals is property C34, spec/Native.tla).                    *)
(***************************************************************************)
EXTENDS Naturals, Sequences, FiniteSets, TLC, Json

CONSTANTS MaxOps,   \* longest statement sequence of the main program
          Lazy      \* FALSE: sync native_concat runs the generator to its end first; TRUE: the pinned tree

Ops    == {"txt", "ref", "push", "bad", "div", "call"}
Bodies == << <<"ref">>, <<"ref", "txt", "push">>, <<"push", "txt", "bad">>, <<>>, <<"txt", "push", "ref", "push">> >>
Renderers == <<"sync", "async">>

\* a collected value: txt carries its text tokens, ref is the list L itself, bad the failing object, nil is None
Chunk(k, t) == [k |-> k, t |-> t]
LTok(n) == "L" \o ToString(n)          \* the text of a list of n elements

Converts(c) == c.k # "bad"
Text(c, n) == IF c.k = "txt" THEN c.t ELSE IF c.k = "ref" THEN <<LTok(n)>> ELSE <<"None">>

Res(kind, toks, cls) == [kind |-> kind, toks |-> toks, cls |-> cls]
Pending == Res("pending", <<>>, "")
Err(cls) == Res("err", <<>>, cls)

\* native_concat's case analysis over fully collected values cs whose conversions (all successful) are `conv`
Finished(cs, conv, n) ==
    IF Len(cs) = 0 THEN Res("none", <<>>, "")
    ELSE IF Len(cs) = 1 THEN
        IF cs[1].k = "txt" THEN Res("text", cs[1].t, "")
        ELSE Res("obj", IF cs[1].k = "ref" THEN <<"L">> ELSE IF cs[1].k = "bad" THEN <<"bad">> ELSE <<"None">>, "")
    ELSE Res("text", conv, "")

\* the value a finished inner concat puts into the outer stream
AsChunk(r) == IF r.kind = "text" THEN Chunk("txt", r.toks)
              ELSE IF r.kind = "none" THEN Chunk("nil", <<>>)
              ELSE IF r.toks = <<"L">> THEN Chunk("ref", <<>>)
              ELSE IF r.toks = <<"bad">> THEN Chunk("bad", <<>>) ELSE Chunk("nil", <<>>)

(* ---- functional definition (used for `self.b()`, and as the twin of the actions) ----------- *)
\* a: [n, cs, conv, nconv, err]; lazy: convert as pulled once two values are there
NoBody == [ops |-> <<>>, via |-> "block"]      \* bodies call nothing
RECURSIVE Fold(_, _, _, _, _), Concat(_, _, _, _)
ConvUpTo(a, upto) ==   \* convert values a.nconv+1 .. upto with the list as it is now; stops at the first failure
    LET RECURSIVE Go(_)
        Go(x) == IF x.err # "" \/ x.nconv >= upto THEN x
                 ELSE LET c == x.cs[x.nconv + 1]
                      IN IF Converts(c) THEN Go([x EXCEPT !.conv = x.conv \o Text(c, x.n), !.nconv = x.nconv + 1])
                         ELSE [x EXCEPT !.err = "ValueError"]
    IN Go(a)

Concat(ops, n0, body, lazy) ==
    LET a0 == [n |-> n0, cs |-> <<>>, conv |-> <<>>, nconv |-> 0, err |-> ""]
        a  == Fold(ops, 1, a0, body, lazy)
        b  == IF a.err # "" \/ Len(a.cs) < 2 THEN a ELSE ConvUpTo(a, Len(a.cs))
    IN [res |-> IF b.err # "" THEN Err(b.err) ELSE Finished(b.cs, b.conv, b.n), n |-> b.n]

Fold(ops, i, a, body, lazy) ==
    IF a.err # "" \/ i > Len(ops) THEN a
    ELSE LET op == ops[i]
             yielded(c, n) ==
                 LET a1 == [a EXCEPT !.cs = Append(a.cs, c), !.n = n]
                 IN IF lazy /\ Len(a1.cs) >= 2 THEN ConvUpTo(a1, Len(a1.cs)) ELSE a1
         IN CASE op = "push" -> Fold(ops, i + 1, [a EXCEPT !.n = a.n + 1], body, lazy)
              [] op = "div"  -> [a EXCEPT !.err = "ZeroDivisionError"]
              [] op = "txt"  -> Fold(ops, i + 1, yielded(Chunk("txt", <<"x">>), a.n), body, lazy)
              [] op = "ref"  -> Fold(ops, i + 1, yielded(Chunk("ref", <<>>), a.n), body, lazy)
              [] op = "bad"  -> Fold(ops, i + 1, yielded(Chunk("bad", <<>>), a.n), body, lazy)
              [] op = "call" -> LET r == Concat(body.ops, a.n, NoBody, lazy /\ body.via = "block")   \* a macro buffers
                                IN IF r.res.kind = "err" THEN [a EXCEPT !.err = r.res.cls, !.n = r.n]
                                   ELSE Fold(ops, i + 1, yielded(AsChunk(r.res), r.n), body, lazy)

(* ---- operational layer ------------------------------------------------------------------------ *)
VARIABLES prog,    \* [main, body, via]: the input
          cur,     \* index into Renderers: who is running (sync first, then async; 3 = both done)
          pc,      \* next statement of the render generator
          n,       \* length of L (every renderer gets fresh data)
          cs,      \* values collected so far
          conv,    \* text tokens of the values converted so far
          nconv,   \* how many of cs are converted
          ended,   \* the generator has run to its end
          res      \* renderer -> result

vars == <<prog, cur, pc, n, cs, conv, nconv, ended, res>>

Programs == { [main |-> m, body |-> b, via |-> v] :
                 m \in UNION {[1..k -> Ops] : k \in 0..MaxOps}, b \in 1..Len(Bodies), v \in {"block", "macro"} }
Body(p) == [ops |-> Bodies[p.body], via |-> p.via]
UsesBody(p) == \E i \in 1..Len(p.main) : p.main[i] = "call"

Init ==
    /\ prog \in {p \in Programs : UsesBody(p) \/ (p.body = 1 /\ p.via = "block")}
    /\ cur = 1 /\ pc = 1 /\ n = 0 /\ cs = <<>> /\ conv = <<>> /\ nconv = 0 /\ ended = FALSE
    /\ res = [r \in {"sync", "async"} |-> Pending]

Running == cur <= 2
Me == Renderers[cur]
IsLazy == Me = "sync" /\ Lazy            \* the async renderer always collects first
Done(r, v) == /\ res' = [res EXCEPT ![r] = v]
              /\ cur' = cur + 1 /\ pc' = 1 /\ n' = 0 /\ cs' = <<>> /\ conv' = <<>> /\ nconv' = 0 /\ ended' = FALSE

\* the generator from statement i with list length m: its next yield, its end, or an error
RECURSIVE NextYield(_, _)
NextYield(i, m) ==
    IF i > Len(prog.main) THEN [what |-> "end", pc |-> i, n |-> m, c |-> Chunk("nil", <<>>), cls |-> ""]
    ELSE LET op == prog.main[i]
             Y(c, m2) == [what |-> "yield", pc |-> i + 1, n |-> m2, c |-> c, cls |-> ""]
         IN CASE op = "push" -> NextYield(i + 1, m + 1)
              [] op = "div"  -> [what |-> "raise", pc |-> i, n |-> m, c |-> Chunk("nil", <<>>), cls |-> "ZeroDivisionError"]
              [] op = "txt"  -> Y(Chunk("txt", <<"x">>), m)
              [] op = "ref"  -> Y(Chunk("ref", <<>>), m)
              [] op = "bad"  -> Y(Chunk("bad", <<>>), m)
              [] op = "call" -> LET r == Concat(Bodies[prog.body], m, NoBody, IsLazy /\ prog.via = "block")
                                IN IF r.res.kind = "err"
                                   THEN [what |-> "raise", pc |-> i, n |-> r.n, c |-> Chunk("nil", <<>>), cls |-> r.res.cls]
                                   ELSE Y(AsChunk(r.res), r.n)

\* must the consumer convert before it pulls again?
Owes == IF IsLazy THEN Len(cs) >= 2 /\ nconv < Len(cs)
        ELSE ended /\ Len(cs) >= 2 /\ nconv < Len(cs)

Pull ==
    /\ Running /\ ~ended /\ ~Owes
    /\ LET y == NextYield(pc, n)
       IN CASE y.what = "raise" -> Done(Me, Err(y.cls))
            [] y.what = "end"   -> /\ ended' = TRUE /\ n' = y.n /\ pc' = y.pc
                                   /\ UNCHANGED <<cur, cs, conv, nconv, res>>
            [] y.what = "yield" -> /\ cs' = Append(cs, y.c) /\ n' = y.n /\ pc' = y.pc
                                   /\ UNCHANGED <<cur, conv, nconv, ended, res>>
    /\ UNCHANGED prog

Convert ==
    /\ Running /\ Owes
    /\ LET c == cs[nconv + 1]
       IN IF Converts(c)
          THEN /\ conv' = conv \o Text(c, n) /\ nconv' = nconv + 1
               /\ UNCHANGED <<cur, pc, n, cs, ended, res>>
          ELSE Done(Me, Err("ValueError"))
    /\ UNCHANGED prog

Finish ==
    /\ Running /\ ended /\ ~Owes
    /\ Done(Me, Finished(cs, conv, n))
    /\ UNCHANGED prog

Report ==
    /\ cur = 3
    /\ cur' = 4
    /\ PrintT(ToJson([order |-> [main |-> prog.main, body |-> Bodies[prog.body], via |-> prog.via, sync |-> res["sync"], async |-> res["async"]]]))
    /\ UNCHANGED <<prog, pc, n, cs, conv, nconv, ended, res>>

Next == Pull \/ Convert \/ Finish \/ Report

Spec == Init /\ [][Next]_vars

(* ---- properties ------------------------------------------------------------------------------- *)
TypeOK ==
    /\ cur \in 1..4 /\ pc \in 1..(MaxOps + 1) /\ n \in Nat /\ nconv <= Len(cs) /\ ended \in BOOLEAN
    /\ \A r \in {"sync", "async"} : res[r].kind \in {"pending", "none", "obj", "text", "err"}

\* C09 for native environments: the async render returns what the sync render returns (value or error class)
C09_NativeParity == cur >= 3 => res["sync"] = res["async"]

\* conversions see the final list: a render (without block calls) that succeeds with several values shows L as it is
\* when the template has run to its end, wherever `{{ L }}` was written
HasCall == \E i \in 1..Len(prog.main) : prog.main[i] = "call"
C09_ConvertedAtTheEnd ==
    (cur >= 3 /\ ~Lazy /\ ~HasCall) =>
        LET fin == Cardinality({i \in 1..Len(prog.main) : prog.main[i] = "push"})
        IN \A r \in {"sync", "async"} :
             (res[r].kind = "text" /\ Len(res[r].toks) > 1) =>
                 \A k \in 1..Len(res[r].toks) : res[r].toks[k] \in {"x", LTok(fin)}

\* the actions and the functional definition agree (the latter is what `self.b()` uses)
C09_ActionsMatchFunction ==
    cur >= 3 => /\ res["sync"]  = Concat(prog.main, 0, Body(prog), Lazy).res
                /\ res["async"] = Concat(prog.main, 0, Body(prog), FALSE).res
=============================================================================
