----------------------------- MODULE SandboxOps -----------------------------
(***************************************************************************)
(* Operator interception of the sandbox (property C20).                    *)
(*                                                                         *)
(* The semantics of arithmetic expressions of a template under a set of    *)
(* intercepted operators: every application of an operator that is         *)
(* EXECUTED (short-circuit and conditional expressions skip operands) is   *)
(* one step                                                                *)
(*     OpHook(op, l, r)    if op is intercepted: the hook is called with   *)
(*                         the operand values and ITS result is the value  *)
(*     NativeOp(op, l, r)  otherwise: the native operator, no hook event   *)
(* Constants are not special: there is no compile-time evaluation in the   *)
(* semantics, so an intercepted operator between two literals is routed to *)
(* the hook like any other.                                                *)
(*                                                                         *)
(* The hook of the conformance harness calls the native operator and adds  *)
(* 1000 to its result (so an application that was not routed is visible in *)
(* the rendered value); the same perturbation is modelled here.            *)
(*                                                                         *)
(* Values are integers with a flag `f` = "is a Python float" (true         *)
(* division produces floats; only exact quotients are explored so that     *)
(* every value is integral and printable without rounding questions).      *)
(* Cases (IOEnv.CASES_FILE, written by the harness' expression generator)  *)
(*   [cases |-> <<[id, w, e, vars, items]...>>, subsets |-> <<[b, u]...>>]  *)
(*   w = "once"  the expression is evaluated once          {{ E }}          *)
(*       "twice" evaluated at two separate times           macro default    *)
(*       "loop"  evaluated for every item with i bound     loop filter      *)
(* Expressions: [t |-> "c", v] constant, [t |-> "v", n] variable,          *)
(*   [t |-> "b", op, l, r], [t |-> "u", op, e], [t |-> "if", c, a, b],      *)
(*   [t |-> "and" | "or", l, r].                                            *)
(* TLC evaluates every (case, subset) and prints the expected hook log,    *)
(* result values and status; the harness renders the real template in a    *)
(* SandboxedEnvironment subclass with that intercepted set and compares.   *)
(***************************************************************************)
EXTENDS Integers, Sequences, FiniteSets, TLC, Json, IOUtils

In == JsonDeserialize(IOEnv.CASES_FILE)
Cases == In.cases
SetOf(s) == {s[k] : k \in 1..Len(s)}
NSub == Len(In.subsets)
Sub(k) == [b |-> SetOf(In.subsets[k].b), u |-> SetOf(In.subsets[k].u)]

VARIABLES cid, sid, done, res

BinOps == {"+", "-", "*", "/", "//", "%", "**"}
UnOps == {"+", "-"}

Val(n, f) == [n |-> n, f |-> f]
Big(x) == x.n > 30000 \/ x.n < -30000
Truthy(x) == x.n # 0

(* Python's floor division and modulo, written for either sign of the divisor
   (TLC's \div is only relied upon for a positive divisor) *)
FloorDiv(a, b) == IF b > 0 THEN a \div b ELSE (-a) \div (-b)
Mod(a, b) == a - b * FloorDiv(a, b)

RECURSIVE Pow(_, _)
Pow(a, b) == IF b = 0 THEN 1 ELSE a * Pow(a, b - 1)

(* the native operators: [v, st], st = "ok" | "ZeroDivisionError" | "skip" (outside
   the explored value space: inexact quotient, negative exponent, large numbers,
   float zero whose sign would matter) *)
NativeBin(op, a, b) ==
    LET f == a.f \/ b.f
        R(n, ff) == IF ff /\ n = 0 THEN [v |-> Val(0, ff), st |-> "skip"]
                    ELSE [v |-> Val(n, ff), st |-> "ok"]
    IN  IF Big(a) \/ Big(b) THEN [v |-> a, st |-> "skip"]
        ELSE CASE op = "+"  -> R(a.n + b.n, f)
               [] op = "-"  -> R(a.n - b.n, f)
               [] op = "*"  -> R(a.n * b.n, f)
               [] op = "/"  -> IF b.n = 0 THEN [v |-> a, st |-> "ZeroDivisionError"]
                               ELSE IF Mod(a.n, b.n) # 0 THEN [v |-> a, st |-> "skip"]
                               ELSE R(FloorDiv(a.n, b.n), TRUE)
               [] op = "//" -> IF b.n = 0 THEN [v |-> a, st |-> "ZeroDivisionError"]
                               ELSE R(FloorDiv(a.n, b.n), f)
               [] op = "%"  -> IF b.n = 0 THEN [v |-> a, st |-> "ZeroDivisionError"]
                               ELSE R(Mod(a.n, b.n), f)
               [] op = "**" -> IF b.n < 0 \/ b.n > 6 \/ a.n > 30 \/ a.n < -30
                               THEN [v |-> a, st |-> "skip"]
                               ELSE R(Pow(a.n, b.n), f)

NativeUn(op, a) ==
    IF Big(a) THEN [v |-> a, st |-> "skip"]
    ELSE IF op = "-" THEN [v |-> Val(0 - a.n, a.f), st |-> "ok"]
    ELSE [v |-> a, st |-> "ok"]

Perturb(x) == Val(x.n + 1000, x.f)

(* one executed application: appended to `apps` with the flag h = "went through the hook" *)
ApplyBin(op, a, b, sub, apps) ==
    LET h == op \in sub.b
        apps2 == Append(apps, [op |-> op, u |-> FALSE, l |-> a, r |-> b, h |-> h])
        nat == NativeBin(op, a, b)
    IN  IF nat.st # "ok" THEN [v |-> a, apps |-> apps2, st |-> nat.st]
        ELSE [v |-> IF h THEN Perturb(nat.v) ELSE nat.v, apps |-> apps2, st |-> "ok"]

ApplyUn(op, a, sub, apps) ==
    LET h == op \in sub.u
        apps2 == Append(apps, [op |-> op, u |-> TRUE, l |-> a, r |-> a, h |-> h])
        nat == NativeUn(op, a)
    IN  IF nat.st # "ok" THEN [v |-> a, apps |-> apps2, st |-> nat.st]
        ELSE [v |-> IF h THEN Perturb(nat.v) ELSE nat.v, apps |-> apps2, st |-> "ok"]

RECURSIVE Ev(_, _, _, _)
Ev(e, env, sub, apps) ==
    CASE e.t = "c" -> [v |-> Val(e.v, FALSE), apps |-> apps, st |-> "ok"]
      [] e.t = "v" -> [v |-> Val(env[e.n], FALSE), apps |-> apps, st |-> "ok"]
      [] e.t = "b" ->
           LET L == Ev(e.l, env, sub, apps) IN
           IF L.st # "ok" THEN L
           ELSE LET R == Ev(e.r, env, sub, L.apps) IN
                IF R.st # "ok" THEN R ELSE ApplyBin(e.op, L.v, R.v, sub, R.apps)
      [] e.t = "u" ->
           LET A == Ev(e.e, env, sub, apps) IN
           IF A.st # "ok" THEN A ELSE ApplyUn(e.op, A.v, sub, A.apps)
      [] e.t = "if" ->
           LET C == Ev(e.c, env, sub, apps) IN
           IF C.st # "ok" THEN C
           ELSE IF Truthy(C.v) THEN Ev(e.a, env, sub, C.apps) ELSE Ev(e.b, env, sub, C.apps)
      [] e.t = "and" ->
           LET L == Ev(e.l, env, sub, apps) IN
           IF L.st # "ok" \/ ~Truthy(L.v) THEN L ELSE Ev(e.r, env, sub, L.apps)
      [] e.t = "or" ->
           LET L == Ev(e.l, env, sub, apps) IN
           IF L.st # "ok" \/ Truthy(L.v) THEN L ELSE Ev(e.r, env, sub, L.apps)

(* loop filter: evaluate for every item, keep the items whose value is true *)
RECURSIVE Loop(_, _, _, _, _, _)
Loop(e, env, sub, items, apps, out) ==
    IF items = <<>> THEN [out |-> out, apps |-> apps, st |-> "ok"]
    ELSE LET R == Ev(e, [env EXCEPT !.i = Head(items)], sub, apps) IN
         IF R.st # "ok" THEN [out |-> out, apps |-> R.apps, st |-> R.st]
         ELSE Loop(e, env, sub, Tail(items), R.apps,
                   IF Truthy(R.v) THEN Append(out, Val(Head(items), FALSE)) ELSE out)

RunCase(c, sub) ==
    IF c.w = "loop" THEN Loop(c.e, c.vars, sub, c.items, <<>>, <<>>)
    ELSE LET R1 == Ev(c.e, c.vars, sub, <<>>) IN
         IF R1.st # "ok" \/ c.w = "once"
         THEN [out |-> IF R1.st = "ok" THEN <<R1.v>> ELSE <<>>, apps |-> R1.apps, st |-> R1.st]
         ELSE LET R2 == Ev(c.e, c.vars, sub, R1.apps) IN
              [out |-> IF R2.st = "ok" THEN <<R1.v, R2.v>> ELSE <<R1.v>>, apps |-> R2.apps, st |-> R2.st]

Result == RunCase(Cases[cid], Sub(sid))
HookLog(r) == SelectSeq(r.apps, LAMBDA a : a.h)

NoRes == [out |-> <<>>, apps |-> <<>>, st |-> "none"]

Init == cid \in 1..Len(Cases) /\ sid \in 1..NSub /\ done = FALSE /\ res = NoRes

Emit ==
    /\ ~done
    /\ done' = TRUE
    /\ UNCHANGED <<cid, sid>>
    /\ res' = Result
    /\ PrintT(ToJson([id |-> Cases[cid].id, sid |-> sid, st |-> res'.st, out |-> res'.out,
                      log |-> HookLog(res'), napps |-> Len(res'.apps)]))

Next == Emit
Spec == Init /\ [][Next]_<<cid, sid, done, res>>

(* the hook sees all and only the executed applications of intercepted operators,
   with their operands *)
C20_AllAndOnlyIntercepted ==
    LET r == res sub == Sub(sid) IN
    \A k \in 1..Len(r.apps) :
        r.apps[k].h = (IF r.apps[k].u THEN r.apps[k].op \in sub.u ELSE r.apps[k].op \in sub.b)

(* with nothing intercepted there is no hook event and no perturbation; with an operator
   that does not occur in the executed applications intercepted, nothing changes *)
C20_IrrelevantInterceptionIsInvisible ==
    LET r == res IN
    (done /\ HookLog(r) = <<>> /\ Sub(sid) # [b |-> {}, u |-> {}]) =>
        LET r0 == RunCase(Cases[cid], [b |-> {}, u |-> {}]) IN r.out = r0.out /\ r.st = r0.st
=============================================================================
