----------------------------- MODULE SandboxOps -----------------------------
(***************************************************************************)
(* Operator interception of the sandbox (property C20).                    *)
(*                                                                         *)
(* The semantics of arithmetic expressions of a template under a set of    *)
(* intercepted operators: every application of an operator that is         *)
(* EXECUTED (short-circuit and conditional expressions skip operands) is   *)
(* one step                                                                *)
(*     OpHook(op, l, r)    if op is intercepted: the hook is called with   *)
(*                         the operand values and ITS result is the value  *)
(*     NativeOp(op, l, r)  otherwise: the native operator, no hook event   *)
(* Constants are not special: there is no compile-time evaluation in the   *)
(* semantics, so an intercepted operator between two literals is routed to *)
(* the hook like any other.                                                *)
(*                                                                         *)
(* The semantics is SandboxOpsSem.  The hook of the conformance harness    *)
(* (call_binop / call_unop of a subclass) calls the native operator and    *)
(* adds 1000 to its result (so an application that was not routed is       *)
(* visible in the rendered value): callback 1 for every operator here.     *)
(* Several environments with callback tables of their own: SandboxOpsEnvs. *)
(*                                                                         *)
(* Values are integers with a flag `f` = "is a Python float" (true         *)
(* division produces floats; only exact quotients are explored so that     *)
(* every value is integral and printable without rounding questions).      *)
(* Cases (IOEnv.CASES_FILE, written by the harness' expression generator)  *)
(*   [cases |-> <<[id, w, e, vars, items]...>>, subsets |-> <<[b, u]...>>]  *)
(*   w = "once"  the expression is evaluated once          {{ E }}          *)
(*       "twice" evaluated at two separate times           macro default    *)
(*       "loop"  evaluated for every item with i bound     loop filter      *)
(* Expressions: [t |-> "c", v] constant, [t |-> "v", n] variable,          *)
(*   [t |-> "b", op, l, r], [t |-> "u", op, e], [t |-> "if", c, a, b],      *)
(*   [t |-> "and" | "or", l, r].                                            *)
(* TLC evaluates every (case, subset) and prints the expected hook log,    *)
(* result values and status; the harness renders the real template in a    *)
(* SandboxedEnvironment subclass with that intercepted set and compares.   *)
(***************************************************************************)
EXTENDS SandboxOpsSem, Json, IOUtils

In == JsonDeserialize(IOEnv.CASES_FILE)
Cases == In.cases
NSub == Len(In.subsets)
Sub(k) == [b |-> SetOf(In.subsets[k].b), u |-> SetOf(In.subsets[k].u),
           tb |-> [op \in BinOps |-> 1], tu |-> [op \in UnOps |-> 1]]

VARIABLES cid, sid, done, res

Result == RunCase(Cases[cid], Sub(sid))
Init == cid \in 1..Len(Cases) /\ sid \in 1..NSub /\ done = FALSE /\ res = NoRes

Emit ==
    /\ ~done
    /\ done' = TRUE
    /\ UNCHANGED <<cid, sid>>
    /\ res' = Result
    /\ PrintT(ToJson([id |-> Cases[cid].id, sid |-> sid, st |-> res'.st, out |-> res'.out,
                      log |-> HookLog(res'), napps |-> Len(res'.apps)]))

Next == Emit
Spec == Init /\ [][Next]_<<cid, sid, done, res>>

(* the hook sees all and only the executed applications of intercepted operators,
   with their operands *)
C20_AllAndOnlyIntercepted == AllAndOnlyIntercepted(res, Sub(sid))

(* with nothing intercepted there is no hook event and no perturbation; with an operator
   that does not occur in the executed applications intercepted, nothing changes *)
C20_IrrelevantInterceptionIsInvisible ==
    LET r == res IN
    (done /\ HookLog(r) = <<>> /\ (Sub(sid).b # {} \/ Sub(sid).u # {})) =>
        LET r0 == RunCase(Cases[cid], [Sub(sid) EXCEPT !.b = {}, !.u = {}]) IN r.out = r0.out /\ r.st = r0.st
=============================================================================
