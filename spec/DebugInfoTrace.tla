--------------------------- MODULE DebugInfoTrace ---------------------------
(***************************************************************************)
(* Trace validation (code -> spec) for DebugInfo.tla.  The harness compiles *)
(* generated templates with a recording subclass of CodeGenerator and logs  *)
(* every newline(node, extra) / write(x) call with the code_lineno observed *)
(* afterwards, the final debug_info and get_corresponding_lineno(c) for     *)
(* every code line c.  A trace is accepted iff the specification can take   *)
(* every step with the observed code line, ends with the observed           *)
(* debug_info, and Lookup agrees with the real lookup on every code line.   *)
(* C35_MappingSound is checked as an invariant along the real traces, i.e.  *)
(* for the operation sequences the real visitor methods issue.              *)
(***************************************************************************)
EXTENDS DebugInfo, Json, IOUtils

Traces == JsonDeserialize(IOEnv.TRACE_FILE)

VARIABLES tid, l

tvars == <<codeLine, newLines, pending, lastLine, firstWrite, info, cur, writes, nops, tid, l>>

Ops == Traces[tid].ops

TInit == Init /\ tid \in 1..Len(Traces) /\ l = 1

TNewline ==
    /\ l <= Len(Ops) /\ Ops[l].op = "n"
    /\ NewlineEffect(Ops[l].line, Ops[l].extra)
    /\ nops' = nops + 1 /\ l' = l + 1 /\ UNCHANGED tid

TWrite ==
    /\ l <= Len(Ops) /\ Ops[l].op = "w"
    /\ WriteEffect
    /\ codeLine' = Ops[l].code                       \* observed code_lineno after the write
    /\ nops' = nops + 1 /\ l' = l + 1 /\ UNCHANGED tid

TNext == TNewline \/ TWrite

TSpec == TInit /\ [][TNext]_tvars

Accepting ==
    /\ l = Len(Ops) + 1
    /\ info = Traces[tid].debug
    /\ \A c \in 1..Len(Traces[tid].lookup) : Lookup(info, c) = Traces[tid].lookup[c]

\* register 1: accepted trace ids; register 2: longest matched prefix per trace (single worker)
Collect ==
    /\ TLCSet(2, [TLCGet(2) EXCEPT ![tid] = Max(@, l - 1)])
    /\ IF Accepting THEN TLCSet(1, TLCGet(1) \cup {tid}) ELSE TRUE

ASSUME TLCSet(1, {})
ASSUME TLCSet(2, [t \in 1..Len(Traces) |-> 0])

Post ==
    LET rejected == (1..Len(Traces)) \ TLCGet(1) IN
    /\ PrintT(ToJson([rejected |-> [t \in rejected |-> TLCGet(2)[t]]]))
    /\ TRUE
=============================================================================
