--------------------------- MODULE StrFiltersMC ---------------------------
(***************************************************************************)
(* Model checking of StrFilters (property C23): Grow(c) builds every text  *)
(* up to MaxLen over a small alphabet (letter, capital, blank, hyphen,     *)
(* line feed, carriage return, `<`); the invariants state the clauses of   *)
(* the property for the functions of the specification: truncate is        *)
(* bounded, indent only inserts the indentation, center pads evenly, trim  *)
(* removes exactly the outer characters, the case maps keep the length,    *)
(* replace honours the count, the conversion tables are total.             *)
(***************************************************************************)
EXTENDS StrFilters

CONSTANTS MaxLen

VARIABLES txt

Alphabet == {97, 66, cSP, cMINUS, cLF, cCR, cLT}
Bools == {TRUE, FALSE}
Dots == <<46, 46, 46>>
Ind == <<62, 62>>              \* ">>" as indentation string

Init == txt = <<>>
Grow(c) == Len(txt) < MaxLen /\ txt' = Append(txt, c)
Next == \E c \in Alphabet : Grow(c)
Spec == Init /\ [][Next]_txt

IsPrefix(p, s) == Len(p) <= Len(s) /\ SubSeq(s, 1, Len(p)) = p

C23_TruncateBounded ==
    \A length \in 3..6, leeway \in 0..2, kill \in Bools :
        LET out == Truncate(txt, length, kill, Dots, leeway)
        IN /\ TruncateBounded(txt, length, leeway, out)
           /\ out # txt => /\ Len(txt) > length + leeway
                           /\ SubSeq(out, Len(out) - 2, Len(out)) = Dots
                           /\ IsPrefix(SubSeq(out, 1, Len(out) - 3), txt)
           /\ (out # txt /\ kill) => Len(out) = length

C23_IndentOnlyInserts ==
    \A first \in Bools, blank \in Bools :
        LET out == Indent(txt, Ind, first, blank)
            ls == Lines(txt)
            os == Lines(out)
        IN /\ IndentOnlyInserts(txt, Ind, out)
           /\ \A k \in 2..Len(ls) : (os[k] = Ind \o ls[k]) <=> (blank \/ ls[k] # <<>>)
           /\ (os[1] = Ind \o ls[1]) <=> first
           /\ Indent(txt, <<>>, first, blank) = JoinSeqs(ls, <<cLF>>)       \* only line breaks normalised

C23_CenterOK ==
    \A w \in 0..(MaxLen + 3) :
        /\ CenterOK(txt, w, Center(txt, w))
        /\ Len(Center(txt, w)) = MaxI(w, Len(txt))

C23_TrimExact ==
    LET t == Trim(txt, <<>>)
        u == Trim(txt, <<97, cMINUS>>)
    IN /\ Trim(t, <<>>) = t
       /\ t # <<>> => ~IsWs(t[1]) /\ ~IsWs(t[Len(t)])
       /\ \E i \in 0..Len(txt) : /\ SubSeq(txt, i + 1, i + Len(t)) = t
                                 /\ \A k \in 1..i : IsWs(txt[k])
                                 /\ \A k \in (i + Len(t) + 1)..Len(txt) : IsWs(txt[k])
       /\ u # <<>> => u[1] \notin {97, cMINUS} /\ u[Len(u)] \notin {97, cMINUS}

C23_CaseMaps ==
    /\ Len(UpperS(txt)) = Len(txt) /\ Len(LowerS(txt)) = Len(txt)
    /\ UpperS(LowerS(txt)) = UpperS(txt) /\ LowerS(UpperS(txt)) = LowerS(txt)
    /\ LowerS(Title(txt)) = LowerS(txt) /\ Title(Title(txt)) = Title(txt)
    /\ LowerS(Capitalize(txt)) = LowerS(txt)
    /\ \A k \in 2..Len(txt) : Capitalize(txt)[k] = LowerC(txt[k])
    /\ \A k \in 1..Len(txt) :
          (IsAlphaC(txt[k]) /\ (k = 1 \/ IsWordSep(txt[k - 1]))) => Title(txt)[k] = UpperC(txt[k])

C23_ReplaceCount ==
    LET a == <<97>>
        n == Cardinality({k \in 1..Len(txt) : txt[k] = 97})
    IN /\ Replace(txt, a, <<120, 120>>, 0) = txt
       /\ Replace(txt, a, a, -1) = txt
       /\ \A k \in 1..Len(Replace(txt, a, <<>>, -1)) : Replace(txt, a, <<>>, -1)[k] # 97
       /\ \A c \in 0..3 : Len(Replace(txt, a, <<120, 120>>, c)) = Len(txt) + MinI(c, n)
       /\ Len(Replace(txt, a, <<120, 120>>, -1)) = Len(txt) + n

\* the count means the same whether or not autoescaping is on and whichever of the subject, the search
\* string and the replacement is safe (text with `<` is escaped to 4 characters, so lengths differ)
C23_ReplaceCountMarkup ==
    \A ae \in BOOLEAN, s \in {S(txt), M(txt)}, old \in {S(<<97>>), M(<<97>>), S(<<cLT>>)},
       new \in {S(<<cLT, 120>>), M(<<cLT, 120>>)}, c \in -1..2 :
        LET out == ReplaceV(ae, s, old, new, c)
            safe == ae /\ AnySafe(s, old, new)
            tx(a) == IF safe THEN EscapeV(a).v ELSE a.v
        IN /\ out.t = (IF safe THEN "m" ELSE "s")
           /\ ReplaceCountOK(tx(s), old.v, tx(new), c, out.v)
           /\ c = 0 => out.v = tx(s)
           /\ (c >= 0 /\ c < OccCount(tx(s), old.v)) => out.v # ReplaceV(ae, s, old, new, -1).v

C23_WordCount ==
    /\ WordCount(txt) = Cardinality({k \in 1..Len(txt) : IsWordC(txt[k]) /\ (k = Len(txt) \/ ~IsWordC(txt[k + 1]))})
    /\ WordCount(txt) = 0 <=> \A k \in 1..Len(txt) : ~IsWordC(txt[k])

C23_StripTagsUrl ==
    /\ (\A k \in 1..Len(txt) : txt[k] # cLT) => StripTags(txt) = CollapseWs(txt)
    /\ \A k \in 1..(Len(StripTags(txt)) - 1) : ~(StripTags(txt)[k] = cSP /\ StripTags(txt)[k + 1] = cSP)
    /\ UrlClean(UrlQuote(txt)) /\ UrlClean(UrlQuoteQS(txt))
    \* UTF-8: a text with a non-ASCII code point appended (Latin-1, Arabic digit, CJK, emoji)
    /\ \A c \in {233, 1635, 26085, 128512} :
          LET q == UrlQuote(Append(txt, c))
          IN /\ UrlClean(q)
             /\ Len(q) = Len(UrlQuote(txt)) + 3 * Len(Utf8(c))
             /\ Len(Utf8(c)) = (IF c < 2048 THEN 2 ELSE IF c < 65536 THEN 3 ELSE 4)

C23_WrapIdentity ==
    \* a text whose lines all fit is an acceptable wrapping of itself
    (\A k \in 1..Len(Lines(txt)) : Len(Lines(txt)[k]) <= 3) => WrapOK(txt, 3, TRUE, <<cLF>>, txt)

StrClasses == {"dec", "signed", "spaced", "hex", "oct", "bin", "floatstr", "expstr", "infstr", "nanstr",
               "hugestr", "empty", "garbage"}
OtherClasses == {"int", "hugeint", "float", "inf", "nan", "bool", "none", "list", "dict", "object"}
C23_ConvTotalDef ==
    \A cls \in StrClasses \cup OtherClasses :
        /\ \A b \in {2, 8, 10, 16} : IntConv(cls, b) \in {"converted", "default"}
        /\ FloatConv(cls) \in {"converted", "default"}
        /\ (cls \in {"none", "list", "dict", "object", "empty", "garbage"}) =>
              IntConv(cls, 10) = "default" /\ FloatConv(cls) = "default"

C23_NumTextDef ==
    /\ IntOfText(<<32, 52, 50, 32>>, 10) = 42 /\ IntOfText(<<45, 51, 46, 57>>, 10) = -3
    /\ IntOfText(<<48, 120, 49, 65>>, 16) = 26 /\ IntOfText(<<48, 111, 49, 55>>, 8) = 15
    /\ IntOfText(<<48, 98, 49, 48, 49>>, 2) = 5 /\ MilliOfText(<<52, 46, 53>>) = 4500
    /\ RoundOK("floor", 1, 42550, 42500) /\ ~RoundOK("ceil", 1, 42550, 42500)
    /\ RoundOK("common", 0, 2500, 2000) /\ RoundOK("common", 0, 2500, 3000) /\ ~RoundOK("common", 0, 2600, 2000)
    /\ Utf8(233) = <<195, 169>> /\ Utf8(26085) = <<230, 151, 165>> /\ Utf8(128512) = <<240, 159, 152, 128>>
    /\ UrlQuote(<<99, 233>>) = <<99, 37, 67, 51, 37, 65, 57>>                 \* "c\u00e9" -> c%C3%A9
    /\ FileSizeOK(1500, FALSE, <<49, 46, 53, 32, 107, 66>>) /\ ~FileSizeOK(1500, TRUE, <<49, 46, 53, 32, 107, 66>>)
    \* str() of floats: "1.0", "2.5", "-3.7", "0.125", "0.0", "1000.0", "10.05"
    /\ FloatStr(1000) = <<49, 46, 48>> /\ FloatStr(2500) = <<50, 46, 53>> /\ FloatStr(-3700) = <<45, 51, 46, 55>>
    /\ FloatStr(125) = <<48, 46, 49, 50, 53>> /\ FloatStr(0) = <<48, 46, 48>>
    /\ FloatStr(1000000) = <<49, 48, 48, 48, 46, 48>> /\ FloatStr(10050) = <<49, 48, 46, 48, 53>>
    \* numbers that compare equal are still different texts in a URL: n, n.0 (and True / False for 1 / 0)
    /\ \A n \in -20..20 : /\ UrlQuote(UrlTextOf(I(n))) # UrlQuote(UrlTextOf([t |-> "f", v |-> 1000 * n]))
                          /\ UrlQuoteQS(UrlTextOf(I(n))) # UrlQuoteQS(UrlTextOf([t |-> "f", v |-> 1000 * n]))
                          /\ \A b \in BOOLEAN : UrlQuote(UrlTextOf(B(b))) \notin {UrlQuote(UrlTextOf(I(n))),
                                                                              UrlQuote(UrlTextOf([t |-> "f", v |-> 1000 * n]))}
    \* format: one item per positional argument, tuples and lists are printed
    /\ FormatV(<<37, 115>>, <<[t |-> "t", v |-> <<I(1), I(2)>>]>>) = S(<<40, 49, 44, 32, 50, 41>>)          \* '%s' % ((1, 2),)
    /\ FormatV(<<60, 37, 115, 62>>, <<[t |-> "t", v |-> <<>>]>>) = S(<<60, 40, 41, 62>>)                   \* <()>
    /\ FormatV(<<37, 115>>, <<[t |-> "t", v |-> <<S(<<97>>)>>]>>) = S(<<40, 39, 97, 39, 44, 41>>)           \* ('a',)
    /\ FormatV(<<37, 115>>, <<L(<<I(1), NoneV>>)>>) = S(<<91, 49, 44, 32, 78, 111, 110, 101, 93>>)          \* [1, None]
    /\ FormatV(<<37, 115, 37, 115>>, <<[t |-> "t", v |-> <<I(1), I(2)>>]>>) = X("TypeError")
    /\ FormatV(<<37, 115, 37, 37>>, <<I(1), I(2)>>) = X("TypeError") /\ FormatV(<<37, 37>>, <<>>) = S(<<37>>)
    /\ FormatV(<<37, 115, 45, 37, 115>>, <<I(1), B(TRUE)>>) = S(<<49, 45, 84, 114, 117, 101>>)
    /\ UrlEncodePairs(<<<<I(1), [t |-> "f", v |-> 1000]>>, <<B(TRUE), NoneV>>>>)
          = <<49, 61, 49, 46, 48, 38, 84, 114, 117, 101, 61, 78, 111, 110, 101>>     \* 1=1.0&True=None
\* constant-level facts: checked once when TLC starts
ASSUME C23_ConvTotal == C23_ConvTotalDef
ASSUME C23_NumText == C23_NumTextDef
=============================================================================
