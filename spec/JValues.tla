------------------------------ MODULE JValues ------------------------------
(***************************************************************************)
(* The value universe of the abstract Jinja interpreter (Jinja.tla) and    *)
(* the documented meaning of operators, truthiness, string conversion and  *)
(* the Markup (escaping) algebra.                                          *)
(*                                                                         *)
(* Values are tagged records (field t):                                    *)
(*   int n | bool b | none | str s m | list v tup | dict k v | undef h     *)
(*   | obj id | fn id | macro ... | ns id | loop ... | module ... | tref   *)
(*   | bref (block reference)                                              *)
(* A string is a sequence of segments [a, e, o]: a = a piece of concrete   *)
(* text (opaque to the model), e = how many times HTML-escaping has been   *)
(* applied to it, o = where the text came from ("tpl" template text,       *)
(* "lit" string literal, "data" context data, "num" printed non-string).   *)
(* m = TRUE marks a safe (Markup) string.  "Escaped exactly once" and      *)
(* "never unescaped" are then predicates on segments (C15, C16).           *)
(*                                                                         *)
(* Floats are the dyadic rationals n / 2^e with small n and e <= 6 (0.5,   *)
(* 2.5, -6.25 ...): on these IEEE arithmetic is exact, so + - * / // % **  *)
(* and repr() are determined; anything that leaves the set (1/3, overflow, *)
(* negative zero) is EXCLUDED.                                             *)
(* A result that the documentation does not determine (other floats,       *)
(* ordering of strings, repr of containers holding strings, ...) is the    *)
(* error class "EXCLUDED": the harness drops such cases (DESIGN 2.3 rule 3)*)
(***************************************************************************)
EXTENDS Integers, Sequences, FiniteSets, TLC

VInt(n) == [t |-> "int", n |-> n]
VBool(b) == [t |-> "bool", b |-> b]
VNone == [t |-> "none"]
VStr(segs, m) == [t |-> "str", s |-> segs, m |-> m]
Seg(a, e, o) == [a |-> a, e |-> e, o |-> o]
VList(xs) == [t |-> "list", v |-> xs, tup |-> FALSE]
VTuple(xs) == [t |-> "list", v |-> xs, tup |-> TRUE]
VRange(xs) == [t |-> "list", v |-> xs, tup |-> FALSE, rg |-> TRUE]   \* a range object: iterable, indexable, not a list
\* dict views (d.items(), d.keys(), d.values()) are iterable like ranges, but neither printable,
\* comparable nor indexable in the model
VView(xs) == [t |-> "list", v |-> xs, tup |-> FALSE, rg |-> TRUE, vw |-> TRUE]
IsView(v) == v.t = "list" /\ "vw" \in DOMAIN v
IsRange(v) == v.t = "list" /\ "rg" \in DOMAIN v
VDict(ks, vs) == [t |-> "dict", k |-> ks, v |-> vs]
VUndef(h) == [t |-> "undef", h |-> h]

\* a value or an error: [ok, v, err]
Ok(v) == [ok |-> TRUE, v |-> v, err |-> ""]
Err(c) == [ok |-> FALSE, v |-> VNone, err |-> c]

\* the undefined produced by an inline `a if c` without else is always the default kind,
\* whatever undefined type the environment uses (documented)
IsCondElse(v) == v.t = "undef" /\ "k" \in DOMAIN v.h /\ v.h.k = "condelse"
UKof(v, uk) == IF IsCondElse(v) THEN "default" ELSE uk

IsNum(v) == v.t \in {"int", "bool"}
NumOf(v) == IF v.t = "int" THEN v.n ELSE IF v.b THEN 1 ELSE 0

(* -- floats: exact dyadic rationals ------------------------------------------------ *)
VFloat(n, e) == [t |-> "float", n |-> n, e |-> e]        \* n / 2^e ; n odd or e = 0
IsReal(v) == v.t \in {"int", "bool", "float"}
RN(v) == IF v.t = "float" THEN v.n ELSE NumOf(v)
RE(v) == IF v.t = "float" THEN v.e ELSE 0
FBound == 30000                                           \* keeps every intermediate inside TLC's 32-bit integers
Abs(x) == IF x < 0 THEN 0 - x ELSE x
Max2(a, b) == IF a > b THEN a ELSE b
RECURSIVE PowN(_, _)
PowN(a, n) == IF n <= 0 THEN 1 ELSE a * PowN(a, n - 1)
\* exact halving of an even (possibly negative) number
Half(n) == IF n >= 0 THEN n \div 2 ELSE 0 - ((0 - n) \div 2)
Even(n) == Abs(n) % 2 = 0
RECURSIVE FNorm(_, _)
FNorm(n, e) == IF n = 0 THEN <<0, 0>> ELSE IF e > 0 /\ Even(n) THEN FNorm(Half(n), e - 1) ELSE <<n, e>>
MkFloat(n, e) == LET ne == FNorm(n, e) IN
                 IF Abs(ne[1]) > FBound \/ ne[2] > 6 THEN Err("EXCLUDED") ELSE Ok(VFloat(ne[1], ne[2]))
FGuard(a, b) == Abs(RN(a)) <= FBound /\ Abs(RN(b)) <= FBound
FE(a, b) == Max2(RE(a), RE(b))
FA(a, b) == RN(a) * PowN(2, FE(a, b) - RE(a))             \* a and b in units of 2^-FE(a, b)
FB(a, b) == RN(b) * PowN(2, FE(a, b) - RE(b))
RECURSIVE Gcd(_, _), Log2(_), NDigits(_), Zeros(_)
Gcd(a, b) == IF b = 0 THEN a ELSE Gcd(b, a % b)
Log2(x) == IF x = 1 THEN 0 ELSE IF x % 2 # 0 THEN -1 ELSE LET r == Log2(x \div 2) IN IF r < 0 THEN -1 ELSE r + 1
NDigits(x) == IF x < 10 THEN 1 ELSE 1 + NDigits(x \div 10)
Zeros(k) == IF k <= 0 THEN "" ELSE "0" \o Zeros(k - 1)
PFloorDiv(a, b) == IF a >= 0 THEN a \div b ELSE 0 - (((0 - a) + b - 1) \div b)      \* floor(a / b), b > 0
\* a / b as the fraction num / den with den > 0
FNum(a, b) == LET n0 == RN(a) * PowN(2, RE(b))  d0 == RN(b) * PowN(2, RE(a)) IN IF d0 < 0 THEN 0 - n0 ELSE n0
FDen(a, b) == Abs(RN(b) * PowN(2, RE(a)))
FDivide(a, b) ==
    IF RN(b) = 0 THEN Err("ZeroDivisionError")
    ELSE IF RN(a) = 0 THEN (IF RN(b) < 0 THEN Err("EXCLUDED") ELSE Ok(VFloat(0, 0)))      \* 0 / -x is -0.0
    ELSE LET g == Gcd(Abs(FNum(a, b)), FDen(a, b))
             l == Log2(FDen(a, b) \div g)
             q == Abs(FNum(a, b)) \div g IN
         IF l < 0 THEN Err("EXCLUDED") ELSE MkFloat(IF FNum(a, b) < 0 THEN 0 - q ELSE q, l)
FFloorDivide(a, b) ==
    IF RN(b) = 0 THEN Err("ZeroDivisionError")
    ELSE IF RN(a) = 0 THEN (IF RN(b) < 0 THEN Err("EXCLUDED") ELSE Ok(VFloat(0, 0)))
    ELSE MkFloat(PFloorDiv(FNum(a, b), FDen(a, b)), 0)
FModulo(a, b) ==
    IF RN(b) = 0 THEN Err("ZeroDivisionError")
    ELSE LET A == FA(a, b)  B == FB(a, b)
             q == IF B > 0 THEN PFloorDiv(A, B) ELSE PFloorDiv(0 - A, 0 - B)
             r == A - B * q IN
         IF r = 0 /\ B < 0 THEN Err("EXCLUDED")                          \* a zero remainder takes the divisor's sign: -0.0
         ELSE MkFloat(r, FE(a, b))
FMultiply(a, b) ==
    IF RN(a) * RN(b) = 0 /\ (RN(a) < 0 \/ RN(b) < 0) THEN Err("EXCLUDED")                  \* -0.0
    ELSE MkFloat(RN(a) * RN(b), RE(a) + RE(b))
RECURSIVE FPowIt(_, _)
FPowIt(a, k) == IF k = 0 THEN Ok(VFloat(1, 0))
                ELSE LET r == FPowIt(a, k - 1) IN
                     IF ~r.ok THEN r ELSE IF ~FGuard(r.v, a) THEN Err("EXCLUDED") ELSE FMultiply(r.v, a)
FPower(a, b) ==
    IF RE(b) # 0 THEN Err("EXCLUDED")                          \* non-integral exponent
    ELSE IF Abs(RN(b)) > 12 THEN Err("EXCLUDED")
    ELSE IF RN(b) >= 0 THEN (IF RN(a) = 0 /\ RN(b) > 0 THEN Ok(VFloat(0, 0)) ELSE FPowIt(a, RN(b)))
    ELSE IF RN(a) = 0 THEN Err("ZeroDivisionError")
    ELSE LET p == FPowIt(a, 0 - RN(b)) IN
         IF ~p.ok THEN p ELSE IF ~FGuard(p.v, p.v) THEN Err("EXCLUDED") ELSE FDivide(VInt(1), p.v)
FloatRepr(n, e) ==
    LET a == Abs(n)  p == PowN(2, e)  ip == a \div p  fr == a % p
        sign == IF n < 0 THEN "-" ELSE "" IN
    IF e = 0 THEN sign \o ToString(ip) \o ".0"
    ELSE LET d == fr * PowN(5, e) IN sign \o ToString(ip) \o "." \o Zeros(e - NDigits(d)) \o ToString(d)
FCmp(op, a, b) ==
    LET x == FA(a, b)  y == FB(a, b) IN
    CASE op = "lt" -> x < y [] op = "lteq" -> x <= y [] op = "gt" -> x > y [] op = "gteq" -> x >= y [] op = "eq" -> x = y
\* int(x): truncation toward zero
FTrunc(v) == LET a == Abs(RN(v)) \div PowN(2, RE(v)) IN IF RN(v) < 0 THEN 0 - a ELSE a

\* normalise segments: drop empty text, merge adjacent unescaped segments of one origin
RECURSIVE NormSegs(_)
NormSegs(s) ==
    IF s = <<>> THEN <<>>
    ELSE IF Head(s).a = "" THEN NormSegs(Tail(s))
    ELSE LET r == NormSegs(Tail(s)) IN
         IF r # <<>> /\ Head(s).e = 0 /\ Head(r).e = 0 /\ Head(s).o = Head(r).o
         THEN <<Seg(Head(s).a \o Head(r).a, 0, Head(s).o)>> \o Tail(r)
         ELSE <<Head(s)>> \o r

\* the concrete text of two strings is certainly equal / certainly different only
\* when neither contains escaped segments; then compare the merged text
PlainText(s) == \A i \in 1..Len(s) : s[i].e = 0
RECURSIVE TextOf(_)
TextOf(s) == IF s = <<>> THEN "" ELSE Head(s).a \o TextOf(Tail(s))

EscSegs(s) == [i \in 1..Len(s) |-> Seg(s[i].a, s[i].e + 1, s[i].o)]

(* -- truth ------------------------------------------------------------------ *)
\* returns Ok(VBool) or Err for strict undefined
Truth(v, undefKind) ==
    CASE v.t = "int" -> Ok(VBool(v.n # 0))
      [] v.t = "float" -> Ok(VBool(v.n # 0))
      [] v.t = "bool" -> Ok(v)
      [] v.t = "none" -> Ok(VBool(FALSE))
      [] v.t = "str" -> Ok(VBool(NormSegs(v.s) # <<>>))
      [] v.t = "list" -> Ok(VBool(v.v # <<>>))
      [] v.t = "dict" -> Ok(VBool(v.k # <<>>))
      [] v.t = "undef" -> IF UKof(v, undefKind) = "strict" THEN Err("UndefinedError") ELSE Ok(VBool(FALSE))
      [] OTHER -> Ok(VBool(TRUE))

(* -- equality (Python ==) ----------------------------------------------------- *)
RECURSIVE PyEq(_, _)
\* "T" / "F" / "?" (not determined by the model)
B3(b) == IF b THEN "T" ELSE "F"
PyEq(a, b) ==
    IF IsNum(a) /\ IsNum(b) THEN B3(NumOf(a) = NumOf(b))
    ELSE IF IsReal(a) /\ IsReal(b) THEN (IF Abs(RN(a)) > 1000000 \/ Abs(RN(b)) > 1000000 THEN "?" ELSE B3(FCmp("eq", a, b)))
    ELSE IF a.t # b.t THEN "F"
    ELSE CASE a.t = "none" -> "T"
           [] a.t = "str" ->
                IF PlainText(a.s) /\ PlainText(b.s) THEN B3(TextOf(a.s) = TextOf(b.s))
                ELSE IF NormSegs(a.s) = NormSegs(b.s) THEN "T" ELSE "?"
           [] a.t = "list" ->
                IF IsRange(a) \/ IsRange(b) THEN "?"
                ELSE IF a.tup # b.tup \/ Len(a.v) # Len(b.v) THEN "F"
                ELSE LET rs == [i \in 1..Len(a.v) |-> PyEq(a.v[i], b.v[i])] IN
                     IF \E i \in 1..Len(rs) : rs[i] = "F" THEN "F"
                     ELSE IF \E i \in 1..Len(rs) : rs[i] = "?" THEN "?" ELSE "T"
           [] a.t = "undef" -> "T"
           [] a.t \in {"obj", "fn", "ns"} -> B3(a.id = b.id)
           [] OTHER -> "?"

(* -- printing ------------------------------------------------------------------ *)
RECURSIVE ReprScalar(_)
\* repr() of values whose repr contains no quoted text: Ok(text) or "?"
ReprScalar(v) ==
    CASE v.t = "int" -> ToString(v.n)
      [] v.t = "float" -> FloatRepr(v.n, v.e)
      [] v.t = "bool" -> IF v.b THEN "True" ELSE "False"
      [] v.t = "none" -> "None"
      [] v.t = "list" ->
           LET parts == [i \in 1..Len(v.v) |-> ReprScalar(v.v[i])] IN
           IF IsRange(v) \/ \E i \in 1..Len(parts) : parts[i] = "?" THEN "?"
           ELSE LET RECURSIVE J(_)
                    J(i) == IF i > Len(parts) THEN ""
                            ELSE parts[i] \o (IF i < Len(parts) THEN ", " ELSE "") \o J(i + 1)
                IN IF v.tup
                   THEN "(" \o J(1) \o (IF Len(parts) = 1 THEN "," ELSE "") \o ")"
                   ELSE "[" \o J(1) \o "]"
      [] OTHER -> "?"

\* str(v) as a string value (for output, ~, join, |string)
ToStr(v, undefKind) ==
    CASE v.t = "str" -> Ok(v)
      [] v.t \in {"int", "bool", "none", "float"} -> Ok(VStr(<<Seg(ReprScalar(v), 0, "num")>>, FALSE))
      [] v.t = "list" ->
           IF ReprScalar(v) = "?" THEN Err("EXCLUDED")
           ELSE Ok(VStr(<<Seg(ReprScalar(v), 0, "num")>>, FALSE))
      [] v.t = "undef" ->
           IF UKof(v, undefKind) = "strict" THEN Err("UndefinedError")
           ELSE IF UKof(v, undefKind) = "debug" THEN Err("EXCLUDED")
           ELSE Ok(VStr(<<>>, FALSE))
      [] v.t = "module" -> Ok(VStr(v.body.s, FALSE))        \* str(module): the rendered body, plain
      [] OTHER -> Err("EXCLUDED")

\* escape(v): Markup stays, everything else is converted to text and escaped once
Escape(v, undefKind) ==
    IF v.t = "str" /\ v.m THEN Ok(v)
    ELSE IF v.t = "module" THEN Ok(VStr(v.body.s, TRUE))     \* module.__html__: the body as markup

    ELSE LET s == ToStr(v, undefKind) IN
         IF ~s.ok THEN s ELSE Ok(VStr(EscSegs(s.v.s), TRUE))

\* what `{{ v }}` contributes to the output
OutputOf(v, auto, undefKind) ==
    IF auto THEN Escape(v, undefKind) ELSE ToStr(v, undefKind)

\* markup_join / str_join used by `~`
RECURSIVE JoinPlain(_, _), JoinMarkup(_, _)
JoinPlain(vs, uk) ==
    IF vs = <<>> THEN Ok(VStr(<<>>, FALSE))
    ELSE LET h == ToStr(Head(vs), uk) IN
         IF ~h.ok THEN h
         ELSE LET r == JoinPlain(Tail(vs), uk) IN
              IF ~r.ok THEN r ELSE Ok(VStr(h.v.s \o r.v.s, FALSE))
JoinMarkup(vs, uk) ==
    IF vs = <<>> THEN Ok(VStr(<<>>, TRUE))
    ELSE LET h == Escape(Head(vs), uk) IN
         IF ~h.ok THEN h
         ELSE LET r == JoinMarkup(Tail(vs), uk) IN
              IF ~r.ok THEN r ELSE Ok(VStr(h.v.s \o r.v.s, TRUE))
AnyMarkup(vs) == \E i \in 1..Len(vs) : (vs[i].t = "str" /\ vs[i].m) \/ vs[i].t = "module"

\* a ~ b ~ c  under a given autoescape mode
Concat(vs, auto, uk) ==
    IF auto /\ AnyMarkup(vs) THEN JoinMarkup(vs, uk)
    ELSE IF auto
         \* markup_join over plain operands: plain text of all, as a plain string
         THEN JoinPlain(vs, uk)
         ELSE JoinPlain(vs, uk)

(* -- arithmetic ------------------------------------------------------------------ *)
FloorDiv(a, b) == IF b > 0 THEN a \div b ELSE (0 - a) \div (0 - b)
PyMod(a, b) == a - b * FloorDiv(a, b)
RECURSIVE Pow(_, _)
Pow(a, n) == IF n = 0 THEN 1 ELSE a * Pow(a, n - 1)

RECURSIVE Repeat(_, _)
Repeat(xs, n) == IF n <= 0 THEN <<>> ELSE xs \o Repeat(xs, n - 1)

BinOp(op, a, b) ==
    \* Markup + undefined is absorbed by Markup's own operator before the undefined is asked: not documented
    IF a.t = "str" /\ a.m /\ b.t = "undef" THEN Err("EXCLUDED")
    \* printf-style formatting is str's own operator and is not modelled (also with an undefined operand)
    ELSE IF a.t = "str" /\ op = "%" THEN Err("EXCLUDED")
    ELSE IF a.t = "undef" \/ b.t = "undef" THEN Err("UndefinedError")
    ELSE IF IsReal(a) /\ IsReal(b) /\ (a.t = "float" \/ b.t = "float" \/ op = "/" \/ (op = "**" /\ NumOf(b) < 0)) THEN
        \* float arithmetic (true division and negative powers of integers give floats too)
        IF ~FGuard(a, b) THEN Err("EXCLUDED")
        ELSE CASE op = "+" -> MkFloat(FA(a, b) + FB(a, b), FE(a, b))
               [] op = "-" -> MkFloat(FA(a, b) - FB(a, b), FE(a, b))
               [] op = "*" -> FMultiply(a, b)
               [] op = "/" -> FDivide(a, b)
               [] op = "//" -> FFloorDivide(a, b)
               [] op = "%" -> FModulo(a, b)
               [] op = "**" -> FPower(a, b)
    ELSE IF IsNum(a) /\ IsNum(b) THEN
        LET x == NumOf(a)  y == NumOf(b) IN
        CASE op = "+" -> Ok(VInt(x + y))
          [] op = "-" -> Ok(VInt(x - y))
          [] op = "*" -> Ok(VInt(x * y))
          [] op = "//" -> IF y = 0 THEN Err("ZeroDivisionError") ELSE Ok(VInt(FloorDiv(x, y)))
          [] op = "%" -> IF y = 0 THEN Err("ZeroDivisionError") ELSE Ok(VInt(PyMod(x, y)))
          [] op = "**" -> IF y < 0 THEN (IF x = 0 THEN Err("ZeroDivisionError") ELSE Err("EXCLUDED"))
                          ELSE IF y > 6 THEN Err("EXCLUDED") ELSE Ok(VInt(Pow(x, y)))
    ELSE IF a.t = "str" /\ b.t = "str" THEN
        IF op = "+" THEN
            \* Markup + plain escapes the plain operand (both orders); plain + plain is plain
            IF a.m \/ b.m
            THEN Ok(VStr((IF a.m THEN a.s ELSE EscSegs(a.s)) \o (IF b.m THEN b.s ELSE EscSegs(b.s)), TRUE))
            ELSE Ok(VStr(a.s \o b.s, FALSE))
        ELSE IF op = "%" THEN Err("EXCLUDED")
        ELSE Err("TypeError")
    ELSE IF IsRange(a) \/ IsRange(b) THEN Err("EXCLUDED")
    ELSE IF a.t = "list" /\ b.t = "list" THEN
        IF op = "+" THEN (IF a.tup = b.tup THEN Ok([t |-> "list", v |-> a.v \o b.v, tup |-> a.tup]) ELSE Err("TypeError"))
        ELSE Err("TypeError")
    ELSE IF op = "*" /\ a.t = "list" /\ IsNum(b) THEN Ok([t |-> "list", v |-> Repeat(a.v, NumOf(b)), tup |-> a.tup])
    ELSE IF op = "*" /\ b.t = "list" /\ IsNum(a) THEN Ok([t |-> "list", v |-> Repeat(b.v, NumOf(a)), tup |-> b.tup])
    ELSE IF op = "*" /\ ((a.t = "str" /\ IsNum(b)) \/ (b.t = "str" /\ IsNum(a))) THEN
        LET s == IF a.t = "str" THEN a ELSE b
            n == IF a.t = "str" THEN NumOf(b) ELSE NumOf(a)
        IN Ok(VStr(Repeat(s.s, n), s.m))
    ELSE IF op = "%" /\ a.t = "str" THEN Err("EXCLUDED")
    ELSE IF a.t \in {"int", "bool", "none", "str", "list", "dict", "float"} /\ b.t \in {"int", "bool", "none", "str", "list", "dict", "float"}
         THEN Err("TypeError")
    ELSE Err("EXCLUDED")

UnOp(op, a) ==
    IF a.t = "undef" THEN Err("UndefinedError")
    ELSE IF a.t = "float" THEN (IF op = "-" THEN (IF a.n = 0 THEN Err("EXCLUDED") ELSE Ok(VFloat(0 - a.n, a.e))) ELSE Ok(a))
    ELSE IF IsNum(a) THEN Ok(VInt(IF op = "-" THEN 0 - NumOf(a) ELSE NumOf(a)))
    ELSE IF a.t \in {"none", "str", "list", "dict"} THEN Err("TypeError")
    ELSE Err("EXCLUDED")

(* -- comparison ------------------------------------------------------------------- *)
RECURSIVE InSeqEq(_, _)
\* x in xs by Python ==: "T" / "F" / "?"
InSeqEq(x, xs) ==
    IF xs = <<>> THEN "F"
    ELSE LET r == PyEq(x, Head(xs)) IN
         IF r = "T" THEN "T"
         ELSE LET rest == InSeqEq(x, Tail(xs)) IN
              IF rest = "T" THEN "T" ELSE IF r = "?" \/ rest = "?" THEN "?" ELSE "F"

Tri(r) == IF r = "?" THEN Err("EXCLUDED") ELSE Ok(VBool(r = "T"))
TriNot(r) == IF r = "?" THEN Err("EXCLUDED") ELSE Ok(VBool(r = "F"))

\* (a non-strict undefined is hashable; strict undefined comparisons are handled before)
RECURSIVE Hashable(_)
Hashable(v) == v.t \in {"int", "bool", "none", "str", "undef", "float"}
               \/ (v.t = "list" /\ IsRange(v) /\ ~IsView(v))
               \/ (v.t = "list" /\ ~IsRange(v) /\ v.tup /\ \A i \in 1..Len(v.v) : Hashable(v.v[i]))

RECURSIVE HasUndef(_)
HasUndef(v) == v.t = "undef" \/ (v.t = "list" /\ \E i \in 1..Len(v.v) : HasUndef(v.v[i]))
                             \/ (v.t = "dict" /\ \E i \in 1..Len(v.v) : HasUndef(v.v[i]))

CmpOp(op, a, b, uk) ==
    \* a strict undefined raises on every comparison, also == and !=
    IF uk # "default" /\ (IsCondElse(a) \/ IsCondElse(b)) THEN Err("EXCLUDED")
    ELSE IF uk = "strict" /\ op \in {"eq", "ne"} /\ (a.t = "undef" \/ b.t = "undef") THEN Err("UndefinedError")
    ELSE IF uk = "strict" /\ op \in {"eq", "ne", "in", "notin"} /\ (HasUndef(a) \/ HasUndef(b))
            /\ ~(op \in {"in", "notin"} /\ b.t = "undef") THEN Err("EXCLUDED")
    ELSE
    CASE op = "eq" -> Tri(PyEq(a, b))
      [] op = "ne" -> TriNot(PyEq(a, b))
      [] op \in {"lt", "lteq", "gt", "gteq"} ->
           IF a.t = "undef" \/ b.t = "undef" THEN Err("UndefinedError")
           ELSE IF IsNum(a) /\ IsNum(b) THEN
               LET x == NumOf(a)  y == NumOf(b) IN
               Ok(VBool(CASE op = "lt" -> x < y [] op = "lteq" -> x <= y
                          [] op = "gt" -> x > y [] op = "gteq" -> x >= y))
           ELSE IF IsReal(a) /\ IsReal(b) THEN
               (IF Abs(RN(a)) > 1000000 \/ Abs(RN(b)) > 1000000 THEN Err("EXCLUDED") ELSE Ok(VBool(FCmp(op, a, b))))
           ELSE IF a.t = b.t /\ a.t \in {"str", "list"} THEN Err("EXCLUDED")
           ELSE IF a.t \in {"int", "bool", "none", "str", "list", "dict", "float"}
                   /\ b.t \in {"int", "bool", "none", "str", "list", "dict", "float"} THEN Err("TypeError")
           ELSE Err("EXCLUDED")
      [] op \in {"in", "notin"} ->
           LET r == CASE b.t = "list" -> InSeqEq(a, b.v)
                      [] b.t = "dict" -> IF Hashable(a) THEN InSeqEq(a, b.k) ELSE "E"
                      [] b.t = "undef" -> IF uk = "strict" THEN "U" ELSE "F"
                      [] b.t = "str" -> IF a.t = "str" THEN "?" ELSE "E"
                      [] b.t \in {"int", "bool", "none", "float"} -> "E"
                      [] OTHER -> "?"
           IN IF r = "E" THEN Err("TypeError")
              ELSE IF r = "U" THEN Err("UndefinedError")
              ELSE IF op = "in" THEN Tri(r) ELSE TriNot(r)
=============================================================================
