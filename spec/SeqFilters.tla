---------------------------- MODULE SeqFilters ----------------------------
(***************************************************************************)
(* Contracts of the collection filters (property C22).                     *)
(*                                                                         *)
(* Abstract layer: every filter is a function from (input sequence,        *)
(* arguments) to its documented result, written from docs/templates.rst    *)
(* and the filter docstrings -- not from the code.  The predicates         *)
(* *Contract / Is* state the property clauses themselves (partition,       *)
(* sizes, stability, first occurrences, key-sorted groups); the module     *)
(* SeqFiltersMC lets TLC check that the functions satisfy them on every    *)
(* sequence of the bounded domain and that the code-shaped loops of        *)
(* batch / slice refine them.  SeqFiltersTrace validates what the real     *)
(* filters returned against Expected(r).                                   *)
(*                                                                         *)
(* Inputs are TLA+ sequences of FVal values.                               *)
(***************************************************************************)
EXTENDS FVal

(* ------------------------------------------------------------------ batch *)
\* rows of `n` items; the last row is filled up with `fill` when one is given
NRowsBatch(s, n) == (Len(s) + n - 1) \div n
BatchRow(s, n, fill, k) ==
    LET base == SubSeq(s, (k - 1) * n + 1, MinI(k * n, Len(s)))
    IN IF fill.t # "n" THEN base \o [j \in 1..(n - Len(base)) |-> fill] ELSE base
Batch(s, n, fill) == [k \in 1..NRowsBatch(s, n) |-> L(BatchRow(s, n, fill, k))]

(* ------------------------------------------------------------------ slice *)
\* `k` columns; the first (Len % k) columns hold one item more.  "If you pass
\* it a second argument it's used to fill missing values on the last
\* iteration": the short columns get the fill value -- and only when there
\* are longer ones, i.e. when a value is actually missing.
SliceSize(len, k, j) == (len \div k) + (IF j <= len % k THEN 1 ELSE 0)
SliceStart(len, k, j) == (j - 1) * (len \div k) + MinI(j - 1, len % k)
SliceCol(s, k, fill, j) ==
    LET base == SubSeq(s, SliceStart(Len(s), k, j) + 1,
                          SliceStart(Len(s), k, j) + SliceSize(Len(s), k, j))
    IN IF fill.t # "n" /\ Len(s) % k # 0 /\ j > Len(s) % k THEN Append(base, fill) ELSE base
Slice(s, k, fill) == [j \in 1..k |-> L(SliceCol(s, k, fill, j))]

\* the shape jinja2 produces when Len(s) % k = 0 and a fill value is given:
\* every column gets the fill value although nothing is missing (finding F13)
SliceEvenFillQuirk(s, k, fill) ==
    [j \in 1..k |-> L(Append(SubSeq(s, SliceStart(Len(s), k, j) + 1,
                                       SliceStart(Len(s), k, j) + SliceSize(Len(s), k, j)), fill))]

\* the property clauses for both (rows = sequence of "l" values)
RowsConcat(rows) == Flatten([k \in 1..Len(rows) |-> rows[k].v])

\* row r = (items of the input) \o (zero or more copies of fill at the end)
StripFill(rows, sizes) == [k \in 1..Len(rows) |-> SubSeq(rows[k].v, 1, sizes[k])]

BatchContract(s, n, fill, rows) ==
    LET m == Len(rows)
        sz == [k \in 1..m |-> MinI(n, Len(s) - (k - 1) * n)]     \* items of s in row k
    IN /\ m = NRowsBatch(s, n)
       /\ \A k \in 1..m : sz[k] >= 1                              \* no empty rows
       /\ Flatten(StripFill(rows, sz)) = s                        \* partition, in order
       /\ \A k \in 1..m : k < m => Len(rows[k].v) = n             \* full rows
       /\ m > 0 => IF fill.t = "n" THEN Len(rows[m].v) = sz[m]
                   ELSE /\ Len(rows[m].v) = n
                        /\ \A j \in (sz[m] + 1)..n : VEq(rows[m].v[j], fill)

SliceContract(s, k, fill, rows) ==
    LET sz == [j \in 1..k |-> SliceSize(Len(s), k, j)]
        long == Len(s) \div k + 1
    IN /\ Len(rows) = k
       /\ Flatten(StripFill(rows, sz)) = s
       /\ \A i, j \in 1..k : i < j => sz[i] >= sz[j] /\ sz[i] - sz[j] <= 1   \* larger first
       /\ \A j \in 1..k :
            IF fill.t # "n" /\ sz[j] < long /\ (\E i \in 1..k : sz[i] = long)
            THEN Len(rows[j].v) = long /\ VEq(rows[j].v[long], fill)   \* short column filled
            ELSE Len(rows[j].v) = sz[j]                                 \* nothing added

(* -------------------------------------------------- keys, sort, unique ... *)
\* key of one item for unique / min / max / groupby (single attribute path)
Key1(item, attr, cs, dflt) ==
    LET kv == GetAttr(item, attr, dflt) IN IF cs THEN kv ELSE FoldCase(kv)

\* key for sort: always a list, one entry per comma-separated attribute
KeyN(item, attr, cs) ==
    LET ps == MultiPaths(attr)
    IN L([k \in 1..Len(ps) |->
            LET kv == WalkPath(item, ps[k], NoneV) IN IF cs THEN kv ELSE FoldCase(kv)])

\* Stable sort as a permutation of indices.  Ascending: x goes before the
\* first element that is strictly greater.  Descending (Python's
\* sorted(reverse=True)): before the first element that is strictly smaller;
\* equal keys keep their input order in both directions.
InsertIdx(acc, x, keys, desc) ==
    LET Before(e) == IF desc THEN KeyLess(keys[e], keys[x]) ELSE KeyLess(keys[x], keys[e])
        pos == IF \E p \in 1..Len(acc) : Before(acc[p])
               THEN CHOOSE p \in 1..Len(acc) : Before(acc[p]) /\ \A q \in 1..(p - 1) : ~Before(acc[q])
               ELSE Len(acc) + 1
    IN SubSeq(acc, 1, pos - 1) \o <<x>> \o SubSeq(acc, pos, Len(acc))

SortPerm(keys, desc) ==
    LET F[k \in 0..Len(keys)] == IF k = 0 THEN <<>> ELSE InsertIdx(F[k - 1], k, keys, desc)
    IN F[Len(keys)]

Permute(s, p) == [k \in 1..Len(p) |-> s[p[k]]]

\* the property clause: a sorted permutation, stably
IsStableSortedPerm(keys, desc, p) ==
    /\ Len(p) = Len(keys)
    /\ {p[k] : k \in 1..Len(p)} = 1..Len(keys)
    /\ \A k \in 1..(Len(p) - 1) :
          /\ IF desc THEN ~KeyLess(keys[p[k]], keys[p[k + 1]]) ELSE ~KeyLess(keys[p[k + 1]], keys[p[k]])
          /\ (~KeyLess(keys[p[k]], keys[p[k + 1]]) /\ ~KeyLess(keys[p[k + 1]], keys[p[k]]))
                => p[k] < p[k + 1]

Sort(s, reverse, cs, attr) ==
    Permute(s, SortPerm([k \in 1..Len(s) |-> KeyN(s[k], attr, cs)], reverse))

\* dictsort: items of the mapping as pairs, sorted by key or by value
DictSort(ps, cs, by, reverse) ==
    LET pos == IF by = "key" THEN 1 ELSE 2
        keys == [k \in 1..Len(ps) |-> IF cs THEN ps[k][pos] ELSE FoldCase(ps[k][pos])]
        p == SortPerm(keys, reverse)
    IN [k \in 1..Len(p) |-> L(<<ps[p[k]][1], ps[p[k]][2]>>)]

\* unique: the first occurrence of every key, in input order
Unique(s, cs, attr) ==
    LET keys == [k \in 1..Len(s) |-> Key1(s[k], attr, cs, NoneV)]
    IN KeepIdx(s, LAMBDA k : \A j \in 1..(k - 1) : ~PyEq(keys[j], keys[k]))

IsFirstOccurrences(keys, idx) ==     \* idx = kept input positions, ascending
    /\ \A a, b \in 1..Len(idx) : a < b => idx[a] < idx[b] /\ ~PyEq(keys[idx[a]], keys[idx[b]])
    /\ \A k \in 1..Len(keys) : \E a \in 1..Len(idx) : PyEq(keys[idx[a]], keys[k]) /\ idx[a] <= k

\* groupby: one group per key, groups sorted by key, members in input order;
\* the reported grouper is the key itself when case sensitive, otherwise the
\* attribute value of the group's first member in its original case.
GroupBy(s, attr, dflt, cs) ==
    LET n == Len(s)
        keys == [k \in 1..n |-> Key1(s[k], attr, cs, dflt)]
        p == SortPerm(keys, FALSE)
        IsStart(k) == k = 1 \/ ~PyEq(keys[p[k]], keys[p[k - 1]])
        starts == KeepIdx([k \in 1..n |-> k], IsStart)
        EndOf(g) == IF g = Len(starts) THEN n ELSE starts[g + 1] - 1
        Members(g) == [k \in 1..(EndOf(g) - starts[g] + 1) |-> s[p[starts[g] + k - 1]]]
        Grouper(g) == IF cs THEN keys[p[starts[g]]] ELSE GetAttr(s[p[starts[g]]], attr, dflt)
    IN [g \in 1..Len(starts) |-> L(<<Grouper(g), L(Members(g))>>)]

\* groups as index sets: the clause "partitions the input into key-sorted groups"
IsKeySortedPartition(keys, groups) ==      \* groups = sequence of sequences of input positions
    /\ \A k \in 1..Len(keys) : Cardinality({g \in 1..Len(groups) : \E a \in 1..Len(groups[g]) : groups[g][a] = k}) = 1
    /\ \A g \in 1..Len(groups) :
          /\ groups[g] # <<>>
          /\ \A a, b \in 1..Len(groups[g]) :
                /\ PyEq(keys[groups[g][a]], keys[groups[g][b]])
                /\ a < b => groups[g][a] < groups[g][b]
    /\ \A g \in 1..(Len(groups) - 1) : KeyLess(keys[groups[g][1]], keys[groups[g + 1][1]])

\* min / max: Python returns the first of several extremal items
MinIdx(keys) == CHOOSE k \in 1..Len(keys) :
                   /\ \A j \in 1..(k - 1) : KeyLess(keys[k], keys[j])
                   /\ \A j \in (k + 1)..Len(keys) : ~KeyLess(keys[j], keys[k])
MaxIdx(keys) == CHOOSE k \in 1..Len(keys) :
                   /\ \A j \in 1..(k - 1) : KeyLess(keys[j], keys[k])
                   /\ \A j \in (k + 1)..Len(keys) : ~KeyLess(keys[k], keys[j])
MinOf(s, cs, attr) ==
    IF s = <<>> THEN UndefV ELSE s[MinIdx([k \in 1..Len(s) |-> Key1(s[k], attr, cs, NoneV)])]
MaxOf(s, cs, attr) ==
    IF s = <<>> THEN UndefV ELSE s[MaxIdx([k \in 1..Len(s) |-> Key1(s[k], attr, cs, NoneV)])]

(* ------------------------------------------------ the one-line definitions *)
First(s) == IF s = <<>> THEN UndefV ELSE s[1]
Last(s)  == IF s = <<>> THEN UndefV ELSE s[Len(s)]

\* sum(iterable, start): integers add, lists concatenate
RECURSIVE Plus(_, _)
Plus(a, b) == CASE a.t = "i" /\ b.t = "i" -> I(a.v + b.v)
                [] a.t = "l" /\ b.t = "l" -> L(a.v \o b.v)
RECURSIVE SumFrom(_, _)
SumFrom(acc, s) == IF s = <<>> THEN acc ELSE SumFrom(Plus(acc, Head(s)), Tail(s))
Sum(s, attr, start) ==
    SumFrom(start, [k \in 1..Len(s) |-> IF attr.t = "n" THEN s[k] ELSE GetAttr(s[k], attr, NoneV)])

\* join (no autoescaping): str() of every item, separated by str(d)
Join(s, d, attr) ==
    S(JoinSeqs([k \in 1..Len(s) |->
                   StrOf(IF attr.t = "n" THEN s[k] ELSE GetAttr(s[k], attr, NoneV))], StrOf(d)))

LengthOf(a) == I(Len(a.v))                       \* strings, lists, dicts
ListOf(a) ==                                     \* a string becomes a list of characters
    IF IsStr(a) THEN [k \in 1..Len(a.v) |-> [t |-> a.t, v |-> <<a.v[k]>>]]
    ELSE IF a.t = "d" THEN [k \in 1..Len(a.v) |-> a.v[k][1]]
    ELSE a.v
ReverseOf(a) == IF IsStr(a) THEN [t |-> a.t, v |-> Rev(a.v)] ELSE L(Rev(a.v))

\* Object identity.  `list` is Python's list(), sort / dictsort are Python's sorted(): each
\* call builds a NEW list object, also when the argument already is a list -- changing the
\* result afterwards (append / pop / sort) never changes the argument (SeqCalls.tla models the
\* heap; SeqFiltersTrace!C22_ResultFresh checks the real filters).
BuildsNewList(f) == f \in {"list", "sort", "dictsort"}

\* the item filters map() is exercised with
ApplyItemFilter(name, a) ==
    CASE name = "upper" -> S(UpperS(a.v))
      [] name = "lower" -> S(LowerS(a.v))
      [] name = "length" -> LengthOf(a)
      [] name = "first" -> First(ListOf(a))
      [] name = "string" -> S(StrOf(a))
Map(s, name, attr, dflt) ==
    [k \in 1..Len(s) |-> IF name # "" THEN ApplyItemFilter(name, s[k]) ELSE GetAttr(s[k], attr, dflt)]

\* the tests select / reject / selectattr / rejectattr are exercised with
IsNumber(a) == a.t \in {"i", "b"}
TestHolds(name, a, arg) ==
    CASE name = "" -> Truth(a)
      [] name = "odd" -> a.v % 2 = 1
      [] name = "even" -> a.v % 2 = 0
      [] name = "divisibleby" -> a.v % arg.v = 0
      [] name \in {"eq", "equalto", "=="} -> PyEq(a, arg)
      [] name \in {"ne", "!="} -> ~PyEq(a, arg)
      [] name \in {"lt", "lessthan", "<"} -> KeyLess(a, arg)
      [] name \in {"gt", "greaterthan", ">"} -> KeyLess(arg, a)
      [] name \in {"le", "<="} -> ~KeyLess(arg, a)
      [] name \in {"ge", ">="} -> ~KeyLess(a, arg)
      [] name = "string" -> IsStr(a)
      [] name = "number" -> IsNumber(a)
      [] name = "none" -> a.t = "n"
      [] name = "defined" -> a.t # "u"
      [] name = "undefined" -> a.t = "u"
      [] name = "in" -> \E k \in 1..Len(arg.v) : PyEq(a, arg.v[k])
      [] name = "lower" -> a.v = LowerS(a.v)
      [] name = "upper" -> a.v = UpperS(a.v)

\* attr = NoneV for select / reject
SelectBy(s, attr, name, arg, keep) ==
    KeepIdx(s, LAMBDA k :
        TestHolds(name, IF attr.t = "n" THEN s[k] ELSE GetAttr(s[k], attr, NoneV), arg) = keep)

=============================================================================
