------------------------------ MODULE Syntax ------------------------------
(***************************************************************************)
(* Token-level grammar of Jinja templates and the classification of what   *)
(* loading a source may do (property C01).                                 *)
(*                                                                         *)
(* The lexer itself (characters -> tokens) is specified in Lexer.tla; this *)
(* module is about the level above it:                                     *)
(*                                                                         *)
(*  Mode "skeletons"  a pushdown generator derives token sequences from    *)
(*      the statement / expression grammar of templates (Prods): for /     *)
(*      if / set / block set / with / macro / call / filter / block /      *)
(*      extends / include / import / from-import / raw / autoescape /      *)
(*      print, expressions with unary, binary, comparison and boolean      *)
(*      operators, tests, filters, calls, subscripts, slices, literals.    *)
(*      The grammar is a sound under-approximation of the language: every  *)
(*      derived sentence, written with pairwise distinct ordinary          *)
(*      identifiers, is a valid template  ==> expectation "compiles".      *)
(*      Mutate then deletes / duplicates / swaps / replaces tokens; what   *)
(*      a mutant does is not predicted, only bounded by the property       *)
(*      ==> "compiles-or-syntax-error".                                    *)
(*      Rename writes one of the names the compiler treats specially       *)
(*      (varargs, kwargs, caller, loop, self, super, ...) at any non-empty *)
(*      set of identifier positions of a sentence - the name is then       *)
(*      declared, bound and / or used by the same statement; all other     *)
(*      identifiers stay distinct  ==> "compiles-or-syntax-error".         *)
(*      RenameKw (profile "kwarg") writes a keyword name the compiler      *)
(*      passes itself (_loop_vars, _block_vars, caller, ...) at the        *)
(*      keyword positions of calls placed in every context; RenamePair     *)
(*      (profile "pairs") writes two identifiers that Python takes for the *)
(*      same (NFKC) or related (case) names at any two identifier          *)
(*      positions of a binding statement ==> "compiles-or-syntax-error".   *)
(*      Profile "fold": constant containers, also those Python cannot      *)
(*      build (unhashable dict key), at every operand position of the      *)
(*      expression forms folded at compile time ==> "compiles".            *)
(*  Mode "numbers"    GrowNum builds every string up to MaxLen over the    *)
(*      characters of number literals, incl. non-ASCII Unicode digits and  *)
(*      other number characters ==> "compiles-or-syntax-error".            *)
(*  Mode "strings"    Grow builds every string up to MaxLen over the       *)
(*      delimiter-fragment alphabet Sigma, whose delimiter symbols stand   *)
(*      for the configured delimiters of each syntax configuration.  A     *)
(*      string that, written out in a configuration, contains no opening   *)
(*      delimiter / line prefix is plain data ==> "compiles" there.        *)
(*      Pump continues a short string in which markup is open with PumpLen *)
(*      copies of one symbol (a construct that is opened and never closed, *)
(*      followed by a long tail: loading must still finish).               *)
(*                                                                         *)
(* Outcome classification (Allowed): loading yields a template whose       *)
(* generated code Python accepts, or TemplateSyntaxError (incl.            *)
(* TemplateAssertionError) with 1 <= lineno <= number of source lines.     *)
(* Everything else (any other exception class, Python SyntaxError from     *)
(* compile(), RecursionError, watchdog timeout, line out of range) is a    *)
(* violation.  The harness feeds the distinct outcomes observed on the real  *)
(* engine back as records (Mode "outcomes") and the Judge action prints    *)
(* Allowed(o) for each of them.                                            *)
(***************************************************************************)
EXTENDS Naturals, Sequences, FiniteSets, TLC, Json, IOUtils

CONSTANTS
    Mode,      \* "skeletons" | "strings" | "numbers" | "outcomes"
    MaxTok,    \* skeletons: bound on the number of tokens of a sentence
    MaxMut,    \* skeletons: number of token mutations applied (0..2)
    MutSet,    \* skeletons: "none" | "tiny" | "few" | "all" : tokens used by Replace
    MaxLen,    \* strings: bound on the number of symbols
    NameSet,   \* skeletons: "none" | "core" | "all" : special names written by Rename
    PumpLen,   \* strings: number of copies of a symbol appended by Pump (0: no pumping)
    PumpPrefix,\* strings: longest string that is pumped
    Profile    \* skeletons: "expr" : the full expression grammar (use a small MaxTok)
               \*            "stmt" : all statements, expressions cut down to a few
               \*                     representative forms (allows a larger MaxTok)
               \*            "forms": one statement with empty bodies, on the first or second line
               \*            "scope": one statement; every body empty, one use of a name, or a
               \*                     nested binder with a use; every expression a name (for Rename)
               \*            "fold" : constant container literals (dict / list / tuple whose keys and items
               \*                     are again constants, also unhashable ones) in every position of an
               \*                     expression the compiler folds at compile time
               \*            "kwarg": calls with keyword arguments (positions K) in every context - print,
               \*                     for (body, else, iterable), if, block, macro, call block, filter block,
               \*                     block set, with, autoescape, one nested in the other (for RenameKw)
               \*            "pairs": statements with two or more binding positions - signatures, keyword
               \*                     arguments, import aliases, set / loop / with targets (for RenamePair)

VARIABLES
    out,       \* tokens derived so far / symbols of the string
    stack,     \* grammar symbols still to be expanded (leftmost first)
    muts,      \* mutations applied so far (sequence of descriptions)
    phase      \* "derive" | "done" | "emitted"
vars == <<out, stack, muts, phase>>

(* ------------------------------------------------------------------------ *)
(* grammar                                                                   *)
(* ------------------------------------------------------------------------ *)
\* terminals: delimiters BS BE VS VE CS CE, keywords, N (identifier),
\* F (a filter name), T (a test name), literals, operators, t (text), nl
BinOps == {"+", "-", "*", "/", "//", "%", "**", "~", "==", "!=", "<", ">=", "in"}

Body(open, close) == <<"BS">> \o open \o <<"BE", "Elems", "BS", close, "BE">>

FullProds ==
  [ Template |-> { <<"Elems">>, <<"BS", "extends", "Expr", "BE", "Elems">> },  \* extends: top level only
    Elems    |-> { <<>>, <<"Elem", "Elems">> },
    Elem     |-> { <<"t">>, <<"nl">>, <<"VS", "ExprT", "VE">>, <<"VS", "ExprT", ",", "Expr", "VE">>,
                   <<"CS", "c", "CE">>, <<"Stmt">> },
    Stmt     |-> {
        Body(<<"for", "Target", "in", "Expr0">>, "endfor"),
        Body(<<"for", "Target", "in", "Expr0", "recursive">>, "endfor"),
        <<"BS", "for", "Target", "in", "Expr0", "if", "Expr0", "BE", "Elems",
          "BS", "else", "BE", "Elems", "BS", "endfor", "BE">>,
        Body(<<"if", "ExprT">>, "endif"),
        <<"BS", "if", "ExprT", "BE", "Elems", "BS", "else", "BE", "Elems", "BS", "endif", "BE">>,
        <<"BS", "if", "ExprT", "BE", "Elems", "BS", "elif", "ExprT", "BE", "Elems",
          "BS", "else", "BE", "Elems", "BS", "endif", "BE">>,
        <<"BS", "set", "Target", "=", "ExprT", "BE">>,
        <<"BS", "set", "N", ".", "N", "=", "ExprT", "BE">>,
        Body(<<"set", "N">>, "endset"),
        Body(<<"set", "N", "|", "F">>, "endset"),
        Body(<<"set", "N", "|", "F", "(", "Args", ")">>, "endset"),       \* filter arguments that name variables (F-C01-6)
        Body(<<"set", "N", "|", "F", "(", "Args", ")", "|", "F">>, "endset"),
        Body(<<"with">>, "endwith"),
        Body(<<"with", "N", "=", "Expr">>, "endwith"),
        Body(<<"with", "N", "=", "Expr", ",", "N", "=", "Expr">>, "endwith"),
        Body(<<"macro", "N", "(", "Params", ")">>, "endmacro"),
        Body(<<"call", "N", "(", "Args", ")">>, "endcall"),
        Body(<<"call", "(", "Params", ")", "N", "(", ")">>, "endcall"),
        Body(<<"filter", "F">>, "endfilter"),
        Body(<<"filter", "F", "(", "Args", ")", "|", "F">>, "endfilter"),
        Body(<<"block", "N">>, "endblock"),
        Body(<<"block", "N", "scoped">>, "endblock"),
        <<"BS", "block", "N", "required", "BE", "BS", "endblock", "BE">>,
        Body(<<"autoescape", "Expr">>, "endautoescape"),
        <<"BS", "include", "Expr", "BE">>,
        <<"BS", "include", "Expr", "ignore", "missing", "BE">>,
        <<"BS", "include", "Expr", "without", "context", "BE">>,
        <<"BS", "import", "Expr", "as", "N", "BE">>,
        <<"BS", "import", "Expr", "as", "N", "with", "context", "BE">>,
        <<"BS", "from", "Expr", "import", "N", "BE">>,
        <<"BS", "from", "Expr", "import", "N", "as", "N", ",", "N", "BE">>,
        <<"BS", "from", "Expr", "import", "N", "with", "context", "BE">>,
        <<"BS", "raw", "BE", "t", "BS", "endraw", "BE">>,
        <<"BS", "print", "ExprT", "BE">> },
    Target   |-> { <<"N">>, <<"N", ",", "N">>, <<"(", "N", ",", "N", ")">> },
    Params   |-> { <<>>, <<"N">>, <<"N", ",", "N">>, <<"N", "=", "Expr">>, <<"N", ",", "N", "=", "Expr">> },
    Args     |-> { <<>>, <<"Expr">>, <<"Expr", ",", "Expr">>, <<"N", "=", "Expr">>,
                   <<"Expr", ",", "N", "=", "Expr">>, <<"N", "=", "Expr", ",", "N", "=", "Expr">>,
                   <<"*", "Expr">>, <<"**", "Expr">>, <<"Expr", ",", "*", "Expr", ",", "**", "Expr">>,
                   <<"N", "=", "Expr", ",", "**", "Expr">> },
    \* expression that may end in a test (only where no name token can follow)
    ExprT    |-> { <<"Expr">>, <<"Post", "is", "T">>, <<"Post", "is", "not", "T">>,
                   <<"Post", "is", "T", "(", "Args", ")">>, <<"Post", "is", "T", "Atom">>,
                   <<"not", "Post", "is", "T">>, <<"Post", "is", "T", "if", "Expr0", "else", "Expr">> },
    Expr     |-> { <<"Expr0">>, <<"Expr0", "if", "Expr0", "else", "Expr">>, <<"Expr0", "if", "Expr0">> },
    Expr0    |-> { <<"Cmp">>, <<"not", "Expr0">>, <<"Cmp", "and", "Expr0">>, <<"Cmp", "or", "Expr0">>,
                   <<"Post", "is", "T", "and", "Expr0">>, <<"Post", "is", "not", "T", "or", "Expr0">> },
    Cmp      |-> { <<"Unary">>, <<"Unary", "Bin", "Cmp">> },
    Bin      |-> { <<o>> : o \in BinOps } \cup { <<"not", "in">> },
    Unary    |-> { <<"Post">>, <<"-", "Post">>, <<"+", "Post">> },
    Post     |-> { <<"Atom", "Sufs", "Flts">> },
    Sufs     |-> { <<>>, <<"Suf", "Sufs">> },
    Suf      |-> { <<".", "N">>, <<".", "1">>, <<"[", "Sub", "]">>, <<"(", "Args", ")">> },
    Flts     |-> { <<>>, <<"|", "F", "Flts">>, <<"|", "F", "(", "Args", ")", "Flts">> },
    Atom     |-> { <<"N">>, <<"1">>, <<"1.5">>, <<"'s'">>, <<"true">>, <<"none">>,
                   <<"(", "ExprT", ")">>, <<"(", ")">>, <<"(", "Expr", ",", ")">>, <<"(", "Expr", ",", "Expr", ")">>,
                   <<"[", "]">>, <<"[", "Expr", "]">>, <<"[", "Expr", ",", "Expr", "]">>,
                   <<"{", "}">>, <<"{", "Expr", ":", "Expr", "}">> },
    Sub      |-> { <<"Sub1">>, <<"Expr", ",", "Expr">>, <<"Sub1", ",", "Sub1">> },
    Sub1     |-> { <<"Expr">>, <<":">>, <<"Expr", ":">>, <<":", "Expr">>, <<"Expr", ":", "Expr">>,
                   <<"Expr", ":", "Expr", ":", "Expr">>, <<":", ":", "Expr">> } ]

\* the "stmt" profile keeps every statement form but only a few expression forms
StmtProds ==
  [FullProds EXCEPT
     !.Template = { <<"Elem">>, <<"Stmt", "Elem">>, <<"t", "Stmt">>, <<"BS", "extends", "Expr", "BE", "Elems">> },
     !.Elems = { <<>>, <<"Elem">> },
     !.Elem  = { <<"t">>, <<"nl">>, <<"VS", "ExprT", "VE">>, <<"CS", "c", "CE">>, <<"Stmt">> },
     !.ExprT = { <<"Expr">>, <<"N", "is", "T">>, <<"N", "[", "Sub", "]">> },
     !.Expr  = { <<"N">>, <<"'s'">>, <<"N", "|", "F">>, <<"N", "(", "Args", ")">> },
     !.Sub   = { <<"Sub1">>, <<"Sub1", ",", "Sub1">> },
     !.Sub1  = { <<"N">>, <<":">>, <<"1", ":", "N">> },
     !.Expr0 = { <<"N">>, <<"1">> },
     !.Args  = { <<>>, <<"N">>, <<"N", "=", "1">>, <<"N", "=", "1", ",", "**", "N">> },
     !.Params = { <<>>, <<"N">>, <<"N", "=", "1">>, <<"N", ",", "N">> },
     !.Target = { <<"N">>, <<"N", ",", "N">> } ]
\* the "forms" profile: exactly one statement with empty bodies, on line 1 or 2
FormProds ==
  [StmtProds EXCEPT
     !.Template = { <<"Stmt">>, <<"VS", "ExprT", "VE">>, <<"CS", "c", "CE">>, <<"BS", "extends", "Expr", "BE">>,
                    <<"t", "nl", "Stmt">> },
     !.Elems = { <<>> } ]
\* the "scope" profile: exactly one statement; what it binds / declares and what its bodies
\* use are names only, so that Rename decides which of them coincide with a special name
ScopeProds ==
  [StmtProds EXCEPT
     !.Template = { <<"Stmt">> },
     !.Elems  = { <<>>, <<"VS", "N", "VE">>, <<"BS", "set", "N", "=", "N", "BE">>,  \* a use, or a nested binder with a use
                  <<"BS", "for", "N", "in", "N", "BE", "VS", "N", "VE", "BS", "endfor", "BE">>,
                  <<"BS", "macro", "N", "(", "N", ")", "BE", "VS", "N", "VE", "BS", "endmacro", "BE">>,
                  <<"BS", "call", "N", "(", ")", "BE", "VS", "N", "VE", "BS", "endcall", "BE">> },
     !.ExprT  = { <<"N">> },
     !.Expr   = { <<"N">> },
     !.Expr0  = { <<"N">> },
     !.Args   = { <<>>, <<"N">>, <<"N", "=", "N">> },
     !.Params = { <<>>, <<"N">>, <<"N", "=", "1">>, <<"N", ",", "N">> },
     !.Target = { <<"N">> } ]
\* the "fold" profile: constants and container literals of constants - also those Python cannot
\* build at compile time (an unhashable dict key) - at every operand position of the expression
\* forms the compiler evaluates while it compiles (filter, test, attribute, subscript, operators,
\* membership, inline if, argument of a filter / a call).  Every sentence is a valid template:
\* what cannot be folded is left to the render.
FoldProds ==
  [StmtProds EXCEPT
     !.Template = { <<"VS", "Post", "VE">>, <<"BS", "if", "(", "Post", ")", "BE", "BS", "endif", "BE">>,
                    <<"BS", "set", "N", "=", "Post", "BE">> },   \* (no inline if directly in the test of an if tag)
     !.Sub1  = { <<"1">>, <<"'s'">>, <<"[", "]">>, <<"{", "}">> },           \* keys / items
     !.Expr0 = { <<"1">>, <<"[", "]">> },                                     \* the other operand
     !.Atom  = { <<"Sub1">>, <<"{", "Sub1", ":", "Sub1", "}">>, <<"[", "Sub1", "]">>, <<"(", "Sub1", ",", ")">> },
     !.Bin   = { <<"in">>, <<"==">>, <<"+">> },
     !.Post  = { <<"Atom">>, <<"Atom", "|", "F">>, <<"Atom", ".", "N">>, <<"Atom", "[", "Expr0", "]">>,
                 <<"Atom", "is", "T">>, <<"Atom", "Bin", "Expr0">>, <<"-", "Atom">>, <<"not", "Atom">>,
                 <<"Expr0", "if", "Atom", "else", "Expr0">>, <<"Atom", "if", "Expr0", "else", "Expr0">>,
                 <<"1", "|", "F", "(", "Atom", ")">>, <<"N", "(", "Atom", ")">>, <<"Expr0", "in", "Atom">> } ]
\* the "kwarg" profile: a call with keyword arguments (K = the name of a keyword argument) used in
\* every context in which the compiler passes keyword arguments of its own to the call it generates
CallK == <<"VS", "N", "(", "K", "=", "1", ")", "VE">>
KwProds ==
  [StmtProds EXCEPT
     !.Template = { <<"Elem">>, <<"Stmt">> },
     !.ExprT = { <<"N">> },
     !.Expr  = { <<"N", "(", "K", "=", "1", ")">>, <<"N", "(", "K", "=", "1", ",", "K", "=", "1", ")">>,
                 <<"N", "|", "F", "(", "K", "=", "1", ")">>, <<"N", "(", "N", ",", "K", "=", "1", ",", "**", "N", ")">>,
                 <<"N", ".", "N", "(", "K", "=", "1", ")">>, <<"N", "is", "T", "(", "K", "=", "1", ")">> },
     !.Elem  = { <<"VS", "Expr", "VE">>,
                 <<"BS", "call", "N", "(", "K", "=", "1", ")", "BE", "BS", "endcall", "BE">>,
                 <<"BS", "for", "N", "in", "Expr", "BE", "BS", "endfor", "BE">> },
     !.Elems = { <<"Elem">>,
                 <<"BS", "for", "N", "in", "N", "BE">> \o CallK \o <<"BS", "endfor", "BE">>,
                 <<"BS", "block", "N", "BE">> \o CallK \o <<"BS", "endblock", "BE">>,
                 <<"BS", "macro", "N", "(", ")", "BE">> \o CallK \o <<"BS", "endmacro", "BE">>,
                 <<"BS", "call", "N", "(", ")", "BE">> \o CallK \o <<"BS", "endcall", "BE">>,
                 <<"BS", "set", "N", "BE">> \o CallK \o <<"BS", "endset", "BE">>,
                 <<"BS", "with", "BE">> \o CallK \o <<"BS", "endwith", "BE">> },
     !.Stmt  = { Body(<<"for", "N", "in", "N">>, "endfor"),
                 Body(<<"for", "N", "in", "N", "recursive">>, "endfor"),
                 <<"BS", "for", "N", "in", "N", "BE", "BS", "else", "BE", "Elems", "BS", "endfor", "BE">>,
                 Body(<<"if", "N">>, "endif"),
                 Body(<<"block", "N">>, "endblock"),
                 Body(<<"block", "N", "scoped">>, "endblock"),
                 Body(<<"macro", "N", "(", ")">>, "endmacro"),
                 Body(<<"macro", "N", "(", "N", ")">>, "endmacro"),
                 Body(<<"call", "N", "(", ")">>, "endcall"),
                 Body(<<"call", "(", "N", ")", "N", "(", ")">>, "endcall"),
                 Body(<<"filter", "F">>, "endfilter"),
                 Body(<<"set", "N">>, "endset"),
                 Body(<<"with">>, "endwith"),
                 Body(<<"autoescape", "true">>, "endautoescape") } ]
\* the "pairs" profile: statements with at least two identifier positions of which one binds -
\* signatures, keyword arguments, import names and aliases, set / loop / with targets, block names
Use == <<"VS", "N", "VE">>
PairSents ==
  { <<"VS", "N", "(", "N", "=", "1", ",", "N", "=", "1", ")", "VE">>,
    <<"VS", "N", "|", "F", "(", "N", "=", "1", ",", "N", "=", "1", ")", "VE">>,
    <<"VS", "N", "is", "T", "(", "N", "=", "1", ",", "N", "=", "1", ")", "VE">>,
    <<"BS", "call", "N", "(", "N", "=", "1", ",", "N", "=", "1", ")", "BE", "BS", "endcall", "BE">>,
    <<"BS", "macro", "N", "(", "N", ",", "N", ")", "BE">> \o Use \o <<"BS", "endmacro", "BE">>,
    <<"BS", "macro", "N", "(", "N", "=", "1", ",", "N", "=", "1", ")", "BE", "BS", "endmacro", "BE">>,
    <<"BS", "call", "(", "N", ",", "N", ")", "N", "(", ")", "BE">> \o Use \o <<"BS", "endcall", "BE">>,
    <<"BS", "from", "'s'", "import", "N", ",", "N", "BE">>,
    <<"BS", "from", "'s'", "import", "N", "as", "N", ",", "N", "as", "N", "BE">> \o Use,
    <<"BS", "import", "'s'", "as", "N", "BE", "BS", "import", "'s'", "as", "N", "BE">> \o Use,
    <<"BS", "set", "N", ",", "N", "=", "N", "BE">> \o Use,
    <<"BS", "set", "N", "=", "1", "BE", "BS", "set", "N", "=", "1", "BE">> \o Use,
    <<"BS", "for", "N", ",", "N", "in", "N", "BE">> \o Use \o <<"BS", "endfor", "BE">>,
    <<"BS", "with", "N", "=", "1", ",", "N", "=", "1", "BE">> \o Use \o <<"BS", "endwith", "BE">>,
    <<"BS", "block", "N", "BE", "BS", "endblock", "BE", "BS", "block", "N", "BE", "BS", "endblock", "BE">>,
    <<"BS", "for", "N", "in", "N", "BE", "BS", "for", "N", "in", "N", "BE">> \o Use
        \o <<"BS", "endfor", "BE", "BS", "endfor", "BE">>,
    <<"BS", "macro", "N", "(", "N", ")", "BE", "BS", "set", "N", "=", "N", "BE">> \o Use \o <<"BS", "endmacro", "BE">>,
    <<"BS", "set", "N", "BE", "BS", "endset", "BE">> \o Use }
PairProds == [StmtProds EXCEPT !.Template = PairSents]
Prods == CASE Profile = "stmt" -> StmtProds [] Profile = "forms" -> FormProds
           [] Profile = "scope" -> ScopeProds [] Profile = "fold" -> FoldProds
           [] Profile = "kwarg" -> KwProds [] Profile = "pairs" -> PairProds [] OTHER -> FullProds

NonTerms == DOMAIN Prods
IsNT(x) == x \in NonTerms

RangeOf(s) == {s[i] : i \in 1..Len(s)}
Terminals == UNION {RangeOf(rhs) : rhs \in UNION {Prods[n] : n \in NonTerms}} \ NonTerms

\* least number of tokens derivable from each nonterminal; the ASSUME checks
\* that the table is the fixpoint of the grammar equations
BaseMinLen ==
  [ Template |-> CASE Profile = "stmt" -> 1 [] Profile = "forms" -> 3 [] Profile = "scope" -> 4
                   [] Profile = "fold" -> 3 [] Profile = "kwarg" -> 8 [] Profile = "pairs" -> 8 [] OTHER -> 0,
    Elems |-> 0, Elem |-> 1, Stmt |-> 4, Target |-> 1, Params |-> 0, Args |-> 0,
    ExprT |-> 1, Expr |-> 1, Expr0 |-> 1, Cmp |-> 1, Bin |-> 1, Unary |-> 1, Post |-> 1,
    Sufs |-> 0, Suf |-> 2, Flts |-> 0, Atom |-> 1, Sub |-> 1, Sub1 |-> 1 ]
MinLen == IF Profile = "kwarg"
          THEN [BaseMinLen EXCEPT !.Expr = 6, !.Elem = 8, !.Elems = 8, !.Stmt = 14]
          ELSE BaseMinLen
RECURSIVE SumSeq(_, _)
SumSeq(s, m) == IF s = <<>> THEN 0 ELSE (IF IsNT(Head(s)) THEN m[Head(s)] ELSE 1) + SumSeq(Tail(s), m)
MinOf(S) == CHOOSE x \in S : \A y \in S : x <= y
ASSUME MinLenIsFixpoint ==
    /\ DOMAIN MinLen = NonTerms
    /\ \A n \in NonTerms : MinLen[n] = MinOf({SumSeq(rhs, MinLen) : rhs \in Prods[n]})
Need(s) == SumSeq(s, MinLen)

\* move the terminals at the front of the stack to the output
RECURSIVE Shift(_, _)
Shift(o, st) == IF st # <<>> /\ ~IsNT(Head(st)) THEN Shift(Append(o, Head(st)), Tail(st)) ELSE <<o, st>>

(* ------------------------------------------------------------------------ *)
(* concrete syntax                                                           *)
(* ------------------------------------------------------------------------ *)
\* the text of each terminal in the default configuration; the harness joins
\* tokens with single blanks, replaces the delimiter symbols by the delimiters
\* of the configuration under test and N by identifiers of a naming scheme
TokText(tk) == CASE tk = "BS" -> "{%" [] tk = "BE" -> "%}" [] tk = "VS" -> "{{" [] tk = "VE" -> "}}"
                 [] tk = "CS" -> "{#" [] tk = "CE" -> "#}" [] tk = "nl" -> "\n" [] tk = "F" -> "upper"
                 [] tk = "T" -> "defined" [] tk = "N" -> "N" [] OTHER -> tk
\* (K, the name of a keyword argument, is written like N: the next identifier of the naming scheme)
\* tokens only mutation introduces
\* names the compiler / runtime treat specially when a template declares, binds or uses them
CoreNames == {"varargs", "kwargs", "caller", "loop", "self", "super"}
MoreNames == {"_", "namespace", "true", "None", "context", "environment", "range", "cycler"}
SpecialNames == CASE NameSet = "core" -> CoreNames [] NameSet = "all" -> CoreNames \cup MoreNames [] OTHER -> {}
\* names of the keyword arguments / parameters the compiler adds to the calls and functions it
\* generates (context.call(f, _loop_vars=.., _block_vars=..), caller=.. of a call block, varargs /
\* kwargs / caller of a macro, the arguments of the root and block functions and of Context.call)
KwCore == {"_loop_vars", "_block_vars", "caller", "varargs", "kwargs", "context", "environment", "self", "loop", "__self"}
KwMore == {"__obj", "eval_ctx", "missing", "resolve", "undefined", "_", "args", "name", "l_0_x", "t_1"}
KwNames == CASE NameSet = "core" -> KwCore [] NameSet = "all" -> KwCore \cup KwMore [] OTHER -> {}
\* identifiers given by their code points (the harness writes chr() of them): pairs that are
\* different names for Jinja but the same, or a related, identifier for Python, which normalises
\* identifiers to NFKC - ligature, long s, micro sign / mu, Kelvin sign, fullwidth letter, feminine
\* ordinal, combining / precomposed accent; pairs that differ in case only; and an identical pair
NameCodes ==
  [ u_filig |-> <<64257>>, u_fi |-> <<102, 105>>, u_longs |-> <<383>>, u_s |-> <<115>>,
    u_micro |-> <<181>>, u_mu |-> <<956>>, u_kelvin |-> <<8490>>, u_K |-> <<75>>, u_k |-> <<107>>,
    u_fwa |-> <<65345>>, u_a |-> <<97>>, u_A |-> <<65>>, u_ord |-> <<170>>,
    u_ecomb |-> <<101, 769>>, u_eacute |-> <<233>> ]
NamePairs ==
  IF NameSet = "none" THEN {}
  ELSE { <<"u_filig", "u_fi">>, <<"u_longs", "u_s">>, <<"u_micro", "u_mu">>, <<"u_kelvin", "u_K">>,
         <<"u_fwa", "u_a">>, <<"u_ord", "u_a">>, <<"u_ecomb", "u_eacute">>,
         <<"u_K", "u_k">>, <<"u_a", "u_A">>, <<"u_a", "u_a">> }
ExtraToks == {"endset", "elif", "trans", "endtrans", "pluralize", "do", "break", "continue", "debug",
              "loop", "caller", "self", "super", "varargs", "kwargs", "'", "\"", "\\", "?", "@", "-%}", "{%-", "+%}", "{%+",
              "{{-", "-}}", "}", "{", "#", "##", "0x", "1e", "1_", "."}
AllToks == Terminals \cup ExtraToks
FewToks == {"BS", "BE", "VS", "VE", "N", "(", ")", ",", "=", "|", "else", "endfor", "is", "'", "1", "nl", "%", ":"}
TinyToks == {"break"}
MutToks == CASE MutSet = "all" -> AllToks [] MutSet = "few" -> FewToks [] MutSet = "tiny" -> TinyToks [] OTHER -> {}

CountNl(s) == Cardinality({i \in 1..Len(s) : s[i] = "nl"})

(* ------------------------------------------------------------------------ *)
(* strings over the delimiter-fragment alphabet                              *)
(* ------------------------------------------------------------------------ *)
Sigma == {"BS", "BE", "VS", "VE", "CS", "CE", "-", "+", " ", "\n", "a", "1", "'", "\"",
          "(", ")", "[", "]", "|", ".", ",", "=", "{", "}", "%", "#"}

\* syntax configurations: characters of every delimiter symbol, line prefixes
SyntaxCfgs == {"default", "erb", "line"}
Delim(cfg, sym) ==
    CASE cfg = "erb" -> (CASE sym = "BS" -> <<"<", "%">> [] sym = "BE" -> <<"%", ">">>
                           [] sym = "VS" -> <<"<", "%", "=">> [] sym = "VE" -> <<"%", ">">>
                           [] sym = "CS" -> <<"<", "%", "#">> [] sym = "CE" -> <<"%", ">">>
                           [] OTHER -> <<sym>>)
      [] OTHER       -> (CASE sym = "BS" -> <<"{", "%">> [] sym = "BE" -> <<"%", "}">>
                           [] sym = "VS" -> <<"{", "{">> [] sym = "VE" -> <<"}", "}">>
                           [] sym = "CS" -> <<"{", "#">> [] sym = "CE" -> <<"#", "}">>
                           [] OTHER -> <<sym>>)
RECURSIVE Flat(_)
Flat(ss) == IF ss = <<>> THEN <<>> ELSE Head(ss) \o Flat(Tail(ss))
Written(s, cfg) == Flat([i \in 1..Len(s) |-> Delim(cfg, s[i])])
\* what starts markup in a configuration (line prefixes count anywhere: conservative)
Openers(cfg) ==
    {Delim(cfg, "BS"), Delim(cfg, "VS"), Delim(cfg, "CS")}
    \cup (IF cfg = "line" THEN {<<"%">>, <<"#", "#">>} ELSE {})
OccursAt(w, p, i) == i + Len(p) - 1 <= Len(w) /\ \A k \in 1..Len(p) : w[i + k - 1] = p[k]
PlainData(s, cfg) == LET w == Written(s, cfg)
                     IN \A p \in Openers(cfg) : \A i \in 1..Len(w) : ~OccursAt(w, p, i)

(* ------------------------------------------------------------------------ *)
(* spellings of numbers                                                      *)
(* ------------------------------------------------------------------------ *)
\* Mode "numbers": every string up to MaxLen over the characters number literals are made of -
\* ASCII digits, the separators and markers of integer / float / radix spellings, signs - and
\* Unicode number characters that are not ASCII digits (given by code point): decimal digits of
\* other scripts (Nd: Arabic-Indic two, fullwidth five, Devanagari one), other numbers (No:
\* superscript two, vulgar fraction one half) and letter numbers (Nl: Roman numeral eight).
\* The lexer may read a spelling as one token, several, or none; placed in an expression
\* (NumFrames) it must load or fail with a template syntax error: nothing more is predicted.
NumCodes == [ d_arab2 |-> 1634, d_fw5 |-> 65301, d_deva1 |-> 2407, d_sup2 |-> 178, d_half |-> 189, d_roman8 |-> 8551 ]
NumSigma == {"0", "1", "9", "_", ".", "e", "x", "b", "-", "+"} \cup DOMAIN NumCodes
NumFrames == << << <<"VS", " ">>, <<" ", "VE">> >>,
                << <<"BS", " if x == ">>, <<" ", "BE", "y", "BS", " endif ", "BE">> >>,
                << <<"VS", " [">>, <<", 1] ", "VE">> >> >>

\* what the harness needs to write cases out: token texts, and for every syntax
\* configuration the delimiters and line prefixes (environments are built from it)
Syms == {"BS", "BE", "VS", "VE", "CS", "CE"}
Legend ==
    [legend |-> [tk \in AllToks |-> TokText(tk)],
     delims |-> [cfg \in SyntaxCfgs |-> [sym \in Syms |-> Delim(cfg, sym)]],
     line_statement_prefix |-> <<"%">>,
     line_comment_prefix |-> <<"#", "#">>,
     codes |-> NameCodes, numcodes |-> NumCodes, numframes |-> NumFrames]

(* ------------------------------------------------------------------------ *)
(* outcome classification                                                    *)
(* ------------------------------------------------------------------------ *)
\* o = [class, lineno, lines, expect]
\*   class   "ok"      a template was returned and its generated code is valid Python
\*           "tse"     TemplateSyntaxError / TemplateAssertionError
\*           "other"   anything else (other exception, Python SyntaxError, timeout, recursion)
\*   expect  "compiles" | "compiles-or-syntax-error"
Allowed(o) ==
    \/ o.class = "ok"
    \/ /\ o.class = "tse"
       /\ o.expect = "compiles-or-syntax-error"
       /\ 1 <= o.lineno /\ o.lineno <= o.lines

Outcomes == IF Mode = "outcomes" THEN JsonDeserialize(IOEnv.OUTCOME_FILE) ELSE <<>>

(* ------------------------------------------------------------------------ *)
(* state machine                                                             *)
(* ------------------------------------------------------------------------ *)
Init ==
    /\ muts = <<>>
    /\ CASE Mode = "skeletons" -> /\ LET s == Shift(<<>>, <<"Template">>) IN out = s[1] /\ stack = s[2]
                                  /\ phase = "derive"
                                  /\ PrintT(ToJson(Legend))
         [] Mode \in {"strings", "numbers"}
                               -> /\ out = <<>> /\ stack = <<>> /\ phase = "done"
                                  /\ PrintT(ToJson(Legend))
         [] Mode = "outcomes"  -> /\ out \in {Outcomes[i] : i \in 1..Len(Outcomes)}
                                  /\ stack = <<>> /\ phase = "outcome"

\* expand the leftmost nonterminal by one of its productions
Derive ==
    /\ Mode = "skeletons" /\ phase = "derive" /\ stack # <<>>
    /\ \E rhs \in Prods[Head(stack)] :
          LET st == rhs \o Tail(stack)
          IN /\ Len(out) + Need(st) <= MaxTok
             /\ LET s == Shift(out, st) IN out' = s[1] /\ stack' = s[2]
    /\ UNCHANGED <<muts, phase>>

\* the derivation is complete: a sentence of the grammar
Finish ==
    /\ Mode = "skeletons" /\ phase = "derive" /\ stack = <<>>
    /\ phase' = "done"
    /\ UNCHANGED <<out, stack, muts>>

Delete(i)     == out' = SubSeq(out, 1, i - 1) \o SubSeq(out, i + 1, Len(out)) /\ muts' = Append(muts, <<"delete", i>>)
Duplicate(i)  == out' = SubSeq(out, 1, i) \o SubSeq(out, i, Len(out)) /\ muts' = Append(muts, <<"duplicate", i>>)
Swap(i)       == /\ i < Len(out) /\ out[i] # out[i + 1]
                 /\ out' = [out EXCEPT ![i] = out[i + 1], ![i + 1] = out[i]]
                 /\ muts' = Append(muts, <<"swap", i>>)
Replace(i, t) == /\ out[i] # t
                 /\ out' = [out EXCEPT ![i] = t]
                 /\ muts' = Append(muts, <<"replace", i, t>>)

\* a special name at a non-empty set P of the identifier positions of a sentence
NPos(s) == {i \in 1..Len(s) : s[i] = "N"}
Rename ==
    /\ Mode = "skeletons" /\ phase = "done" /\ muts = <<>> /\ Profile \notin {"kwarg", "pairs"}
    /\ \E s \in SpecialNames : \E P \in (SUBSET NPos(out)) \ {{}} :
          /\ out' = [i \in 1..Len(out) |-> IF i \in P THEN s ELSE out[i]]
          /\ muts' = << <<"name", s>> >>
    /\ UNCHANGED <<stack, phase>>

\* a name the compiler itself passes as a keyword argument, as the name of the keyword
\* arguments at a non-empty set P of the keyword positions of a sentence (profile "kwarg")
KPos(s) == {i \in 1..Len(s) : s[i] = "K"}
RenameKw ==
    /\ Mode = "skeletons" /\ phase = "done" /\ muts = <<>> /\ Profile = "kwarg"
    /\ \E s \in KwNames : \E P \in (SUBSET KPos(out)) \ {{}} :
          /\ out' = [i \in 1..Len(out) |-> IF i \in P THEN s ELSE out[i]]
          /\ muts' = << <<"kwname", s>> >>
    /\ UNCHANGED <<stack, phase>>

\* two identifiers Python takes for the same (NFKC-equal) or for related (case) names, at any
\* two identifier positions of a sentence, in both orders (profile "pairs")
RenamePair ==
    /\ Mode = "skeletons" /\ phase = "done" /\ muts = <<>> /\ Profile = "pairs"
    /\ \E pr \in NamePairs : \E i \in NPos(out) : \E j \in NPos(out) \ {i} :
          /\ out' = [out EXCEPT ![i] = pr[1], ![j] = pr[2]]
          /\ muts' = << <<"pair", pr[1], pr[2]>> >>
    /\ UNCHANGED <<stack, phase>>

RenameKinds == {"name", "kwname", "pair"}
Mutate ==
    /\ Mode = "skeletons" /\ phase = "done" /\ Len(muts) < MaxMut
    /\ (muts # <<>> => muts[1][1] \notin RenameKinds)
    /\ \E i \in 1..Len(out) :
          \/ Delete(i) \/ Duplicate(i) \/ Swap(i)
          \/ \E t \in MutToks : Replace(i, t)
    /\ UNCHANGED <<stack, phase>>

Grow ==
    /\ Mode = "strings" /\ phase = "done" /\ Len(out) < MaxLen /\ muts = <<>>
    /\ \E c \in Sigma : out' = Append(out, c)
    /\ UNCHANGED <<stack, muts, phase>>

GrowNum ==
    /\ Mode = "numbers" /\ phase = "done" /\ Len(out) < MaxLen
    /\ \E c \in NumSigma : out' = Append(out, c)
    /\ UNCHANGED <<stack, muts, phase>>

\* a short string in which markup is open in some configuration, continued by a long
\* run of one symbol: whatever was opened (a tag, a string literal, a bracket, a comment,
\* a number, a line statement) is not closed for PumpLen symbols, or never
\* Symbols that open a nesting level inside a tag are pumped half as often: the property
\* makes no claim about deeply nested expressions (the recursive-descent parser needs
\* about 13 Python frames per bracket level), only about long ones.
MarkupOpen(s) == \E cfg \in SyntaxCfgs : ~PlainData(s, cfg)
Nesting == {"(", "[", "{", "BS", "VS", "CS"}
PumpCount(c) == IF c \in Nesting THEN PumpLen \div 2 ELSE PumpLen
Pump ==
    /\ Mode = "strings" /\ phase = "done" /\ muts = <<>> /\ PumpLen > 0
    /\ Len(out) <= PumpPrefix /\ MarkupOpen(out)
    /\ \E c \in Sigma : /\ out' = out \o [i \in 1..PumpCount(c) |-> c]
                        /\ muts' = << <<"pump", c, PumpCount(c)>> >>
    /\ UNCHANGED <<stack, phase>>

SkeletonCase ==
    [kind   |-> IF muts = <<>> THEN "valid" ELSE IF muts[1][1] \in RenameKinds THEN "named" ELSE "mutant",
     toks   |-> out,
     muts   |-> muts,
     lines  |-> 1 + CountNl(out),
     expect |-> IF muts = <<>> THEN "compiles" ELSE "compiles-or-syntax-error"]

StringCase ==
    [kind   |-> "string",
     syms   |-> out,
     muts   |-> muts,
     lines  |-> 1 + Cardinality({i \in 1..Len(out) : out[i] = "\n"}),
     plain  |-> {cfg \in SyntaxCfgs : PlainData(out, cfg)}]

\* a spelling of a number (or of something near one); the harness places it in every frame
NumberCase == [kind |-> "number", syms |-> out, muts |-> muts, lines |-> 1]

\* (the unrenamed sentences of the profiles "kwarg" and "pairs" are not cases: the grammar of
\* these profiles is not claimed to derive valid templates only)
Emit ==
    /\ phase = "done"
    /\ (Mode = "skeletons" /\ Profile \in {"kwarg", "pairs"}) => muts # <<>>
    /\ Mode = "numbers" => out # <<>>
    /\ phase' = "emitted"
    /\ PrintT(ToJson(CASE Mode = "skeletons" -> SkeletonCase [] Mode = "numbers" -> NumberCase
                        [] OTHER -> StringCase))
    /\ UNCHANGED <<out, stack, muts>>

\* outcomes observed on the real engine are judged one by one
Judge ==
    /\ phase = "outcome"
    /\ phase' = "judged"
    /\ PrintT(ToJson([id |-> out.id, allowed |-> Allowed(out)]))
    /\ UNCHANGED <<out, stack, muts>>

Next == Derive \/ Finish \/ Rename \/ RenameKw \/ RenamePair \/ Mutate \/ Grow \/ GrowNum \/ Pump \/ Emit \/ Judge
Spec == Init /\ [][Next]_vars

(* ------------------------------------------------------------------------ *)
(* properties                                                                *)
(* ------------------------------------------------------------------------ *)
\* the generator only ever holds derivations that can be completed in bounds,
\* and output plus pending symbols are tokens / grammar symbols
C01_GeneratorSound ==
    Mode = "skeletons" =>
        /\ (phase = "derive" => Len(out) + Need(stack) <= MaxTok)
        /\ (phase = "derive" => \A i \in 1..Len(out) : out[i] \in Terminals)
        /\ (phase # "derive" => stack = <<>>)

\* every delimiter opened by a sentence of the grammar is closed (block,
\* variable and comment delimiters alternate properly)
Balanced(s) ==
    LET opens  == {i \in 1..Len(s) : s[i] \in {"BS", "VS", "CS"}}
        closes == {i \in 1..Len(s) : s[i] \in {"BE", "VE", "CE"}}
        Match(o) == IF s[o] = "BS" THEN "BE" ELSE IF s[o] = "VS" THEN "VE" ELSE "CE"
    IN /\ Cardinality(opens) = Cardinality(closes)
       /\ \A o \in opens : \E c \in closes :
             /\ c > o /\ s[c] = Match(o)
             /\ \A k \in (o + 1)..(c - 1) : k \notin opens /\ k \notin closes
C01_SentencesBalanced ==
    (Mode = "skeletons" /\ phase # "derive" /\ muts = <<>>) => Balanced(out)

\* a string without an opening delimiter has no closing obligation either:
\* plain data in one configuration stays plain data when symbols are appended
\* that do not complete an opener  (sanity of PlainData: monotone in prefixes)
C01_PlainPrefixClosed ==
    (Mode = "strings" /\ out # <<>> /\ muts = <<>>) =>
        \A cfg \in SyntaxCfgs : PlainData(out, cfg) => PlainData(SubSeq(out, 1, Len(out) - 1), cfg)

\* judging is total: every outcome record is classified, and an outcome that is
\* allowed under the stronger expectation is allowed under the weaker one
C01_ClassificationMonotone ==
    phase \in {"outcome", "judged"} =>
        (Allowed([out EXCEPT !.expect = "compiles"]) => Allowed([out EXCEPT !.expect = "compiles-or-syntax-error"]))
=============================================================================
