-------------------------------- MODULE Text --------------------------------
(***************************************************************************)
(* Text abstraction shared by the lexer specifications (C11 C12 C13 C39).  *)
(*                                                                         *)
(* A source is a sequence of abstract characters, each a 1-character TLA+  *)
(* string standing for one character class that the lexer's regular        *)
(* expressions can distinguish:                                            *)
(*    "_" space   "t" tab   "v" vertical tab (\x0b)                         *)
(*    "w" other whitespace that is NOT a line break (\x0c \x85 U+2028 ...)  *)
(*    "n" line feed   "r" carriage return  (line breaks: \r\n | \r | \n)    *)
(*    "a" a text / name character, "B" "V" "R" "E" tag-body atoms           *)
(*    (a statement, a string literal, the words raw and endraw)            *)
(*    every other character ("{" "%" "}" "#" "-" "+" "<" ...) stands for    *)
(*    itself.                                                              *)
(* The harness concretises a class to real characters and slices the real  *)
(* text with the index ranges the specification reports, so nothing is     *)
(* lost by the abstraction.                                                *)
(*                                                                         *)
(* Index ranges are half open: [a, b) = a .. b-1.                          *)
(***************************************************************************)
EXTENDS Naturals, Sequences, FiniteSets

HSpace == {"_", "t", "v", "w"}          \* whitespace that never breaks a line
NlChars == {"n", "r"}
WsChars == HSpace \cup NlChars

IsWs(c) == c \in WsChars
IsNl(c) == c \in NlChars

MinOf(S) == CHOOSE x \in S : \A y \in S : x <= y
MaxOf(S) == CHOOSE x \in S : \A y \in S : x >= y

Sl(s, a, b) == SubSeq(s, a, b - 1)

StartsWithAt(s, p, pat) ==
    /\ p >= 1
    /\ p + Len(pat) - 1 <= Len(s)
    /\ \A i \in 1..Len(pat) : s[p + i - 1] = pat[i]

AllIn(s, a, b, cls) == \A i \in a..(b - 1) : s[i] \in cls

\* number of line feeds in s[a, b)   (only used on normalised text)
CountNl(s, a, b) == Cardinality({i \in a..(b - 1) : s[i] = "n"})

\* end of the maximal run of characters of class cls that starts at p
RECURSIVE RunEnd(_, _, _)
RunEnd(s, p, cls) ==
    IF p > Len(s) \/ s[p] \notin cls THEN p ELSE RunEnd(s, p + 1, cls)

\* start of the maximal run of class cls that ends at p (exclusive), >= lo
RECURSIVE RunStart(_, _, _, _)
RunStart(s, p, lo, cls) ==
    IF p <= lo \/ s[p - 1] \notin cls THEN p ELSE RunStart(s, p - 1, lo, cls)

\* first index of the line that contains position p (p may be Len(s)+1)
RECURSIVE LineStartOf(_, _)
LineStartOf(s, p) ==
    IF p <= 1 \/ s[p - 1] = "n" THEN p ELSE LineStartOf(s, p - 1)

\* 1-based line number of position p
LineOf(s, p) == 1 + CountNl(s, 1, p)

RECURSIVE Flatten(_)
Flatten(ss) == IF ss = <<>> THEN <<>> ELSE Head(ss) \o Flatten(Tail(ss))

RECURSIVE Cat(_)
Cat(s) == IF s = <<>> THEN "" ELSE Head(s) \o Cat(Tail(s))

(***************************************************************************)
(* Line breaks, declaratively.  In the text as given ("raw") a line break  *)
(* is \r\n, a lone \r or a lone \n.  Position i STARTS a break when it     *)
(* holds \r, or \n that does not directly follow \r; the \n of \r\n is     *)
(* the second half of the break that started one position earlier.         *)
(***************************************************************************)
SecondHalf(raw, i) == raw[i] = "n" /\ i > 1 /\ raw[i - 1] = "r"
BreakStart(raw, i) == IsNl(raw[i]) /\ ~SecondHalf(raw, i)

\* the text ends with a line break: index where that final break starts
FinalBreak(raw) ==
    IF raw = <<>> \/ ~IsNl(raw[Len(raw)]) THEN 0
    ELSE IF SecondHalf(raw, Len(raw)) THEN Len(raw) - 1 ELSE Len(raw)

\* index i of raw survives normalisation; keep = keep_trailing_newline
Kept(raw, i, keep) == ~SecondHalf(raw, i) /\ (keep \/ i # FinalBreak(raw))

RECURSIVE NormFrom(_, _, _)
NormFrom(raw, i, keep) ==
    IF i > Len(raw) THEN <<>>
    ELSE (IF Kept(raw, i, keep) THEN <<IF raw[i] = "r" THEN "n" ELSE raw[i]>> ELSE <<>>)
         \o NormFrom(raw, i + 1, keep)

\* every line break becomes one "n"; one final break dropped unless keep
Norm(raw, keep) == NormFrom(raw, 1, keep)

\* replace each "n" of a normalised text by the newline sequence nl
RECURSIVE WithNl(_, _)
WithNl(s, nl) ==
    IF s = <<>> THEN <<>>
    ELSE (IF Head(s) = "n" THEN nl ELSE <<Head(s)>>) \o WithNl(Tail(s), nl)

(***************************************************************************)
(* The same, operationally, the way lexer.tokeniter does it:               *)
(*   lines = newline_re.split(source)[::2]   with (\r\n|\r|\n)             *)
(*   if not keep and lines[-1] == "": del lines[-1]                        *)
(*   "\n".join(lines)                                                      *)
(***************************************************************************)
RECURSIVE SplitLines(_, _)
SplitLines(rest, cur) ==
    IF rest = <<>> THEN <<cur>>
    ELSE IF Len(rest) >= 2 /\ rest[1] = "r" /\ rest[2] = "n"
         THEN <<cur>> \o SplitLines(SubSeq(rest, 3, Len(rest)), <<>>)
    ELSE IF rest[1] = "r" \/ rest[1] = "n"
         THEN <<cur>> \o SplitLines(Tail(rest), <<>>)
    ELSE SplitLines(Tail(rest), Append(cur, rest[1]))

RECURSIVE JoinNl(_)
JoinNl(lines) ==
    IF lines = <<>> THEN <<>>
    ELSE IF Len(lines) = 1 THEN lines[1]
    ELSE lines[1] \o <<"n">> \o JoinNl(Tail(lines))

SplitJoin(raw, keep) ==
    LET lines == SplitLines(raw, <<>>)
        used  == IF ~keep /\ lines[Len(lines)] = <<>>
                 THEN SubSeq(lines, 1, Len(lines) - 1) ELSE lines
    IN  JoinNl(used)
=============================================================================
