--------------------------- MODULE BCCacheSource ---------------------------
(***************************************************************************)
(* The source texts behind the abstract "versions" of BCCache.tla          *)
(* (property C27).                                                         *)
(*                                                                         *)
(* BCCache.tla identifies a source by a version number and lets the        *)
(* stored checksum BE that number: `ent.cks # cks` is a miss.  That is the *)
(* property's demand -- "the checksum protects against stale source" --    *)
(* only if the checksum of the real cache tells any two DIFFERENT source   *)
(* texts apart.  This module makes the texts explicit: a source is a       *)
(* sequence of characters of an alphabet that has, next to ordinary        *)
(* characters, the characters a normalising checksum would fold together   *)
(* (the line terminators "\n" and "\r", the other characters               *)
(* str.splitlines splits on, blanks, a no-break space, upper / lower case, *)
(* a non-ASCII letter), and a template is changed by ONE edit: a character *)
(* is inserted (read backwards: deleted) or replaced, at any position --   *)
(* the smallest changes a source can undergo, hence the ones a checksum    *)
(* is most likely to miss.                                                 *)
(*                                                                         *)
(* TLC enumerates every pair (old, new) of the bounded family and checks   *)
(*    C27_EditChangesSource        old # new                               *)
(*    C27_ChecksumSeparatesSources Checksum(old) # Checksum(new)           *)
(* which is the obligation under which versions 1, 2 of BCCache.tla may be *)
(* bound to (old, new).  Checksum is abstract: with Cks = "exact" it is    *)
(* injective (SHA-1 over the whole text, taken as collision free); with    *)
(* Cks = "lines" it is a checksum over the text with its line structure    *)
(* normalised (every line terminator folded to "\n", the final one         *)
(* dropped) -- TLC refutes the obligation for it (self-test: the invariant *)
(* is not vacuous; the counterexample is the shape of stale code such a    *)
(* checksum lets through).                                                 *)
(*                                                                         *)
(* Every pair is printed as a JSON line; the conformance driver binds      *)
(* versions 1 and 2 of the load / modify / clear state graph exported from *)
(* BCCache.tla to the two texts and walks real environments along every    *)
(* edge of it.                                                             *)
(***************************************************************************)
EXTENDS Integers, Sequences, FiniteSets, TLC, Json

CONSTANTS Alpha,      \* the alphabet: a sequence of character names without repetitions
          MaxLen,     \* sources have 0..MaxLen characters (the driver puts them into a frame)
          LineEnds,   \* the characters a line-splitting normalisation treats as line terminators
          Cks,        \* "exact" | "lines"
          EmitCases   \* print every pair as a JSON line

VARIABLES old, new, edit

vars == <<old, new, edit>>

Chars == {Alpha[i] : i \in 1..Len(Alpha)}
ASSUME Cardinality(Chars) = Len(Alpha) /\ LineEnds \subseteq Chars /\ Cks \in {"exact", "lines"}

Texts == UNION {[1..k -> Chars] : k \in 0..MaxLen}

\* -- the checksum ----------------------------------------------------------------
Fold(x) == [i \in 1..Len(x) |-> IF x[i] \in LineEnds THEN "LF" ELSE x[i]]
LineNormalised(x) ==
    LET m == Fold(x) IN
    IF Len(m) > 0 /\ m[Len(m)] = "LF" THEN SubSeq(m, 1, Len(m) - 1) ELSE m

Checksum(x) == IF Cks = "exact" THEN x ELSE LineNormalised(x)

\* -- edits -----------------------------------------------------------------------
InsertAt(x, i, ch) == SubSeq(x, 1, i - 1) \o <<ch>> \o SubSeq(x, i, Len(x))     \* ch becomes the i-th character
ReplaceAt(x, i, ch) == [x EXCEPT ![i] = ch]

NoEdit == [kind |-> "none", i |-> 0, ch |-> ""]

Init ==
    /\ old \in Texts
    /\ new = old
    /\ edit = NoEdit

Emit == EmitCases => PrintT(ToJson([old |-> old', new |-> new', edit |-> edit']))

\* a character is inserted (the pair read backwards: deleted)
Insert(i, a) ==
    /\ edit = NoEdit /\ Len(old) < MaxLen /\ i \in 1..Len(old) + 1
    /\ new' = InsertAt(old, i, Alpha[a])
    /\ edit' = [kind |-> "insert", i |-> i, ch |-> Alpha[a]]
    /\ UNCHANGED old
    /\ Emit

\* a character is replaced by another one (pairs are unordered: only towards the later character of Alpha)
Replace(i, a) ==
    /\ edit = NoEdit /\ i \in 1..Len(old)
    /\ \E b \in 1..Len(Alpha) : b < a /\ old[i] = Alpha[b]
    /\ new' = ReplaceAt(old, i, Alpha[a])
    /\ edit' = [kind |-> "replace", i |-> i, ch |-> Alpha[a]]
    /\ UNCHANGED old
    /\ Emit

Next ==
    \/ \E i \in 1..MaxLen + 1, a \in 1..Len(Alpha) : Insert(i, a)
    \/ \E i \in 1..MaxLen, a \in 1..Len(Alpha) : Replace(i, a)

Spec == Init /\ [][Next]_vars

\* -- properties ------------------------------------------------------------------
Edited == edit # NoEdit

TypeOK == old \in Texts /\ new \in Texts

C27_EditChangesSource == Edited => new # old

\* the obligation behind `cks` of BCCache.tla: the stored checksum of the old text never
\* passes for the checksum of the new one, so the old entry is a miss
C27_ChecksumSeparatesSources == Edited => Checksum(new) # Checksum(old)
=============================================================================
