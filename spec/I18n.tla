------------------------------- MODULE I18n -------------------------------
(***************************************************************************)
(* Translation blocks of the jinja2 i18n extension (property C33).         *)
(*                                                                         *)
(*   {% trans ["ctx"] [trimmed|notrimmed] v1[=e1], v2[=e2] %}              *)
(*       text {{ v }} text ...                                              *)
(*   [{% pluralize [v] %} text {{ v }} ...]                                 *)
(*   {% endtrans %}                                                         *)
(*                                                                         *)
(* ABSTRACT LAYER (what the documentation / the property say): the block   *)
(* renders, under identity translations, as the text of the block with     *)
(* every variable tag replaced by the value bound to the variable, the     *)
(* singular body iff there is no pluralize section or the count is 1, the  *)
(* count being the variable named by pluralize, else the first variable of *)
(* the trans tag, else the first variable of the body; `trimmed` replaces  *)
(* every line break with its surrounding whitespace by one space and       *)
(* removes leading / trailing whitespace; autoescaping escapes the values  *)
(* of the variables and nothing else.     ==> AbstractText                 *)
(*                                                                         *)
(* OPERATIONAL LAYER (the mechanism of InternationalizationExtension):     *)
(* bodies are turned into %-format message ids (`%` doubled, variables as  *)
(* %(name)s), trimmed, un-doubled again when no formatting will happen;    *)
(* the node calls gettext | ngettext | pgettext | npgettext; old style     *)
(* formats `MarkSafeIfAutoescape(call) % dict`, new style passes keyword   *)
(* arguments to a wrapper that adds `num` / `context` and always formats;  *)
(* extract_from_ast lists the same call with its constant string           *)
(* arguments.                              ==> Rendered, Calls, Extracted  *)
(*                                                                         *)
(* TLC checks on every generated block that the operational layer yields   *)
(* exactly the abstract text (C33_RendersLikeSource), that every message   *)
(* handed to a gettext function is extracted (C33_CallsAreExtracted), that *)
(* both gettext styles agree (C33_OldNewAgree) and that formatting never   *)
(* meets a stray `%` (C33_FormatTotal).  Emit prints, for every block, the *)
(* template source and what the real engine has to produce.                *)
(*                                                                         *)
(* Text is a sequence of one-character strings throughout.                 *)
(***************************************************************************)
EXTENDS Naturals, Sequences, FiniteSets, TLC, Json

CONSTANTS
    Suites,      \* names of the parameter suites (see Params) to explore
    Guard        \* "variables"  : old style keeps `%%` iff the node is formatted
                 \* "referenced" : as the pinned code: keeps `%%` iff a body
                 \*                references a variable (see C33_FormatTotal)

VARIABLES blk,   \* the block (or direct call) under construction
          res    \* NoRes, or the expectations emitted for blk
vars == <<blk, res>>

(* ------------------------------------------------------------------------ *)
(* helpers on sequences                                                      *)
(* ------------------------------------------------------------------------ *)
RECURSIVE FlatSeq(_)
FlatSeq(ss) == IF ss = <<>> THEN <<>> ELSE Head(ss) \o FlatSeq(Tail(ss))

MapSeq(s, Op(_)) == [i \in 1..Len(s) |-> Op(s[i])]
Range(s) == {s[i] : i \in 1..Len(s)}
SeqsUpTo(S, n) == UNION {[1..k -> S] : k \in 0..n}

NoCtx == <<>>
CtxC  == <<"c", "t", "x">>
CtxNone == {NoCtx}
CtxBoth == {NoCtx, CtxC}
None  == [none |-> TRUE]

NameChars(n) == CASE n = "x"   -> <<"x">>
                  [] n = "num" -> <<"n", "u", "m">>
                  [] n = "y"   -> <<"y">>
AllNames == {"x", "num", "y"}

IsWs(c) == c \in {" ", "\n", "\t"}

(* ------------------------------------------------------------------------ *)
(* named parameter sets selectable from a .cfg                               *)
(* ------------------------------------------------------------------------ *)
TextsFull  == { <<"a">>, <<"%">>, <<"%", "s">>, <<"%", "(", "x", ")", "s">>, <<"%", "%">>,
                <<"{">>, <<"}">>, <<" ">>, <<"\n">>, <<"<">> }
TextsMid   == { <<"a">>, <<"%">>, <<" ">>, <<"\n">>, <<"<">>, <<"%", "(", "x", ")", "s">> }
TextsSmall == { <<"a">>, <<"%">>, <<"\n">> }
TextsTiny  == { <<"b">>, <<"%">> }
TextsAP    == { <<"a">>, <<"%">> }
TextsWs    == { <<"a">>, <<" ">>, <<"\n">> }
TextsWsP   == { <<"b">>, <<" ">>, <<"\n">> }

Forms == {"implicit", "assign", "call"}
HeaderVar == [n : {"x", "num"}, f : Forms]
Headers0 == { <<>> }
Headers1 == { <<>> } \cup { <<v>> : v \in HeaderVar }
Headers2 == Headers1 \cup { hw \in HeaderVar \X HeaderVar : hw[1].n # hw[2].n }
HeadersText == { <<>>, <<[n |-> "x", f |-> "assign"]>> }
HeadersX == { <<>>, <<[n |-> "x", f |-> "implicit"]>> }
Headers1x == { <<>> } \cup { <<[n |-> "x", f |-> g]>> : g \in Forms }
HeadersFew == { <<>>, <<[n |-> "x", f |-> "assign"]>>, <<[n |-> "num", f |-> "call"]>>,
                <<[n |-> "x", f |-> "implicit"], [n |-> "num", f |-> "assign"]>> }

\* A suite bounds one exhaustive enumeration:
\*   kind    "trans" : trans blocks grown piece by piece / "calls" : direct calls
\*   texts, ptexts   text fragments of singular / plural bodies
\*   vars            variable names usable in bodies
\*   headers         trans-tag variable lists
\*   maxs, maxp      number of pieces of the singular / plural body
\*   ctxs, mods, policies, leads (empty lines before the block), worlds (data)
Suite(kind, texts, ptexts, vs, headers, maxs, maxp, ctxs, mods, policies, leads, worlds) ==
    [kind |-> kind, texts |-> texts, ptexts |-> ptexts, vars |-> vs, headers |-> headers,
     maxs |-> maxs, maxp |-> maxp, ctxs |-> ctxs, mods |-> mods, policies |-> policies,
     leads |-> leads, worlds |-> worlds]
TextsCall == { <<"a">>, <<"%">>, <<"%", "(", "x", ")", "s">> }
Params(name) ==
    CASE name = "q_text"     -> Suite("trans", TextsFull, {}, {"x"}, HeadersText, 3, 0, CtxNone,
                                      {"none", "trimmed"}, {FALSE}, {0}, {1})
      [] name = "q_plural"   -> Suite("trans", TextsAP, TextsTiny, {"x", "num"}, Headers1, 2, 1, CtxNone,
                                      {"none"}, {FALSE}, {0}, {1, 2})
      [] name = "q_header"   -> Suite("trans", TextsAP, TextsTiny, {"x", "num"}, Headers2, 1, 1, CtxNone,
                                      {"none"}, {FALSE}, {0}, {2, 3})
      [] name = "q_trim"     -> Suite("trans", TextsWs, {}, {"x"}, Headers0, 4, 0, CtxNone,
                                      {"none", "trimmed"}, BOOLEAN, {0}, {1})
      [] name = "q_trimpl"   -> Suite("trans", TextsWsP, TextsWsP, {"x"}, HeadersX, 2, 2, CtxNone,
                                      {"trimmed"}, {FALSE}, {0}, {1, 2})
      [] name = "q_context"  -> Suite("trans", TextsAP, TextsTiny, {"x"}, Headers1x, 2, 1, CtxBoth,
                                      {"none"}, {FALSE}, {0, 2}, {1, 2})
      \* option matrix: `%`, line breaks, no / unreferenced / referenced variables under
      \* every combination of modifier x trimmed policy (x both gettext styles, always)
      [] name = "q_options"  -> Suite("trans", TextsSmall, TextsTiny, {"x"}, HeadersX, 2, 1, CtxNone,
                                      {"none", "trimmed", "notrimmed"}, BOOLEAN, {0}, {1, 2})
      [] name = "t_options"  -> Suite("trans", TextsMid, TextsAP, {"x"}, Headers1x, 2, 1, CtxNone,
                                      {"none", "trimmed", "notrimmed"}, BOOLEAN, {0}, {1, 2})
      \* whitespace options of the lexer (WsModes): bodies that start with a line break / end in
      \* indentation, with and without trimming
      [] name = "q_ws"       -> Suite("trans", TextsWs, TextsWsP, {"x"}, HeadersX, 2, 2, CtxNone,
                                      {"none"}, {FALSE}, {0}, {1, 2})
      [] name = "t_ws"       -> Suite("trans", TextsWs \cup {<<"%">>}, TextsWsP, {"x"}, HeadersX, 3, 2, CtxNone,
                                      {"none", "trimmed"}, {FALSE}, {0}, {1, 2})
      [] name = "q_calls"    -> Suite("calls", TextsCall, TextsTiny, {}, Headers0, 0, 0, CtxNone,
                                      {"none"}, {FALSE}, {0, 1}, {1, 2})
      [] name = "t_text"     -> Suite("trans", TextsFull, {}, {"x"}, HeadersText, 4, 0, CtxNone,
                                      {"none", "trimmed"}, {FALSE}, {0}, {1})
      [] name = "t_text2"    -> Suite("trans", TextsMid, {}, {"x", "num"}, Headers1, 3, 0, CtxBoth,
                                      {"none", "trimmed"}, {FALSE}, {0}, {1, 3})
      [] name = "t_plural"   -> Suite("trans", TextsAP, TextsAP, {"x", "num"}, Headers2, 2, 2, CtxNone,
                                      {"none"}, {FALSE}, {0}, {1, 2, 3})
      [] name = "t_trim"     -> Suite("trans", TextsWs, {}, {"x"}, HeadersX, 5, 0, CtxNone,
                                      {"none", "trimmed", "notrimmed"}, BOOLEAN, {0}, {1})
      [] name = "t_trimpl"   -> Suite("trans", TextsWs, TextsWsP, {"x"}, HeadersX, 2, 3, CtxNone,
                                      {"none", "trimmed"}, {FALSE}, {0}, {1, 2})
      [] name = "t_context"  -> Suite("trans", TextsAP, TextsTiny, {"x"}, Headers1, 2, 1, CtxBoth,
                                      {"none", "trimmed"}, {FALSE}, {0, 2}, {1, 2, 3})
      [] name = "t_calls"    -> Suite("calls", TextsFull, TextsTiny, {}, Headers0, 0, 0, CtxNone,
                                      {"none"}, {FALSE}, {0, 1}, {1, 2, 3})
      \* small configurations used for the vacuity guard / the as-coded model
      [] name = "x_small"    -> Suite("trans", TextsTiny, TextsTiny, {"x"}, HeadersX, 1, 1, CtxNone,
                                      {"none"}, {FALSE}, {0}, {1})
P(b) == Params(b.suite)
IsTrans(b) == P(b).kind = "trans"

(* ------------------------------------------------------------------------ *)
(* data: the values the template names are bound to                          *)
(* ------------------------------------------------------------------------ *)
\* a value is an integer or a string that may be marked safe (Markup)
IntV(n)      == [k |-> "int", n |-> n, s |-> <<>>, safe |-> FALSE]
StrV(s)      == [k |-> "str", n |-> 0, s |-> s, safe |-> FALSE]
MarkupV(s)   == [k |-> "str", n |-> 0, s |-> s, safe |-> TRUE]

\* expressions the generated sources use: the name itself (`x`), another
\* context name (`x=vx`), a context function (`x=fx()`)
SrcOf(n, f) == CASE f = "implicit" -> n
                 [] f = "assign"   -> IF n = "x" THEN "vx" ELSE IF n = "num" THEN "vnum" ELSE "vy"
                 [] f = "call"     -> IF n = "x" THEN "fx" ELSE IF n = "num" THEN "fnum" ELSE "fy"
Sources == {"x", "vx", "fx", "num", "vnum", "fnum", "y", "vy", "fy"}

\* WVal(w, s): the value of source name s in data assignment w
WVal(w, s) ==
    CASE w = 1 -> (CASE s = "x"    -> StrV(<<"<", "x", "&", ">">>)
                     [] s = "vx"   -> MarkupV(<<"<", "i", ">">>)
                     [] s = "fx"   -> IntV(2)
                     [] s = "num"  -> IntV(1)
                     [] s = "vnum" -> IntV(2)
                     [] s = "fnum" -> IntV(1)
                     [] s = "y"    -> StrV(<<"%", "s">>)
                     [] s = "vy"   -> IntV(0)
                     [] s = "fy"   -> StrV(<<"'", "\"">>))
      [] w = 2 -> (CASE s = "x"    -> IntV(1)
                     [] s = "vx"   -> IntV(2)
                     [] s = "fx"   -> IntV(1)
                     [] s = "num"  -> IntV(2)
                     [] s = "vnum" -> IntV(1)
                     [] s = "fnum" -> IntV(0)
                     [] s = "y"    -> IntV(1)
                     [] s = "vy"   -> MarkupV(<<"&">>)
                     [] s = "fy"   -> IntV(2))
      [] w = 3 -> (CASE s = "x"    -> MarkupV(<<"%", "(", "x", ")", "s", "<">>)
                     [] s = "vx"   -> StrV(<<"%", "%", ">">>)
                     [] s = "fx"   -> StrV(<<"\"">>)
                     [] s = "num"  -> IntV(0)
                     [] s = "vnum" -> IntV(0)
                     [] s = "fnum" -> IntV(2)
                     [] s = "y"    -> IntV(2)
                     [] s = "vy"   -> IntV(1)
                     [] s = "fy"   -> IntV(1))

Str(v) == IF v.k = "int" THEN <<ToString(v.n)>> ELSE v.s

EscChar(c) == CASE c = "<"  -> <<"&", "l", "t", ";">>
                [] c = ">"  -> <<"&", "g", "t", ";">>
                [] c = "&"  -> <<"&", "a", "m", "p", ";">>
                [] c = "'"  -> <<"&", "#", "3", "9", ";">>
                [] c = "\"" -> <<"&", "#", "3", "4", ";">>
                [] OTHER    -> <<c>>
Escape(s) == FlatSeq(MapSeq(s, EscChar))
\* the text a value contributes to the output
Shown(v, autoescape) == IF autoescape /\ ~v.safe THEN Escape(Str(v)) ELSE Str(v)
IsOne(v) == v.k = "int" /\ v.n = 1

(* ------------------------------------------------------------------------ *)
(* blocks                                                                    *)
(* ------------------------------------------------------------------------ *)
\* b = [header, ctx, mod, policy, lead, s, p, hasPlural, pvar]
\* piece = [t |-> "text", s |-> Seq(Char)]  or  [t |-> "var", s |-> <<name>>]
TextP(s) == [t |-> "text", s |-> s]
VarP(n)  == [t |-> "var", s |-> <<n>>]

HeaderNames(b) == {b.header[i].n : i \in 1..Len(b.header)}
VarsIn(ps) == {ps[i].s[1] : i \in {j \in 1..Len(ps) : ps[j].t = "var"}}
Referenced(b) == VarsIn(b.s) \cup VarsIn(b.p)
\* every name the block binds: trans-tag variables and free names of the bodies
VarSet(b) == HeaderNames(b) \cup Referenced(b)

FirstVar(ps) == LET I == {j \in 1..Len(ps) : ps[j].t = "var"}
                IN  IF I = {} THEN "" ELSE ps[CHOOSE j \in I : \A k \in I : j <= k].s[1]

\* the expression a block variable is bound to
SourceOfVar(b, n) ==
    IF n \in HeaderNames(b)
    THEN LET i == CHOOSE j \in 1..Len(b.header) : b.header[j].n = n
         IN SrcOf(n, b.header[i].f)
    ELSE n
ValOf(b, w, n) == WVal(w, SourceOfVar(b, n))

\* documented rule for the count variable ("" = none)
CountVar(b) ==
    IF ~b.hasPlural THEN ""
    ELSE IF b.pvar # "" THEN b.pvar
    ELSE IF b.header # <<>> THEN b.header[1].n
    ELSE FirstVar(b.s)

EffTrim(b) == IF b.mod = "none" THEN b.policy ELSE b.mod = "trimmed"

Atom(k, x) == [k |-> k, x |-> x]
Atoms(ps) == FlatSeq(MapSeq(ps, LAMBDA p : IF p.t = "var" THEN <<Atom("v", p.s[1])>>
                                           ELSE MapSeq(p.s, LAMBDA c : Atom("c", c))))
\* only blocks the engine must accept are emitted:
\* a `{` must not run into what follows it and form a delimiter
NoDelimiter(ps) ==
    LET a == Atoms(ps)
    IN \A i \in 1..Len(a) :
          (a[i].k = "c" /\ a[i].x = "{") =>
              /\ i < Len(a)
              /\ a[i + 1].k = "c"
              /\ a[i + 1].x \notin {"{", "%", "#"}
WellFormed(b) ==
    /\ NoDelimiter(b.s)
    /\ NoDelimiter(b.p)
    /\ (b.hasPlural => CountVar(b) # "")
    /\ (b.pvar # "" => b.pvar \in HeaderNames(b))
    /\ (~b.hasPlural => b.p = <<>>)

(* ------------------------------------------------------------------------ *)
(* whitespace options of the lexer (trim_blocks / lstrip_blocks)             *)
(* ------------------------------------------------------------------------ *)
\* documentation: trim_blocks - "the first newline after a block is removed (block, not
\* variable tag!)"; lstrip_blocks - "spaces and tabs stripped from the start of a line to a
\* block".  A body of a trans block follows a block tag ({% trans %} / {% pluralize %}) and
\* is followed by one ({% pluralize %} / {% endtrans %}); what the parser of the extension
\* is handed is the body after these two rules.  `ws` in "none" | "trim" | "lstrip" | "both".
WsModes(name) == IF name \in {"q_ws", "t_ws"} THEN {"trim", "lstrip", "both"} ELSE {"none"}
TrimsBlocks(ws)  == ws \in {"trim", "both"}
LStripsBlocks(ws) == ws \in {"lstrip", "both"}
IsBlankAtom(a) == a.k = "c" /\ a.x \in {" ", "\t"}
IsNlAtom(a) == a.k = "c" /\ a.x = "\n"
\* trailing blanks of a body go when they are all there is since the start of their line:
\* a line break in front of them, or the very start of the body when the tag in front of the
\* body took a line break with it (lineStart)
RECURSIVE DropBlanks(_)
DropBlanks(a) == IF a # <<>> /\ IsBlankAtom(a[Len(a)]) THEN DropBlanks(SubSeq(a, 1, Len(a) - 1)) ELSE a
LStripAtoms(a, lineStart) ==
    LET d == DropBlanks(a)
    IN IF (d = <<>> /\ lineStart) \/ (d # <<>> /\ IsNlAtom(d[Len(d)])) THEN d ELSE a
LexAtoms(a, ws) ==
    LET eats == TrimsBlocks(ws) /\ a # <<>> /\ IsNlAtom(a[1])
        t == IF eats THEN Tail(a) ELSE a
    IN IF LStripsBlocks(ws) THEN LStripAtoms(t, eats) ELSE t
PiecesOfAtoms(a) == MapSeq(a, LAMBDA t : IF t.k = "v" THEN VarP(t.x) ELSE TextP(<<t.x>>))
LexBody(ps, ws) == IF ws = "none" THEN ps ELSE PiecesOfAtoms(LexAtoms(Atoms(ps), ws))
\* the block as the parser of the extension sees it under the whitespace options
Seen(b) == [b EXCEPT !.s = LexBody(b.s, b.ws), !.p = LexBody(b.p, b.ws)]

(* ------------------------------------------------------------------------ *)
(* concrete syntax (joined to one string by the harness)                     *)
(* ------------------------------------------------------------------------ *)
HeaderVarSrc(v) == IF v.f = "implicit" THEN <<v.n>>
                   ELSE IF v.f = "assign" THEN <<v.n, "=", SrcOf(v.n, v.f)>>
                   ELSE <<v.n, "=", SrcOf(v.n, v.f), "()">>
RECURSIVE HeaderSrc(_)
HeaderSrc(h) == IF h = <<>> THEN <<>>
                ELSE <<" ">> \o HeaderVarSrc(Head(h)) \o (IF Len(h) > 1 THEN <<",">> ELSE <<>>) \o HeaderSrc(Tail(h))
\* the items "{%", "%}", "{{", "}}" of an emitted source are delimiter symbols: the harness
\* writes them as the delimiters of the syntax options the case is run under
BodySrc(ps) == FlatSeq(MapSeq(ps, LAMBDA p : IF p.t = "var" THEN <<"{{", " ", p.s[1], " ", "}}">> ELSE p.s))
LeadText(b) == [i \in 1..b.lead |-> "\n"]
Src(b) ==
    LeadText(b)
    \o <<"{%", " trans">>
    \o (IF b.ctx # NoCtx THEN <<" \"">> \o b.ctx \o <<"\"">> ELSE <<>>)
    \o (IF b.mod # "none" THEN <<" ", b.mod>> ELSE <<>>)
    \o HeaderSrc(b.header) \o <<" ", "%}">>
    \o BodySrc(b.s)
    \o (IF b.hasPlural
        THEN <<"{%", " pluralize">> \o (IF b.pvar # "" THEN <<" ", b.pvar>> ELSE <<>>) \o <<" ", "%}">> \o BodySrc(b.p)
        ELSE <<>>)
    \o <<"{%", " endtrans ", "%}">>

(* ------------------------------------------------------------------------ *)
(* ABSTRACT LAYER                                                            *)
(* ------------------------------------------------------------------------ *)
IsWsAtom(a) == a.k = "c" /\ IsWs(a.x)
\* "replace all linebreaks and the whitespace surrounding them with a single
\* space and remove leading and trailing whitespace", stated per position
TrimAtoms(a) ==
    LET n == Len(a)
        Lo(i) == CHOOSE l \in 1..i : /\ \A j \in l..i : IsWsAtom(a[j])
                                     /\ (l = 1 \/ ~IsWsAtom(a[l - 1]))
        Hi(i) == CHOOSE h \in i..n : /\ \A j \in i..h : IsWsAtom(a[j])
                                     /\ (h = n \/ ~IsWsAtom(a[h + 1]))
        Out(i) == IF ~IsWsAtom(a[i]) THEN <<a[i]>>
                  ELSE IF Lo(i) = 1 \/ Hi(i) = n THEN <<>>
                  ELSE IF \E j \in Lo(i)..Hi(i) : a[j].x = "\n"
                       THEN (IF i = Lo(i) THEN <<Atom("c", " ")>> ELSE <<>>)
                       ELSE <<a[i]>>
    IN FlatSeq([i \in 1..n |-> Out(i)])

\* the text of a body as the reader of the template sees it
Shape(b) == [s |-> IF EffTrim(b) THEN TrimAtoms(Atoms(b.s)) ELSE Atoms(b.s),
             p |-> IF EffTrim(b) THEN TrimAtoms(Atoms(b.p)) ELSE Atoms(b.p)]

UsesSingular(b, w) == ~b.hasPlural \/ IsOne(ValOf(b, w, CountVar(b)))

AbstractText(b, sh, w, autoescape) ==
    LET a == IF UsesSingular(b, w) THEN sh.s ELSE sh.p
    IN LeadText(b) \o
       FlatSeq(MapSeq(a, LAMBDA t : IF t.k = "c" THEN <<t.x>>
                                     ELSE Shown(ValOf(b, w, t.x), autoescape)))

(* ------------------------------------------------------------------------ *)
(* OPERATIONAL LAYER                                                         *)
(* ------------------------------------------------------------------------ *)
Doubled(s) == FlatSeq(MapSeq(s, LAMBDA c : IF c = "%" THEN <<"%", "%">> ELSE <<c>>))
Placeholder(n) == <<"%", "(">> \o NameChars(n) \o <<")", "s">>
\* _parse_block
RawMsg(ps) == FlatSeq(MapSeq(ps, LAMBDA p : IF p.t = "var" THEN Placeholder(p.s[1]) ELSE Doubled(p.s)))

\* _trim_whitespace:  _ws_re.sub(" ", string.strip())  with  _ws_re = \s*\n\s*
RECURSIVE LStrip(_)
LStrip(s) == IF s # <<>> /\ IsWs(Head(s)) THEN LStrip(Tail(s)) ELSE s
RECURSIVE RStrip(_)
RStrip(s) == IF s # <<>> /\ IsWs(s[Len(s)]) THEN RStrip(SubSeq(s, 1, Len(s) - 1)) ELSE s
\* end (exclusive) of the whitespace run starting at i
RECURSIVE WsEnd(_, _)
WsEnd(s, i) == IF i <= Len(s) /\ IsWs(s[i]) THEN WsEnd(s, i + 1) ELSE i
RECURSIVE SubWs(_, _)
SubWs(s, i) ==
    IF i > Len(s) THEN <<>>
    ELSE IF ~IsWs(s[i]) THEN <<s[i]>> \o SubWs(s, i + 1)
    ELSE LET e == WsEnd(s, i)
         IN IF \E j \in i..(e - 1) : s[j] = "\n"
            THEN <<" ">> \o SubWs(s, e)
            ELSE SubSeq(s, i, e - 1) \o SubWs(s, e)
TrimChars(s) == SubWs(RStrip(LStrip(s)), 1)

\* str.replace("%%", "%")
RECURSIVE Collapse(_)
Collapse(s) == IF s = <<>> THEN <<>>
               ELSE IF Len(s) >= 2 /\ s[1] = "%" /\ s[2] = "%" THEN <<"%">> \o Collapse(SubSeq(s, 3, Len(s)))
               ELSE <<Head(s)>> \o Collapse(Tail(s))

\* is the result of the gettext call %-formatted ?
Formats(b, new) == new \/ VarSet(b) # {}
\* does the message id keep its doubled percent signs ?
KeepsEscapes(b, new) ==
    new \/ (IF Guard = "referenced" THEN Referenced(b) # {} ELSE VarSet(b) # {})

MsgId(b, ps, new) ==
    LET m == IF EffTrim(b) THEN TrimChars(RawMsg(ps)) ELSE RawMsg(ps)
    IN IF KeepsEscapes(b, new) THEN m ELSE Collapse(m)

FuncName(b) == IF b.hasPlural THEN (IF b.ctx # NoCtx THEN "npgettext" ELSE "ngettext")
               ELSE (IF b.ctx # NoCtx THEN "pgettext" ELSE "gettext")

NumCalledNum(b) == b.hasPlural /\ CountVar(b) = "num"

\* the node _make_node builds at parse time (per gettext style)
Node(b, new) ==
    [f       |-> FuncName(b),
     ms      |-> MsgId(b, b.s, new),
     mp      |-> IF b.hasPlural THEN MsgId(b, b.p, new) ELSE <<>>,
     count   |-> CountVar(b),
     formats |-> Formats(b, new),
     \* names given as keyword arguments (new) / format dictionary (old)
     passed  |-> IF new /\ NumCalledNum(b) THEN VarSet(b) \ {"num"} ELSE VarSet(b),
     new     |-> new]

\* arguments of a call: strings and (for the count) a value
SArg(s) == [t |-> "s", s |-> s, v |-> None]
VArg(v) == [t |-> "v", s |-> <<>>, v |-> v]

\* calls the translation callables receive while the block renders
Calls(b, nd, w) ==
    << [f |-> nd.f,
        args |-> (IF b.ctx # NoCtx THEN <<SArg(b.ctx)>> ELSE <<>>)
                 \o <<SArg(nd.ms)>>
                 \o (IF b.hasPlural THEN <<SArg(nd.mp), VArg(ValOf(b, w, nd.count))>> ELSE <<>>)] >>

\* identity translations: gettext(m) = m, ngettext(s, p, n) = s if n = 1 else p
Translated(b, nd, w) ==
    IF ~b.hasPlural \/ IsOne(ValOf(b, w, nd.count)) THEN nd.ms ELSE nd.mp

\* Python %-formatting restricted to what message ids contain:  %%  and  %(name)s
\* Lookup(n) gives the value for a name, NoValue if the name is not supplied
FmtErr == "<FormatError>"
NoValue == [k |-> "none", n |-> 0, s |-> <<>>, safe |-> FALSE]
RECURSIVE IndexOfClose(_, _)
IndexOfClose(s, i) == IF i > Len(s) THEN 0 ELSE IF s[i] = ")" THEN i ELSE IndexOfClose(s, i + 1)
RECURSIVE Fmt(_, _, _, _)
Fmt(s, i, Lookup(_), safe) ==
    IF i > Len(s) THEN <<>>
    ELSE IF s[i] # "%" THEN <<s[i]>> \o Fmt(s, i + 1, Lookup, safe)
    ELSE IF i = Len(s) THEN <<FmtErr>>
    ELSE IF s[i + 1] = "%" THEN <<"%">> \o Fmt(s, i + 2, Lookup, safe)
    ELSE IF s[i + 1] = "("
         THEN LET j == IndexOfClose(s, i + 2)
              IN IF j = 0 \/ j = Len(s) \/ s[j + 1] # "s" THEN <<FmtErr>>
                 ELSE LET v == Lookup(SubSeq(s, i + 2, j - 1))
                      IN IF v = NoValue THEN <<FmtErr>>
                         ELSE Shown(v, safe) \o Fmt(s, j + 2, Lookup, safe)
    ELSE <<FmtErr>>
HasErr(s) == \E i \in 1..Len(s) : s[i] = FmtErr

\* keyword arguments / format dictionary; new style: the wrapper adds
\* num (the count) unless given  (`context` is never a placeholder here)
DictValue(b, nd, w, chars) ==
    LET N == {n \in nd.passed : NameChars(n) = chars}
    IN IF N # {} THEN ValOf(b, w, CHOOSE n \in N : TRUE)
       ELSE IF nd.new /\ b.hasPlural /\ chars = NameChars("num") THEN ValOf(b, w, nd.count)
       ELSE NoValue

\* what the Output node writes.  The result of the call is marked safe iff
\* autoescaping is on (MarkSafeIfAutoescape / Markup(rv) in the wrapper), so
\* %-formatting escapes the values and the finished string is not escaped again.
Rendered(b, nd, w, autoescape) ==
    LET t == Translated(b, nd, w)
        r == IF nd.formats THEN Fmt(t, 1, LAMBDA c : DictValue(b, nd, w, c), autoescape) ELSE t
    IN IF HasErr(r) THEN [ok |-> FALSE, out |-> <<>>] ELSE [ok |-> TRUE, out |-> LeadText(b) \o r]

\* extract_from_ast (babel style) applied to the node: constant string
\* arguments as they are, every other positional argument and every keyword
\* argument as None
Extracted(b, nd) ==
    [line |-> 1 + b.lead,
     f    |-> nd.f,
     msgs |-> (IF b.ctx # NoCtx THEN <<SArg(b.ctx)>> ELSE <<>>)
              \o <<SArg(nd.ms)>>
              \o (IF b.hasPlural THEN <<SArg(nd.mp), VArg(None)>> ELSE <<>>)
              \o (IF nd.new THEN [i \in 1..Cardinality(nd.passed) |-> VArg(None)] ELSE <<>>)]

(* ------------------------------------------------------------------------ *)
(* direct calls  {{ _("..") }}  {{ ngettext("..", "..", n) }} ...  (suites of kind "calls")  *)
(* ------------------------------------------------------------------------ *)
\* c = [fn, m1, m2, count (source name), dyn (first message given by a
\*      variable instead of a constant), kw (keyword argument x=vx), lead]
CallFuncs == {"_", "gettext", "ngettext", "pgettext", "npgettext"}
IsPlural(fn) == fn \in {"ngettext", "npgettext"}
HasCtx(fn) == fn \in {"pgettext", "npgettext"}
Lit(s) == <<"\"">> \o s \o <<"\"">>
CallSrc(c) ==
    [i \in 1..c.lead |-> "\n"] \o <<"{{", " ", c.fn, "(">>
    \o (IF HasCtx(c.fn) THEN Lit(CtxC) \o <<", ">> ELSE <<>>)
    \o (IF c.dyn THEN <<"y">> ELSE Lit(c.m1))
    \o (IF IsPlural(c.fn) THEN <<", ">> \o Lit(c.m2) \o <<", ", c.count>> ELSE <<>>)
    \o (IF c.kw THEN <<", x=vx">> ELSE <<>>)
    \o <<") ", "}}">>
\* messages handed to the translation callable (`_` resolves to gettext)
CallRuntime(c, w) ==
    [f |-> IF c.fn = "_" THEN "gettext" ELSE c.fn,
     args |-> (IF HasCtx(c.fn) THEN <<SArg(CtxC)>> ELSE <<>>)
              \o <<IF c.dyn THEN VArg(WVal(w, "y")) ELSE SArg(c.m1)>>
              \o (IF IsPlural(c.fn) THEN <<SArg(c.m2), VArg(WVal(w, c.count))>> ELSE <<>>)]
CallExtracted(c) ==
    [line |-> 1 + c.lead,
     f    |-> c.fn,
     msgs |-> (IF HasCtx(c.fn) THEN <<SArg(CtxC)>> ELSE <<>>)
              \o <<IF c.dyn THEN VArg(None) ELSE SArg(c.m1)>>
              \o (IF IsPlural(c.fn) THEN <<SArg(c.m2), VArg(None)>> ELSE <<>>)
              \o (IF c.kw THEN <<VArg(None)>> ELSE <<>>)]
\* old style callables take no keyword arguments
CallOk(c, new) == c.kw => new

CallMsgs(T) == {<<>>} \cup T \cup {tu[1] \o tu[2] : tu \in T \X T}
CallCases(name) ==
    [suite : {name}, fn : CallFuncs, m1 : CallMsgs(Params(name).texts), m2 : Params(name).ptexts,
     count : {"num", "vnum"}, dyn : BOOLEAN, kw : BOOLEAN, lead : Params(name).leads]

(* ------------------------------------------------------------------------ *)
(* state machine: grow a block piece by piece, emit every well-formed one    *)
(* ------------------------------------------------------------------------ *)
Pieces(T, V) == {TextP(s) : s \in T} \cup {VarP(n) : n \in V}

NoRes == <<>>

TransStart(name) ==
    LET q == Params(name)
    IN [suite : {name}, header : q.headers, ctx : q.ctxs, mod : q.mods, policy : q.policies, lead : q.leads,
        s : {<<>>}, p : {<<>>}, hasPlural : {FALSE}, pvar : {""}, ws : WsModes(name)]
CallStart(name) ==
    {c \in CallCases(name) :
        /\ (~IsPlural(c.fn) => (c.m2 = CHOOSE t \in Params(name).ptexts : TRUE) /\ c.count = "num")
        /\ (c.dyn => c.m1 = <<>>)}

Init ==
    /\ \E name \in Suites :
          blk \in IF Params(name).kind = "trans" THEN TransStart(name) ELSE CallStart(name)
    /\ res = NoRes

AddSingular ==
    /\ res = NoRes /\ IsTrans(blk) /\ ~blk.hasPlural /\ Len(blk.s) < P(blk).maxs
    /\ \E q \in Pieces(P(blk).texts, P(blk).vars) : blk' = [blk EXCEPT !.s = Append(@, q)]
    /\ UNCHANGED res

StartPlural ==
    /\ res = NoRes /\ IsTrans(blk) /\ ~blk.hasPlural /\ P(blk).maxp > 0
    /\ \E v \in {""} \cup HeaderNames(blk) : blk' = [blk EXCEPT !.hasPlural = TRUE, !.pvar = v]
    /\ UNCHANGED res

AddPlural ==
    /\ res = NoRes /\ IsTrans(blk) /\ blk.hasPlural /\ Len(blk.p) < P(blk).maxp
    /\ \E q \in Pieces(P(blk).ptexts, P(blk).vars) : blk' = [blk EXCEPT !.p = Append(@, q)]
    /\ UNCHANGED res

WorldsFor(b) == IF VarSet(b) = {} THEN {CHOOSE w \in P(b).worlds : TRUE} ELSE P(b).worlds
DataOf(b, w) == [n \in {SourceOfVar(b, m) : m \in VarSet(b)} |-> WVal(w, n)]

\* trim_blocks / lstrip_blocks cannot touch the block: no body starts with a line
\* break (trim_blocks eats one after a block tag) and no body ends in blanks that
\* follow a line break (lstrip_blocks eats them before a block tag)
RECURSIVE EndsInNlBlanks(_)
EndsInNlBlanks(a) == a # <<>> /\ a[Len(a)].k = "c"
                     /\ (a[Len(a)].x = "\n" \/ (a[Len(a)].x \in {" ", "\t"} /\ EndsInNlBlanks(SubSeq(a, 1, Len(a) - 1))))
BodyInert(ps) == LET a == Atoms(ps)
                 IN /\ (a # <<>> => ~(a[1].k = "c" /\ a[1].x = "\n"))
                    /\ ~(a # <<>> /\ a[Len(a)].k = "c" /\ a[Len(a)].x \in {" ", "\t"} /\ EndsInNlBlanks(SubSeq(a, 1, Len(a) - 1)))
WsInert(b) == BodyInert(b.s) /\ BodyInert(b.p)

HasPercent(ps) == \E i \in 1..Len(ps) : ps[i].t = "text" /\ "%" \in Range(ps[i].s)

RunOf(b, nd, w, autoescape) ==
    LET r == Rendered(b, nd, w, autoescape)
    IN [w |-> w, autoescape |-> autoescape, newstyle |-> nd.new, ok |-> r.ok, out |-> r.out,
        calls |-> Calls(b, nd, w)]

\* the source is the block as written (b0); everything expected of it is the mechanism
\* applied to the block the lexer hands over under the whitespace options of the case
TransCase(b0) ==
    LET b == Seen(b0)
        nodes == [new \in BOOLEAN |-> Node(b, new)]
    IN [kind |-> "trans", suite |-> b.suite, src |-> Src(b0), policy |-> b.policy, ws |-> b0.ws,
        feat |-> [referenced |-> Referenced(b) # {}, header_vars |-> b.header # <<>>,
                  percent |-> HasPercent(b.s) \/ HasPercent(b.p), plural |-> b.hasPlural,
                  trimmed |-> EffTrim(b), context |-> b.ctx # NoCtx, ws_inert |-> WsInert(b0)],
        data |-> {[w |-> w, vals |-> DataOf(b, w)] : w \in WorldsFor(b)},
        runs |-> {RunOf(b, nodes[new], w, ae) : w \in WorldsFor(b), ae \in BOOLEAN, new \in BOOLEAN},
        extracted |-> [old |-> Extracted(b, nodes[FALSE]), new |-> Extracted(b, nodes[TRUE])]]

CallCase(c) ==
    [kind |-> "call", suite |-> c.suite, src |-> CallSrc(c), policy |-> FALSE, ws |-> "none",
     feat |-> [dyn |-> c.dyn, kw |-> c.kw, fn |-> c.fn, ws_inert |-> TRUE],
     data |-> {[w |-> w, vals |-> [n \in {"y", "vx", c.count} |-> WVal(w, n)]] : w \in P(c).worlds},
     runs |-> {[w |-> w, autoescape |-> ae, newstyle |-> new, calls |-> <<CallRuntime(c, w)>>]
               : w \in P(c).worlds, ae \in BOOLEAN, new \in {n \in BOOLEAN : CallOk(c, n)}},
     extracted |-> [old |-> CallExtracted(c), new |-> CallExtracted(c)]]

\* the expectations are computed once, kept in the state (so that the
\* properties below are evaluated on exactly what is printed) and printed
Emit ==
    /\ res = NoRes
    /\ IsTrans(blk) => WellFormed(blk)
    /\ res' = IF IsTrans(blk) THEN TransCase(blk) ELSE CallCase(blk)
    /\ PrintT(ToJson(res'))
    /\ UNCHANGED blk

Next == AddSingular \/ StartPlural \/ AddPlural \/ Emit
Spec == Init /\ [][Next]_vars

(* ------------------------------------------------------------------------ *)
(* properties (checked on every emitted block)                               *)
(* ------------------------------------------------------------------------ *)
Checked == res # NoRes /\ IsTrans(blk)

\* formatting never trips over a `%` of the template text
C33_FormatTotal == Checked => \A r \in res.runs : r.ok

\* the mechanism yields the text of the block: variables substituted, form
\* chosen by the count, only variable values escaped
C33_RendersLikeSource ==
    Checked => LET b == Seen(blk)
                   sh == Shape(b)
               IN \A r \in res.runs : r.ok => r.out = AbstractText(b, sh, r.w, r.autoescape)

C33_OldNewAgree ==
    Checked => \A r1 \in res.runs, r2 \in res.runs :
                  (r1.w = r2.w /\ r1.autoescape = r2.autoescape) => (r1.ok = r2.ok /\ r1.out = r2.out)

\* every message handed to a gettext function at render time is extracted
\* (same function name, same strings in the same positions)
CallCovered(call, ex) ==
    /\ (call.f = ex.f \/ (ex.f = "_" /\ call.f = "gettext"))
    /\ Len(ex.msgs) >= Len(call.args)
    /\ \A i \in 1..Len(call.args) : call.args[i].t = "s" => ex.msgs[i] = call.args[i]

C33_CallsAreExtracted ==
    res # NoRes =>
        \A r \in res.runs : \A i \in 1..Len(r.calls) :
            CallCovered(r.calls[i], IF r.newstyle THEN res.extracted.new ELSE res.extracted.old)

\* trimming stated per position (abstract) = strip + regex substitution (code)
C33_TrimLayersAgree ==
    Checked =>
       \A ps \in {blk.s, blk.p, Seen(blk).s, Seen(blk).p} :
          FlatSeq(MapSeq(TrimAtoms(Atoms(ps)), LAMBDA t : IF t.k = "c" THEN Doubled(<<t.x>>) ELSE Placeholder(t.x)))
             = TrimChars(RawMsg(ps))
=============================================================================
