---------------------------- MODULE SandboxRules ----------------------------
(***************************************************************************)
(* The rules of the Jinja sandbox as the documentation and the properties  *)
(* C17 - C19 state them (ABSTRACT LAYER), and a transcription of how       *)
(* jinja2/sandbox.py decides the same questions (OPERATIONAL LAYER).       *)
(* No variables: SandboxGate (the state machine), SandboxTrace (trace      *)
(* validation) and SandboxTable (verdict matrix of the real code) extend   *)
(* this module.                                                            *)
(*                                                                         *)
(* An attribute name is a record [n |-> "gi_frame", c1 |-> "g", c2 |-> "i"]*)
(* (TLC strings are atoms, so the first two characters travel with the     *)
(* name; "" when the name is shorter).  The prefix rules are decided here. *)
(***************************************************************************)
EXTENDS SandboxData

Nm(n, c1, c2) == [n |-> n, c1 |-> c1, c2 |-> c2]

(* kinds of data objects a template can get hold of *)
ObjKinds == {"plain", "function", "method", "type", "generator", "coroutine",
             "asyncgen", "code", "frame", "traceback", "str", "other",
             "list", "dict", "set", "deque"}

(* -- ABSTRACT LAYER --------------------------------------------------------- *)
(* docs/sandbox.rst + docstrings of is_safe_attribute / is_internal_attribute:
   "all attributes starting with an underscore are considered private as well as
   the special attributes of internal python objects" *)
Private(a) == a.c1 = "_"
Dunder(a)  == a.c1 = "_" /\ a.c2 = "_"

(* attributes through which Python's introspection objects expose frames and
   code; every attribute of a code, frame or traceback object is internal *)
InternalNames(kind) ==
    CASE kind = "type"      -> {"mro"}
      [] kind = "generator" -> {"gi_frame", "gi_code"}
      [] kind = "coroutine" -> {"cr_frame", "cr_code"}
      [] kind = "asyncgen"  -> {"ag_frame", "ag_code"}
      [] OTHER              -> {}

Internal(kind, a) ==
    \/ Dunder(a)
    \/ kind \in {"code", "frame", "traceback"}
    \/ a.n \in InternalNames(kind)

Forbidden(kind, a) == Private(a) \/ Internal(kind, a)

(* C19: in the immutable sandbox a method that can modify a builtin container
   must not be handed out either.  Mutators comes from SandboxData (semantics). *)
MutatorAttr(kind, a) == kind \in ContainerKinds /\ a.n \in Mutators(kind)

RuleSafe(env, kind, a) ==
    /\ ~Forbidden(kind, a)
    /\ ~(env = "immutable" /\ MutatorAttr(kind, a))

(* C18: callables are records [id, unsafe, alters, name, denied, recv] describing THE OBJECT
   THE TEMPLATE CALLS AS IT IS WHEN IT IS CALLED (its own unsafe_callable / alters_data
   marks, its name, whether the application put this very object on a deny list, whether
   it is a method bound to a receiver the application has frozen) -- not whatever it wraps
   or is wrapped by, not what it was when it was called before, not what another object
   bound to the same function is, and not the name of the template variable that holds it.
   A subclass policy may reject more: "denyname" = an overridden is_safe_callable that
   rejects by name, "denyobj" = one that rejects by identity, "denyrecv" = one that rejects
   the methods of frozen receivers *)
DeniedNames == {"denied"}
UnsafeCallable(policy, f) ==
    \/ f.unsafe
    \/ f.alters
    \/ (policy = "denyname" /\ f.name \in DeniedNames)
    \/ (policy = "denyobj" /\ f.denied)
    \/ (policy = "denyrecv" /\ f.recv)

(* -- OPERATIONAL LAYER: transcription of jinja2/sandbox.py -------------------- *)
(* _mutable_spec, row by row (as of commit f0317ed, which added intersection_update) *)
OpRows == <<
    [abc |-> "MutableSet",
     names |-> {"add", "clear", "difference_update", "discard", "intersection_update", "pop",
                "remove", "symmetric_difference_update", "update"}],
    [abc |-> "MutableMapping",
     names |-> {"clear", "pop", "popitem", "setdefault", "update"}],
    [abc |-> "MutableSequence",
     names |-> {"append", "clear", "pop", "reverse", "insert", "sort", "extend", "remove"}],
    [abc |-> "deque",
     names |-> {"append", "appendleft", "clear", "extend", "extendleft", "pop",
                "popleft", "remove", "rotate"}] >>

(* isinstance(obj, abc) for the exact builtin types (deque is registered as a
   MutableSequence) *)
IsInstance(kind, abc) ==
    \/ kind = "set"  /\ abc = "MutableSet"
    \/ kind = "dict" /\ abc = "MutableMapping"
    \/ kind \in {"list", "deque"} /\ abc = "MutableSequence"
    \/ kind = "deque" /\ abc = "deque"

(* modifies_known_mutable: `for typespec, unsafe in _mutable_spec: if isinstance(obj,
   typespec) and attr in unsafe: return True` -- ANY matching row that lists the name *)
OpModifies(kind, n) ==
    \E i \in 1..Len(OpRows) : IsInstance(kind, OpRows[i].abc) /\ n \in OpRows[i].names

(* the lookup as shipped before f0317ed (findings F8 / F9), kept so that TLC can
   exhibit the design defect: the set row lacked intersection_update, and
   `if isinstance(obj, typespec): return attr in unsafe` let the FIRST matching row decide *)
LegacyRows == [OpRows EXCEPT ![1].names = @ \ {"intersection_update"}]
RECURSIVE LegacyLookup(_, _, _)
LegacyLookup(rows, kind, n) ==
    IF rows = <<>> THEN FALSE
    ELSE IF IsInstance(kind, Head(rows).abc) THEN n \in Head(rows).names
    ELSE LegacyLookup(Tail(rows), kind, n)
LegacyModifies(kind, n) == LegacyLookup(LegacyRows, kind, n)

(* is_internal_attribute: an isinstance chain, then attr.startswith("__") *)
OpInternal(kind, a) ==
    IF kind = "type" THEN a.n = "mro" \/ Dunder(a)
    ELSE IF kind \in {"code", "traceback", "frame"} THEN TRUE
    ELSE IF kind = "generator" THEN a.n \in {"gi_frame", "gi_code"} \/ Dunder(a)
    ELSE IF kind = "coroutine" THEN a.n \in {"cr_frame", "cr_code"} \/ Dunder(a)
    ELSE IF kind = "asyncgen" THEN a.n \in {"ag_code", "ag_frame"} \/ Dunder(a)
    ELSE Dunder(a)

OpSafe(impl, env, kind, a) ==
    /\ ~(a.c1 = "_" \/ OpInternal(kind, a))
    /\ ~(env = "immutable" /\ (IF impl = "legacy" THEN LegacyModifies(kind, a.n) ELSE OpModifies(kind, a.n)))

(* the gate a model / a trace is checked against *)
GateAllows(impl, env, kind, a) ==
    IF impl = "abstract" THEN RuleSafe(env, kind, a) ELSE OpSafe(impl, env, kind, a)

(* (kind, method) pairs a given `modifies` predicate fails to cover / blocks although
   the method cannot modify anything *)
Uncovered(Mod(_, _)) ==
    {<<k, m>> \in ContainerKinds \X UNION {Methods(k2) : k2 \in ContainerKinds} :
        m \in Mutators(k) /\ ~Mod(k, m)}
Overblocked(Mod(_, _)) ==
    {<<k, m>> \in ContainerKinds \X UNION {Methods(k2) : k2 \in ContainerKinds} :
        m \in Methods(k) /\ m \notin Mutators(k) /\ Mod(k, m)}
=============================================================================
