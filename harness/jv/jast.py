"""Abstract syntax of Jinja programs as JSON (the form spec/Jinja.tla reads),
constructors, the unparser to Jinja source, and conversion of abstract data
values to real Python objects (probe objects, recording callables).

Nothing in this module evaluates templates: it only builds syntax / data.
"""
from __future__ import annotations

import json

# ---------------------------------------------------------------------------
# values (tagged JSON, identical to the TLA+ records of JValues.tla)
# ---------------------------------------------------------------------------

def vint(n): return {"t": "int", "n": n}
def vbool(b): return {"t": "bool", "b": bool(b)}
VNONE = {"t": "none"}
def vfloat(x):
    """A float the spec can hold exactly: n / 2^e with |n| <= 30000 and e <= 6 (None otherwise)."""
    x = float(x)
    if x != x or x in (float("inf"), float("-inf")) or (x == 0 and str(x).startswith("-")):
        return None
    num, den = x.as_integer_ratio()
    e = den.bit_length() - 1
    if den != 1 << e or e > 6 or abs(num) > 30000:
        return None
    return {"t": "float", "n": num, "e": e}
def float_of(v): return v["n"] / (1 << v["e"])
def vstr(text, origin="data", safe=False):
    return {"t": "str", "s": ([{"a": text, "e": 0, "o": origin}] if text != "" else []), "m": safe}
def vlist(items, tup=False): return {"t": "list", "v": list(items), "tup": tup}
def vdict(pairs): return {"t": "dict", "k": [k for k, _ in pairs], "v": [v for _, v in pairs]}
def vobj(oid): return {"t": "obj", "id": oid}
def vtplobj(name): return {"t": "tplobj", "n": name}      # a loaded Template object (env.get_template(name)) passed as data
def vfn(fid, mode="const", ret=None): return {"t": "fn", "id": fid, "mode": mode, "ret": ret if ret is not None else VNONE}

GLOBALS = {"range": {"t": "builtin", "n": "range"}, "namespace": {"t": "builtin", "n": "namespace"},
           "dict": {"t": "builtin", "n": "dict"}, "cycler": {"t": "builtin", "n": "cycler"},
           "joiner": {"t": "builtin", "n": "joiner"}}

# ---------------------------------------------------------------------------
# expression / statement constructors
# ---------------------------------------------------------------------------

def Const(v):
    if isinstance(v, bool): return {"k": "const", "v": vbool(v)}
    if isinstance(v, int): return {"k": "const", "v": vint(v)}
    if isinstance(v, float):
        f = vfloat(v)
        if f is None or v < 0: raise ValueError(f"not an exact small float literal: {v!r}")
        return {"k": "const", "v": f}
    if v is None: return {"k": "const", "v": VNONE}
    if isinstance(v, str): return {"k": "const", "v": vstr(v, "lit")}
    raise TypeError(v)
def Name(n): return {"k": "name", "n": n}
def List(items, tup=False): return {"k": "list", "items": list(items), "tup": tup}
def Dict(pairs): return {"k": "dict", "keys": [k for k, _ in pairs], "vals": [v for _, v in pairs]}
def Bin(op, a, b): return {"k": "bin", "op": op, "a": a, "b": b}
def Neg(a): return {"k": "neg", "a": a}
def Pos(a): return {"k": "pos", "a": a}
def Not(a): return {"k": "not", "a": a}
def And(a, b): return {"k": "and", "a": a, "b": b}
def Or(a, b): return {"k": "or", "a": a, "b": b}
def Cmp(a, *ops): return {"k": "cmp", "a": a, "ops": [{"op": o, "e": e} for o, e in ops]}
def Cond(test, a, b=None):
    d = {"k": "cond", "test": test, "a": a}
    if b is not None: d["b"] = b
    return d
def Concat(*items): return {"k": "concat", "items": list(items)}
def Getattr(a, n): return {"k": "getattr", "a": a, "n": n}
def Getitem(a, i): return {"k": "getitem", "a": a, "i": i}
def Slice(a, lo=None, hi=None):
    d = {"k": "slice", "a": a}
    if lo is not None: d["lo"] = lo
    if hi is not None: d["hi"] = hi
    return d
def Call(f, args=(), kw=()): return {"k": "call", "f": f, "args": list(args), "kwnames": [k for k, _ in kw], "kwvals": [v for _, v in kw]}
def Filter(a, n, args=(), kw=()): return {"k": "filter", "a": a, "n": n, "args": list(args), "kwnames": [k for k, _ in kw], "kwvals": [v for _, v in kw]}
def Test(a, n, args=(), neg=False): return {"k": "test", "a": a, "n": n, "args": list(args), "neg": neg}

def TName(n): return {"k": "name", "n": n, "exp": not n.startswith("_")}
def TTuple(items): return {"k": "tuple", "items": list(items)}
def TNs(ns, attr): return {"k": "nsattr", "ns": ns, "attr": attr}

def Text(s): return {"k": "text", "s": s}
def Out(e): return {"k": "out", "e": e}
def If(tests, bodies, else_=None):
    d = {"k": "if", "tests": list(tests), "bodies": [list(b) for b in bodies]}
    if else_ is not None: d["else"] = list(else_)
    return d
def For(target, it, body, else_=None, filter=None, recursive=False):
    d = {"k": "for", "target": target, "iter": it, "body": list(body), "recursive": recursive}
    if else_ is not None: d["else"] = list(else_)
    if filter is not None: d["filter"] = filter
    return d
def Set(target, e): return {"k": "set", "target": target if isinstance(target, dict) else TName(target), "e": e}
def SetBlock(target, body, filter=None):
    d = {"k": "setblock", "target": target if isinstance(target, dict) else TName(target), "body": list(body)}
    if filter: d["filter"] = filter
    return d
def With(pairs, body): return {"k": "with", "names": [n for n, _ in pairs], "vals": [v for _, v in pairs], "body": list(body)}
def Macro(name, params, defaults, body):
    u = uses(body, defaults)
    return {"k": "macro", "name": name, "params": list(params), "defaults": list(defaults), "body": list(body),
            "varargs": "varargs" in u, "kwargs": "kwargs" in u, "caller": "caller" in u,
            "exp": not name.startswith("_")}
def CallBlock(f, args, kw, body, params=(), defaults=()):
    return {"k": "callblock", "f": f, "args": list(args), "kwnames": [k for k, _ in kw], "kwvals": [v for _, v in kw],
            "body": list(body), "params": list(params), "defaults": list(defaults)}
def FilterBlock(filter, body, args=()): return {"k": "filterblock", "filter": filter, "body": list(body), "args": list(args)}
def Autoescape(e, body): return {"k": "autoescape", "e": e, "body": list(body)}
def Block(name, body, scoped=False, required=False): return {"k": "block", "name": name, "body": list(body), "scoped": scoped, "required": required}
def Extends(e): return {"k": "extends", "e": e}
def Include(e, with_context=True, ignore_missing=False): return {"k": "include", "e": e, "with_context": with_context, "ignore_missing": ignore_missing}
def Import(e, target, with_context=False): return {"k": "import", "e": e, "target": target, "with_context": with_context}
def FromImport(e, names, with_context=False):
    return {"k": "fromimport", "e": e, "names": [{"n": n, "as": a} for n, a in names], "with_context": with_context}
def Do(e): return {"k": "do", "e": e}
BREAK = {"k": "break"}
CONTINUE = {"k": "continue"}


def walk(node):
    """Yield every dict node of an AST (statements, expressions, targets)."""
    if isinstance(node, dict):
        yield node
        for v in node.values():
            yield from walk(v)
    elif isinstance(node, (list, tuple)):
        for x in node:
            yield from walk(x)


def uses(body, defaults=()):
    """Names referenced (as `name` expressions) in a macro body, not descending into nested macros'
    own bindings is unnecessary here: jinja decides varargs/kwargs/caller by any reference."""
    found = set()
    for n in walk([body, list(defaults)]):
        if n.get("k") == "name" and "exp" not in n and n.get("n") in ("varargs", "kwargs", "caller"):
            found.add(n["n"])
    return found


def _const_truth(v):
    t = v["t"]
    return {"int": lambda: v["n"] != 0, "bool": lambda: v["b"], "none": lambda: False,
            "str": lambda: seg_text(v["s"]) != ""}[t]()


def collect_blocks(body):
    """The blocks of a template, each with the lexical autoescape mode of the place where it is written
    (amode: "default" = the template's own setting, "on" / "off" inside {% autoescape <constant> %},
    "vol" inside {% autoescape <expression> %})."""
    out = {}

    def go(node, mode):
        if isinstance(node, dict):
            k = node.get("k")
            if k == "autoescape":
                go(node["e"], mode)
                if mode == "vol" or node["e"]["k"] != "const":
                    inner = "vol"
                else:
                    inner = "on" if _const_truth(node["e"]["v"]) else "off"
                go(node["body"], inner)
                return
            if k == "block":
                out[node["name"]] = {"body": node["body"], "scoped": node["scoped"], "required": node["required"],
                                     "pre": node.get("pre", []), "amode": mode}
            for v in node.values():
                go(v, mode)
        elif isinstance(node, (list, tuple)):
            for x in node:
                go(x, mode)

    go(body, "default")
    return out


def template(body, auto=False):
    body = list(body)
    pre = annotate(body)
    names = sorted({n["n"] for n in walk(body) if n.get("k") == "name" and "exp" not in n}
                   | {n["ns"] for n in walk(body) if n.get("k") == "nsattr"})
    refs = set()
    for n in walk(body):
        if n.get("k") in ("extends", "include", "import", "fromimport"):
            e = n["e"]
            def targets(e):
                if e["k"] == "const" and e["v"]["t"] == "str":
                    return {seg_text(e["v"]["s"])}
                if e["k"] == "list" and all(x["k"] == "const" and x["v"]["t"] == "str" for x in e["items"]):
                    return {seg_text(x["v"]["s"]) for x in e["items"]}
                if e["k"] == "cond":
                    return targets(e["a"]) | (targets(e["b"]) if "b" in e else {"?"})
                return {"?"}
            refs |= targets(e)
    return {"body": body, "auto": auto, "blocks": collect_blocks(body), "pre": pre, "names": names, "refs": sorted(refs)}


# ---------------------------------------------------------------------------
# unparser
# ---------------------------------------------------------------------------

def lit_str(s):
    out = ['"']
    for ch in s:
        if ch == "\\": out.append("\\\\")
        elif ch == '"': out.append('\\"')
        elif ch == "\n": out.append("\\n")
        else: out.append(ch)
    out.append('"')
    return "".join(out)


def seg_text(segs):
    return "".join(s["a"] for s in segs)


def unparse_value(v):
    t = v["t"]
    if t == "int": return str(v["n"]) if v["n"] >= 0 else f"({v['n']})"
    if t == "float": return repr(float_of(v)) if v["n"] >= 0 else f"({float_of(v)!r})"
    if t == "bool": return "true" if v["b"] else "false"
    if t == "none": return "none"
    if t == "str": return lit_str(seg_text(v["s"]))
    raise ValueError(v)


CMP = {"eq": "==", "ne": "!=", "lt": "<", "lteq": "<=", "gt": ">", "gteq": ">=", "in": "in", "notin": "not in"}


def ux(e, names=None):
    """Unparse an expression, fully parenthesised where precedence could matter."""
    R = lambda n: (names or {}).get(n, n)
    k = e["k"]
    P = lambda x: "(" + ux(x, names) + ")" if x["k"] not in ("const", "name", "list", "dict", "getattr", "getitem", "call") \
        or (x["k"] == "const" and x["v"]["t"] == "int" and x["v"]["n"] < 0) else ux(x, names)
    if k == "const": return unparse_value(e["v"])
    if k == "name": return R(e["n"])
    if k == "list":
        inner = ", ".join(ux(x, names) for x in e["items"])
        if e.get("tup"):
            return "(" + inner + ("," if len(e["items"]) == 1 else "") + ")"
        return "[" + inner + "]"
    if k == "dict": return "{" + ", ".join(f"{ux(a, names)}: {ux(b, names)}" for a, b in zip(e["keys"], e["vals"])) + "}"
    if k == "bin": return f"{P(e['a'])} {e['op']} {P(e['b'])}"
    if k == "neg": return f"-{P(e['a'])}"
    if k == "pos": return f"+{P(e['a'])}"
    if k == "not": return f"not {P(e['a'])}"
    if k == "and": return f"{P(e['a'])} and {P(e['b'])}"
    if k == "or": return f"{P(e['a'])} or {P(e['b'])}"
    if k == "cmp": return P(e["a"]) + "".join(f" {CMP[o['op']]} {P(o['e'])}" for o in e["ops"])
    if k == "cond":
        s = f"{P(e['a'])} if {P(e['test'])}"
        if "b" in e: s += f" else {P(e['b'])}"
        return s
    if k == "concat": return " ~ ".join(P(x) for x in e["items"])
    if k == "getattr": return f"{P(e['a'])}.{e['n']}"
    if k == "getitem": return f"{P(e['a'])}[{ux(e['i'], names)}]"
    if k == "slice": return f"{P(e['a'])}[{ux(e['lo'], names) if 'lo' in e else ''}:{ux(e['hi'], names) if 'hi' in e else ''}]"
    if k == "call":
        # keyword names that address macro parameters are renamed with the parameters
        KW = lambda n: R(n) if n in ("p0", "p1") else n
        args = [ux(a, names) for a in e["args"]] + [f"{KW(n)}={ux(v, names)}" for n, v in zip(e["kwnames"], e["kwvals"])]
        return f"{P(e['f'])}({', '.join(args)})"
    if k == "filter":
        args = [ux(a, names) for a in e["args"]] + [f"{n}={ux(v, names)}" for n, v in zip(e.get("kwnames", []), e.get("kwvals", []))]
        return f"{P(e['a'])}|{e['n']}" + (f"({', '.join(args)})" if args else "")
    if k == "test":
        args = [ux(a, names) for a in e["args"]]
        return f"{P(e['a'])} is {'not ' if e.get('neg') else ''}{e['n']}" + (f"({', '.join(args)})" if args else "")
    raise ValueError(k)


def utarget(t, names=None):
    R = lambda n: (names or {}).get(n, n)
    if t["k"] == "name": return R(t["n"])
    if t["k"] == "nsattr": return f"{R(t['ns'])}.{t['attr']}"
    return ", ".join(utarget(x, names) for x in t["items"]) + ("," if len(t["items"]) == 1 else "")


def us(stmts, names=None, syn=None):
    """Unparse statements to Jinja source.  `names` consistently renames identifiers,
    `syn` = (block_start, block_end, var_start, var_end)."""
    bs, be, vs, ve = syn or ("{%", "%}", "{{", "}}")
    R = lambda n: (names or {}).get(n, n)
    X = lambda e: ("(" + ux(e, names) + ")") if e["k"] == "cond" else ux(e, names)
    T = lambda s: f"{bs} {s} {be}"
    out = []
    for st in stmts:
        k = st["k"]
        if k == "text": out.append(st["s"])
        elif k == "out": out.append(f"{vs} {X(st['e'])} {ve}")
        elif k == "if":
            for i, (t, b) in enumerate(zip(st["tests"], st["bodies"])):
                out.append(T(("if " if i == 0 else "elif ") + X(t)))
                out.append(us(b, names, syn))
            if "else" in st:
                out.append(T("else")); out.append(us(st["else"], names, syn))
            out.append(T("endif"))
        elif k == "for":
            h = f"for {utarget(st['target'], names)} in {X(st['iter'])}"
            if "filter" in st: h += f" if {X(st['filter'])}"
            if st.get("recursive"): h += " recursive"
            out.append(T(h)); out.append(us(st["body"], names, syn))
            if "else" in st:
                out.append(T("else")); out.append(us(st["else"], names, syn))
            out.append(T("endfor"))
        elif k == "set": out.append(T(f"set {utarget(st['target'], names)} = {X(st['e'])}"))
        elif k == "setblock":
            h = f"set {utarget(st['target'], names)}"
            if "filter" in st: h += f" | {st['filter']}"
            out.append(T(h)); out.append(us(st["body"], names, syn)); out.append(T("endset"))
        elif k == "with":
            out.append(T("with " + ", ".join(f"{R(n)} = {X(v)}" for n, v in zip(st["names"], st["vals"]))))
            out.append(us(st["body"], names, syn)); out.append(T("endwith"))
        elif k == "macro":
            nd = len(st["defaults"]); np_ = len(st["params"])
            ps = [R(p) if i < np_ - nd else f"{R(p)}={X(st['defaults'][i - (np_ - nd)])}" for i, p in enumerate(st["params"])]
            out.append(T(f"macro {R(st['name'])}({', '.join(ps)})")); out.append(us(st["body"], names, syn))
            out.append(T("endmacro"))
        elif k == "callblock":
            nd = len(st["defaults"]); np_ = len(st["params"])
            ps = [R(p) if i < np_ - nd else f"{R(p)}={X(st['defaults'][i - (np_ - nd)])}" for i, p in enumerate(st["params"])]
            args = [X(a) for a in st["args"]] + [f"{R(n) if n in ('p0', 'p1') else n}={X(v)}" for n, v in zip(st["kwnames"], st["kwvals"])]
            out.append(T(f"call{'(' + ', '.join(ps) + ')' if ps else ''} {X(st['f'])}({', '.join(args)})"))
            out.append(us(st["body"], names, syn)); out.append(T("endcall"))
        elif k == "filterblock":
            a = f"({', '.join(X(x) for x in st.get('args', []))})" if st.get("args") else ""
            out.append(T(f"filter {st['filter']}{a}")); out.append(us(st["body"], names, syn)); out.append(T("endfilter"))
        elif k == "autoescape":
            out.append(T(f"autoescape {X(st['e'])}")); out.append(us(st["body"], names, syn)); out.append(T("endautoescape"))
        elif k == "block":
            h = f"block {st['name']}" + (" scoped" if st["scoped"] else "") + (" required" if st["required"] else "")
            out.append(T(h)); out.append(us(st["body"], names, syn)); out.append(T("endblock"))
        elif k == "extends": out.append(T(f"extends {X(st['e'])}"))
        elif k == "include":
            h = f"include {X(st['e'])}"
            if st["ignore_missing"]: h += " ignore missing"
            h += " with context" if st["with_context"] else " without context"
            out.append(T(h))
        elif k == "import":
            out.append(T(f"import {X(st['e'])} as {R(st['target'])}" + (" with context" if st["with_context"] else " without context")))
        elif k == "fromimport":
            ns = ", ".join(n["n"] if n["n"] == n["as"] else f"{n['n']} as {R(n['as'])}" for n in st["names"])
            out.append(T(f"from {X(st['e'])} import {ns}" + (" with context" if st["with_context"] else " without context")))
        elif k == "do": out.append(T("do " + X(st["e"])))
        elif k == "break": out.append(T("break"))
        elif k == "continue": out.append(T("continue"))
        else: raise ValueError(k)
    return "".join(out)


# ---------------------------------------------------------------------------
# abstract data -> real Python objects
# ---------------------------------------------------------------------------

class PrivateError(Exception):
    """An exception class the engine knows nothing about (property C38)."""

    def __init__(self, fid):
        super().__init__(f"injected fault {fid}")
        self.fid = fid


FAULTS = {}


def fault(fid):
    """The unique exception object of fault `fid` for the current render."""
    if fid not in FAULTS:
        FAULTS[fid] = PrivateError(fid)
    return FAULTS[fid]


class Raiser:
    def __init__(self, exc, fid):
        self.exc, self.fid = exc, fid

    def fire(self, what):
        if self.exc == "Private":
            raise fault(self.fid)
        raise {"AttributeError": AttributeError, "KeyError": KeyError, "IndexError": IndexError,
               "TypeError": TypeError}[self.exc](what)


class TplRef:
    """Placeholder for a Template object in abstract data: resolved with resolve_tplrefs once the environment exists."""

    def __init__(self, name):
        self.name = name


def resolve_tplrefs(x, env):
    if isinstance(x, TplRef):
        return env.get_template(x.name)
    if isinstance(x, list):
        return [resolve_tplrefs(v, env) for v in x]
    if isinstance(x, tuple):
        return tuple(resolve_tplrefs(v, env) for v in x)
    if isinstance(x, dict):
        return {k: resolve_tplrefs(v, env) for k, v in x.items()}
    return x


class FaultyIter:
    """Iterable whose k-th step raises the private exception."""

    def __init__(self, items, k, fid):
        self.items, self.k, self.fid = items, k, fid

    def __iter__(self):
        for i, x in enumerate(self.items, 1):
            if i == self.k:
                raise fault(self.fid)
            yield x
        raise fault(self.fid)


class Probe:
    """Data object with separate attribute and item tables (attribute syntax must prefer
    attributes, subscript syntax items).  Entries may be Raisers: fetching them raises."""

    def __init__(self, oid, attrs, items, strval=None, boolval=None):
        object.__setattr__(self, "_jv_id", oid)
        object.__setattr__(self, "_jv_bool", boolval)
        object.__setattr__(self, "_jv_items", items)
        object.__setattr__(self, "_jv_araise", {k: v for k, v in attrs.items() if isinstance(v, Raiser)})
        object.__setattr__(self, "_jv_str", strval)
        for k, v in attrs.items():
            if not isinstance(v, Raiser):
                object.__setattr__(self, k, v)

    def __getattr__(self, name):
        ar = object.__getattribute__(self, "_jv_araise")
        if name in ar:
            ar[name].fire(name)
        raise AttributeError(name)

    def __getitem__(self, key):
        v = self._jv_items[key]
        if isinstance(v, Raiser):
            v.fire(key)
        return v

    def __str__(self):
        sv = self._jv_str
        if sv is None:
            return repr(self)
        if isinstance(sv, Raiser):
            sv.fire("__str__")
        return sv

    def __bool__(self):
        bv = self._jv_bool
        if bv is None:
            if isinstance(self, SizedProbe):
                return len(self) != 0          # what Python does for an object with __len__ and no __bool__
            return True
        if isinstance(bv, Raiser):
            bv.fire("__bool__")
        return bool(bv)

    def __repr__(self):
        return f"<Probe {self._jv_id}>"


class SizedProbe(Probe):
    """A Probe that also defines __len__ (given as a value or as a Raiser)."""

    def __len__(self):
        lv = object.__getattribute__(self, "_jv_len")
        if isinstance(lv, Raiser):
            lv.fire("__len__")
        return lv


class RecFn:
    def __init__(self, fid, mode, ret, log):
        self.fid, self.mode, self.ret, self.log = fid, mode, ret, log

    def __call__(self, *args, **kw):
        self.log.append(("call", self.fid, len(args), list(kw)))
        if self.mode == "raise_at":
            self.n = getattr(self, "n", 0) + 1
            if self.n == self.k:
                raise fault(self.fid)
            return args[0] if (self.then == "arg0" and args) else self.ret
        if self.mode == "stopiter":
            raise StopIteration()
        if self.mode == "const": return self.ret
        if self.mode == "arg0": return args[0] if args else self.ret
        if self.mode == "nargs": return len(args) + 10 * len(kw)
        raise AssertionError(self.mode)


class AsyncRecFn(RecFn):
    """The same callable as a coroutine function (property C09: data replaced by coroutine
    functions producing the same results)."""

    def __call__(self, *args, **kw):
        sup = super().__call__

        async def go():
            return sup(*args, **kw)
        return go()


def to_py(v, objs, log, cache=None, async_fns=False):
    from markupsafe import Markup
    cache = {} if cache is None else cache
    t = v["t"]
    if t == "int": return v["n"]
    if t == "float": return float_of(v)
    if t == "bool": return v["b"]
    if t == "none": return None
    if t == "str":
        s = seg_text(v["s"])
        return Markup(s) if v["m"] else s
    if t == "list":
        xs = [to_py(x, objs, log, cache, async_fns) for x in v["v"]]
        return tuple(xs) if v.get("tup") else xs
    if t == "dict":
        return {to_py(k, objs, log, cache, async_fns): to_py(x, objs, log, cache, async_fns) for k, x in zip(v["k"], v["v"])}
    if t == "obj":
        if v["id"] not in cache:
            o = objs[v["id"]]
            cache[v["id"]] = (SizedProbe if "len" in o else Probe)(v["id"], {k: to_py(x, objs, log, cache, async_fns) for k, x in o["attrs"].items()},
                                   {k: to_py(x, objs, log, cache, async_fns) for k, x in o["items"].items()},
                                   to_py(o["str"], objs, log, cache, async_fns) if "str" in o else None,
                                   to_py(o["bool"], objs, log, cache, async_fns) if "bool" in o else None)
            if "len" in o:
                object.__setattr__(cache[v["id"]], "_jv_len", to_py(o["len"], objs, log, cache, async_fns))
        return cache[v["id"]]
    if t == "fn":
        f = (AsyncRecFn if async_fns else RecFn)(v["id"], v["mode"], to_py(v["ret"], objs, log, cache, async_fns), log)
        f.k, f.then = v.get("k"), v.get("then")
        return f
    if t == "raiser":
        return Raiser(v["exc"], v["id"])
    if t == "tplobj":
        return TplRef(v["n"])
    if t == "iterfault":
        return FaultyIter([to_py(x, objs, log, cache, async_fns) for x in v["v"]], v["k"], v["id"])
    raise ValueError(t)


def expected_text(segs):
    from markupsafe import escape
    out = []
    for s in segs:
        t = s["a"]
        for _ in range(s["e"]):
            t = str(escape(t))
        out.append(t)
    return "".join(out)


ERRCLASS = {"UndefinedError": "UndefinedError", "TypeError": "TypeError", "ZeroDivisionError": "ZeroDivisionError",
            "TemplateRuntimeError": "TemplateRuntimeError", "TemplateNotFound": "TemplateNotFound",
            "TemplatesNotFound": "TemplateNotFound", "ValueError": "ValueError", "SecurityError": "SecurityError",
            "TemplateAssertionError": "TemplateAssertionError", "TemplateSyntaxError": "TemplateSyntaxError"}


def make_case(cid, tpls, main, datas, objs=None, undefined="default", globals_=None, **flags):
    autos = [t["auto"] for t in tpls.values()]
    has_ae = any(n.get("k") == "autoescape" for t in tpls.values() for n in walk(t["body"]))
    marks = any((n.get("k") == "filter" and n.get("n") == "safe") or (n.get("k") in ("setblock", "filterblock") and n.get("filter") == "safe")
                for t in tpls.values() for n in walk(t["body"]))
    case = {"id": cid, "tpls": tpls, "main": main, "datas": list(datas), "objs": objs or {},
            "globals": dict(GLOBALS, **(globals_ or {})),
            "cfg": {"undefined": undefined, "predeclare": flags.get("predeclare", True), "all_auto": all(autos) and not has_ae, "none_auto": not any(autos) and not has_ae},
            **({"tglobals": flags["tglobals"]} if flags.get("tglobals") else {}),
            **({"tglobals2": flags["tglobals2"]} if flags.get("tglobals2") else {}),
            "marks_safe": marks or any(v.get("m") for d in datas for v in walk(d) if isinstance(v, dict) and v.get("t") == "str"),
            "neutral": flags.get("neutral", False)}
    return case


# ---------------------------------------------------------------------------
# static annotation: names a scope level pre-declares (see spec/Jinja.tla, Predeclare)
# ---------------------------------------------------------------------------
# Jinja resolves names lexically: every name assigned at a scope level is a
# local of that level from the moment the level is entered.  If nothing in the
# enclosing levels refers to the name and the level itself assigns it before
# reading it, the local starts out *missing*, and nested scopes that read it
# before the assignment see an undefined value (not the context's value).
# `annotate` computes, per scope level, which names start out missing.  It is a
# purely syntactic pass over the abstract syntax (an independent transcription
# of the documented analysis, not a call into jinja2.idtracking).

class _Sym:
    def __init__(self, parent=None):
        self.parent = parent
        self.refs = {}      # name -> 'resolve' | 'alias' | 'undef' | 'param'
        self.stores = set()

    def find(self, name):
        s = self
        while s is not None:
            if name in s.refs:
                return s
            s = s.parent
        return None

    def copy(self):
        c = _Sym(self.parent)
        c.refs = dict(self.refs)
        c.stores = set(self.stores)
        return c

    def load(self, name):
        if self.find(name) is None:
            self.refs[name] = "resolve"

    def store(self, name):
        self.stores.add(name)
        if name not in self.refs:
            if self.parent is not None and self.parent.find(name) is not None:
                self.refs[name] = "alias"
            else:
                self.refs[name] = "undef"

    def param(self, name):
        self.stores.add(name)
        self.refs[name] = "param"

    def branch_update(self, branches):
        counts = {}
        for b in branches:
            for t in b.stores:
                if t in self.stores:
                    continue
                counts[t] = counts.get(t, 0) + 1
        for b in branches:
            self.refs.update(b.refs)
            self.stores.update(b.stores)
        for name, c in counts.items():
            if c == len(branches):
                continue
            if self.parent is not None and self.parent.find(name) is not None:
                self.refs[name] = "alias"
            else:
                self.refs[name] = "resolve"

    def undef_names(self):
        return sorted(n for n, k in self.refs.items() if k == "undef")


def _expr_loads(e, sym):
    for n in walk(e):
        if n.get("k") == "name" and "exp" not in n:
            sym.load(n["n"])


def _target_store(t, sym, as_param=False):
    if t["k"] == "name":
        (sym.param if as_param else sym.store)(t["n"])
    elif t["k"] == "nsattr":
        sym.load(t["ns"])
    else:
        for x in t["items"]:
            _target_store(x, sym, as_param)


def _level(stmts, sym):
    """FrameSymbolVisitor over the statements of one level."""
    for st in stmts:
        k = st["k"]
        if k == "out": _expr_loads(st["e"], sym)
        elif k == "set":
            _expr_loads(st["e"], sym); _target_store(st["target"], sym)
        elif k == "setblock": _target_store(st["target"], sym)
        elif k == "if":
            _if(st["tests"], st["bodies"], st.get("else"), sym)
        elif k == "for": _expr_loads(st["iter"], sym)
        elif k == "with":
            for v in st["vals"]: _expr_loads(v, sym)
        elif k == "macro": sym.store(st["name"])
        elif k == "callblock":
            _expr_loads(st["f"], sym)
            for a in st["args"] + st["kwvals"]: _expr_loads(a, sym)
        elif k == "filterblock":
            for a in st.get("args", []): _expr_loads(a, sym)
        elif k == "autoescape":
            pass      # a scope of its own (the extension wraps it in a Scope node); even the switch expression is loaded there
        elif k in ("extends", "include", "do"): _expr_loads(st["e"], sym)
        elif k == "import":
            _expr_loads(st["e"], sym); sym.store(st["target"])
        elif k == "fromimport":
            _expr_loads(st["e"], sym)
            for n in st["names"]: sym.store(n["as"])


def _if(tests, bodies, else_, sym):
    """visit_If: test, then three branch copies (body, all elif nodes in one copy, else)."""
    _expr_loads(tests[0], sym)
    body = sym.copy()
    _level(bodies[0], body)
    elif_ = sym.copy()
    for t, b in zip(tests[1:], bodies[1:]):
        _if([t], [b], None, elif_)
    els = sym.copy()
    _level(else_ or [], els)
    sym.branch_update([body, elif_, els])


def _nested(stmts, sym):
    """Analyse the nested scope levels of a level whose own symbols are complete."""
    for st in stmts:
        k = st["k"]
        if k == "if":
            for b in st["bodies"]: _nested(b, sym)
            if "else" in st: _nested(st["else"], sym)
        elif k == "autoescape":
            b = _Sym(sym)
            _expr_loads(st["e"], b)
            _level(st["body"], b)
            st["pre"] = b.undef_names()
            _nested(st["body"], b)
        elif k == "for":
            body = _Sym(sym)
            _target_store(st["target"], body, as_param=True)
            if st.get("recursive") or any(n.get("k") == "name" and n.get("n") == "loop" and "exp" not in n for n in walk(st["body"])):
                body.param("loop")
            _level(st["body"], body)
            st["pre_body"] = body.undef_names()
            _nested(st["body"], body)
            if "else" in st:
                els = _Sym(sym)
                _level(st["else"], els)
                st["pre_else"] = els.undef_names()
                _nested(st["else"], els)
        elif k == "with":
            w = _Sym(sym)
            for n in st["names"]: w.store(n)
            _level(st["body"], w)
            st["pre"] = [n for n in w.undef_names() if n not in st["names"]]
            _nested(st["body"], w)
        elif k in ("macro", "callblock"):
            m = _Sym(sym)
            for p in st["params"]: m.param(p)
            for d in st["defaults"]: _expr_loads(d, m)
            used = uses(st["body"], st["defaults"])
            _level(st["body"], m)
            for sp in ("caller", "kwargs", "varargs"):
                if sp in used and k == "macro": m.refs.setdefault(sp, "param")
            st["pre"] = m.undef_names()
            _nested(st["body"], m)
        elif k in ("setblock", "filterblock"):
            b = _Sym(sym)
            _level(st["body"], b)
            st["pre"] = b.undef_names()
            _nested(st["body"], b)
        elif k == "block":
            b = _Sym(None)
            _level(st["body"], b)
            st["pre"] = b.undef_names()
            _nested(st["body"], b)


def annotate(body):
    """Annotate a template body in place; returns the root level's pre-declared names."""
    root = _Sym(None)
    _level(body, root)
    _nested(body, root)
    return root.undef_names()
