"""Shared machinery of the sandbox checks C17-C20 (spec/Sandbox*.tla).

Only observation and plumbing lives here: probe data objects, tracer values,
logging environment subclasses (every override logs what super() decided and
returns it unchanged), the event recorder, and the batch runner that lets TLC
(SandboxTrace.tla) accept or reject the recorded traces.  No rule of the
sandbox is evaluated in Python: which attribute is forbidden, which method
mutates, which callable is unsafe is decided by the TLA+ modules.
"""
from __future__ import annotations

import asyncio
import collections
import json
import types

from . import core

# --------------------------------------------------------------------------
# projections
# --------------------------------------------------------------------------

def nm(name):
    """Attribute name -> the record SandboxRules expects (name + first two characters)."""
    if not isinstance(name, str):
        name = ""
    return {"n": name, "c1": name[:1], "c2": name[1:2]}


def kind_of(obj):
    """Python object -> object kind of SandboxRules.ObjKinds (a projection by type)."""
    if isinstance(obj, Probe):
        return "plain"
    if isinstance(obj, types.FunctionType):
        return "function"
    if isinstance(obj, types.MethodType):
        return "method"
    if isinstance(obj, type):
        return "type"
    if isinstance(obj, types.CodeType):
        return "code"
    if isinstance(obj, types.FrameType):
        return "frame"
    if isinstance(obj, types.TracebackType):
        return "traceback"
    if isinstance(obj, types.GeneratorType):
        return "generator"
    if isinstance(obj, types.CoroutineType):
        return "coroutine"
    if isinstance(obj, types.AsyncGeneratorType):
        return "asyncgen"
    t = type(obj)
    if t is list:
        return "list"
    if t is dict:
        return "dict"
    if t is set:
        return "set"
    if t is collections.deque:
        return "deque"
    if isinstance(obj, str):
        return "str"
    return "other"


class Recorder:
    def __init__(self):
        self.ev = []
        self.enabled = True
        self.nv = 0
        self.objs = {}       # id(obj) -> number
        self.keep = []       # keep registered objects alive (ids stay unique)
        self.callables = []  # recording callables, 1-based index

    def emit(self, e, o=0, k="", a="", v=0, how="", ok=False, s=""):
        if self.enabled:
            self.ev.append({"e": e, "o": o, "k": k, "a": nm(a), "v": v, "how": how, "ok": bool(ok), "s": s})

    def register(self, obj):
        self.keep.append(obj)
        self.objs[id(obj)] = len(self.keep)
        return len(self.keep)

    def num(self, obj):
        return self.objs.get(id(obj), 0)

    def callable_index(self, obj):
        """Number of a recording callable (0 = not one of ours).  Recorders of checks whose
        callables are told apart by more than the object itself (C18: a method by its
        receiver) override this."""
        return getattr(obj, "_jv_callable_index", 0)

    def new_value(self):
        self.nv += 1
        return self.nv


def vid(value):
    return value._tid if isinstance(value, Tracer) else 0


# --------------------------------------------------------------------------
# tracer values and probe objects
# --------------------------------------------------------------------------

class Tracer:
    """A value that logs every operation performed on it (`use` events)."""

    def __init__(self, rec):
        object.__setattr__(self, "_rec", rec)
        object.__setattr__(self, "_tid", rec.new_value())

    def _use(self, op):
        self._rec.emit("use", v=self._tid, s=op)

    def __repr__(self):   # used by error messages of the engine, not by templates
        return "<tracer>"

    def __str__(self):
        self._use("str")
        return f"TRACER{self._tid}"

    def __format__(self, spec):
        self._use("format")
        return f"TRACER{self._tid}"

    def __call__(self, *a, **kw):
        self._use("call")
        return None

    def __iter__(self):
        self._use("iter")
        return iter(())

    def __len__(self):
        self._use("len")
        return 0

    def __bool__(self):
        self._use("bool")
        return True

    def __getitem__(self, k):
        self._use("getitem")
        raise KeyError(k)

    def __getattr__(self, name):
        if name.startswith("_"):
            raise AttributeError(name)
        self._use("getattr")
        raise AttributeError(name)

    def __eq__(self, other):
        self._use("eq")
        return self is other

    def __ne__(self, other):
        self._use("eq")
        return self is not other

    def __hash__(self):
        self._use("hash")
        return id(self)

    def __int__(self):
        self._use("int")
        return 0

    def __float__(self):
        self._use("float")
        return 0.0


def _binop(name):
    def f(self, other):
        self._use(name)
        return 0
    return f


for _n in ("add", "radd", "sub", "rsub", "mul", "rmul", "truediv", "rtruediv", "floordiv", "rfloordiv",
           "mod", "rmod", "pow", "rpow"):
    setattr(Tracer, f"__{_n}__", _binop("arith"))
for _n in ("lt", "le", "gt", "ge"):
    def _cmp(self, other):
        self._use("cmp")
        return False
    setattr(Tracer, f"__{_n}__", _cmp)
for _n in ("neg", "pos"):
    def _un(self):
        self._use("arith")
        return 0
    setattr(Tracer, f"__{_n}__", _un)


class Probe:
    """A data object whose designated attribute names are served dynamically:
    every read is logged as a `fetch` event and yields a fresh tracer (or a
    fixed child object).  Which of the names are private is for the spec to say."""

    def __init__(self, rec, names, children=None):
        object.__setattr__(self, "_rec", rec)
        object.__setattr__(self, "_names", frozenset(names))
        object.__setattr__(self, "_children", dict(children or {}))
        object.__setattr__(self, "_num", rec.register(self))

    def __getattribute__(self, name):
        get = object.__getattribute__
        if name in get(self, "_names"):
            rec = get(self, "_rec")
            t = Tracer(rec)
            rec.emit("fetch", o=get(self, "_num"), k="plain", a=name, v=t._tid, how="attr")
            return t
        ch = get(self, "_children")
        if name in ch:
            get(self, "_rec").emit("fetch", o=get(self, "_num"), k="plain", a=name, v=0, how="attr")
            return ch[name]
        return get(self, name)

    def __repr__(self):
        return "<probe>"


class Sink:
    """`sink(x)` in a template: records what the access path produced."""

    def __init__(self, rec, empty_text=None):
        self.rec = rec
        self.empty_text = empty_text

    def __call__(self, x):
        from jinja2.runtime import Undefined

        self._one(x, Undefined)
        return ""

    def _one(self, x, Undefined):
        if isinstance(x, (list, tuple)) and type(x) in (list, tuple):
            for y in x:
                self._one(y, Undefined)
            return
        if isinstance(x, Undefined):
            got = "undef"
        elif isinstance(x, str) and self.empty_text is not None and str(x) == self.empty_text:
            got = "empty"
        else:
            got = "value"
        self.rec.emit("recv", v=vid(x), s=got)


# --------------------------------------------------------------------------
# logging environments
# --------------------------------------------------------------------------

def make_env(rec, immutable=False, policy="default", extra_base=None, deny=(), frozen=(), **kw):
    """A (Immutable)SandboxedEnvironment whose gate methods log super()'s decision."""
    from jinja2 import sandbox
    from jinja2.runtime import Undefined

    base = sandbox.ImmutableSandboxedEnvironment if immutable else sandbox.SandboxedEnvironment
    if extra_base is not None:
        base = extra_base(base)
    if policy == "denyname":
        class DenyByName(base):          # an application policy: an overridden safety check
            def is_safe_callable(self, obj):
                return super().is_safe_callable(obj) and getattr(obj, "__name__", "") != "denied"
        base = DenyByName
    elif policy == "denyobj":
        denied = deny          # the caller may fill the list after the environment exists

        class DenyByIdentity(base):      # an application policy: a deny list of objects
            def is_safe_callable(self, obj):
                return super().is_safe_callable(obj) and not any(obj is d for d in denied)
        base = DenyByIdentity
    elif policy == "denyrecv":
        locked = frozen        # receivers the application has frozen (the caller may fill / edit the list)

        class DenyByReceiver(base):      # an application policy that looks at what a method is bound to
            def is_safe_callable(self, obj):
                owner = getattr(obj, "__self__", None) if not isinstance(obj, Tracer) else None
                return super().is_safe_callable(obj) and not any(owner is d for d in locked)
        base = DenyByReceiver

    class LoggingEnv(base):
        def is_safe_attribute(self, obj, attr, value):
            ok = super().is_safe_attribute(obj, attr, value)
            rec.emit("gate", o=rec.num(obj), k=kind_of(obj), a=attr, v=vid(value), how="attr", ok=ok)
            return ok

        def is_safe_callable(self, obj):
            ok = super().is_safe_callable(obj)
            i = rec.callable_index(obj) if not isinstance(obj, Tracer) else 0
            if i:
                rec.emit("callgate", v=i, ok=ok)
            return ok

        def getattr(self, obj, attribute):
            rv = super().getattr(obj, attribute)
            rec.emit("deliver", o=rec.num(obj), k=kind_of(obj), a=attribute, v=vid(rv),
                     ok=not isinstance(rv, Undefined))
            return rv

        def getitem(self, obj, argument):
            rv = super().getitem(obj, argument)
            rec.emit("deliver", o=rec.num(obj), k=kind_of(obj), a=argument, v=vid(rv),
                     ok=not isinstance(rv, Undefined))
            return rv

    return LoggingEnv(**kw)


def render(env, src, ctx, is_async=False):
    """Render and classify the outcome; returns (outcome, text)."""
    try:
        t = env.from_string(src)
        if is_async:
            async def go():
                return await t.render_async(**ctx)
            out = asyncio.run(go())
        else:
            out = t.render(**ctx)
        return "ok", out
    except Exception as e:  # noqa
        return type(e).__name__, ""


# --------------------------------------------------------------------------
# TLC batch validation
# --------------------------------------------------------------------------

CFG_TRACE = """CONSTANTS
  Confs = {}
  MaxSteps = 0
  ModelKinds = {}
  ModelOps = {}
INIT TrInit
NEXT TrNext
CONSTRAINT Collect
INVARIANT TrInv
POSTCONDITION Post
"""


def _validate_batch(args):
    pid, label, bno, chunk_traces = args
    d = core.workdir(pid, f"{label}_{bno}")
    tf = d / "traces.json"
    tf.write_text(json.dumps(chunk_traces))
    r = core.run_tlc(pid, "SandboxTrace", CFG_TRACE, workers=1, env={"TRACE_FILE": str(tf)},
                     name=f"{label}_{bno}_tlc", timeout=3000)
    rej, stuck = None, {}
    for line in r.out.splitlines():
        if line.startswith('"{') and '\\"rejected\\"' in line:
            rej = json.loads(core._unescape_tla_string(line[1:-1]))["rejected"]
        elif line.startswith('<<"STUCK"'):
            t = core.parse_tla(line)
            stuck[t[1]] = t[2]
    if rej is None:
        raise core.MachineryError(f"SandboxTrace {label}: no result line in TLC output")
    return r, rej, stuck


def validate(ck, pid, traces, label, batch=4000, parallel=4):
    """code->spec: SandboxTrace.tla accepts or rejects every trace (batches are
    validated by concurrent single-worker TLC processes).
    Returns [(trace index, stuck event index or None)] of the rejected ones."""
    from concurrent.futures import ThreadPoolExecutor

    n = len(traces)
    if n == 0:
        return []
    size = min(batch, max(400, -(-n // parallel)))
    chunks = list(core.chunks(list(range(n)), size))
    jobs = [(pid, label, bno, [traces[i] for i in chunk]) for bno, chunk in enumerate(chunks)]
    with ThreadPoolExecutor(max_workers=parallel) as ex:
        results = list(ex.map(_validate_batch, jobs))
    rejected = []
    for (r, rej, stuck), chunk, job in zip(results, chunks, jobs):
        ck.add_tlc(r, f"SandboxTrace {label} batch {job[2]} ({len(chunk)} traces)")
        for idx in sorted(rej):
            rejected.append((chunk[idx - 1], stuck.get(idx)))
    return rejected


def conf_tla(env="sandbox", impl="abstract", policy="default", icept=(), multi=False):
    """multi: the environment serves several renders (SandboxGate.NewRender is enabled)"""
    return (f'[env |-> "{env}", impl |-> "{impl}", policy |-> "{policy}", '
            f'icept |-> {{{", ".join(core.tla_str(o) for o in icept)}}}, multi |-> {"TRUE" if multi else "FALSE"}]')


def gate_model(pid, name, confs, maxsteps, kinds, ops, invariants, **kw):
    """Model-check SandboxGate.tla (adversarial template) for a set of configurations."""
    d = core.workdir(pid, f"{name}_mc")
    mc = d / "MCSandboxGate.tla"
    mc.write_text(f"""---- MODULE MCSandboxGate ----
EXTENDS SandboxGate
MCConfs == {{{", ".join(confs)}}}
MCKinds == {core.tla_str(set(kinds))}
MCOps == {core.tla_str(set(ops))}
====
""")
    cfg = f"""CONSTANTS
  Confs <- MCConfs
  MaxSteps = {maxsteps}
  ModelKinds <- MCKinds
  ModelOps <- MCOps
SPECIFICATION Spec
""" + "".join(f"INVARIANT {i}\n" for i in invariants)
    return core.run_tlc(pid, "MCSandboxGate", cfg, extra_modules=[mc], name=name, **kw)


def require_cov(ck, r, actions):
    """Vacuity guard: like Check.require_coverage but sums the disjuncts of an action
    (TLC reports one line per disjunct of a definition)."""
    import re
    tot = {}
    for m in re.finditer(r"<(\w+) line \d+, col \d+ to line \d+, col \d+ of module \w+(?: \([\d ]+\))?>: (\d+):(\d+)",
                         r.out):
        tot[m.group(1)] = tot.get(m.group(1), 0) + int(m.group(3))
    # TLC prints coverage periodically: totals are only compared with zero
    missing = [a for a in actions if tot.get(a, 0) == 0]
    ck.extra.setdefault("actions_covered", {}).update({a: tot.get(a, 0) for a in actions})
    if missing:
        raise core.MachineryError(f"vacuous model: actions never taken: {missing}")


class Background:
    """Run fn(recorder) in a thread; `join` replays what it recorded on the real Check
    (Check is not thread-safe) and re-raises its exception."""

    class _Rec:
        def __init__(self, tier):
            self.tier = tier
            self.calls = []
            self.extra = {}

        def add_tlc(self, r, label, expect_ok=True):
            self.calls.append((r, label, expect_ok))

    def __init__(self, fn, ck):
        import threading
        self.ck = ck
        self.rec = Background._Rec(ck.tier)
        self.exc = None

        def body():
            try:
                fn(self.rec)
            except BaseException as e:  # noqa
                self.exc = e
        self.t = threading.Thread(target=body)
        self.t.start()

    def join(self):
        self.t.join()
        for r, label, expect_ok in self.rec.calls:
            self.ck.add_tlc(r, label, expect_ok)
        for k, v in self.rec.extra.items():
            if isinstance(v, dict):
                self.ck.extra.setdefault(k, {}).update(v)
            else:
                self.ck.extra[k] = v
        if self.exc is not None:
            raise self.exc


def load_own_findings(ck, pid):
    """findings.d/<pid>.json entries are this builder's known genuine defects; the
    maintainer merges them into known_findings.json -- until then make them visible."""
    f = core.VERIF / "findings.d" / f"{pid}.json"
    if not f.exists():
        return
    have = {k["id"] for k in ck._known}
    merged = {k["id"]: k for k in core.load_known()}
    for e in json.loads(f.read_text()):
        if e.get("property") != pid or e["id"] in have:
            continue
        if e["id"] in merged:          # known_findings.json wins (e.g. status fixed)
            continue
        if e.get("status") == "open":
            ck._known.append(e)
