"""Running abstract Jinja programs: through TLC on spec/Jinja.tla (the oracle)
and through the real jinja2 (the implementation)."""
from __future__ import annotations

import json

from . import core, jast

CFG = """SPECIFICATION Spec
INVARIANT C15_NoLeak
INVARIANT C16_ExactlyOnce
INVARIANT C15_TemplateTextVerbatim
INVARIANT C16_OffNeverEscapes
INVARIANT C03_WellFormed
INVARIANT C04_StackIsChainOrder
INVARIANT C29_Repeatable
INVARIANT C32_LookupsSyntactic
"""


def _ascii(x):
    """TLC keeps only the low byte of a character when it spills states to disk (large runs): text is opaque to
    the specification, so every non-ASCII character travels as the ASCII token @u{hex} and is restored afterwards."""
    if isinstance(x, str):
        return x if x.isascii() else "".join(c if ord(c) < 128 else "@u{%x}" % ord(c) for c in x)
    if isinstance(x, list):
        return [_ascii(v) for v in x]
    if isinstance(x, dict):
        return {_ascii(k): _ascii(v) for k, v in x.items()}
    return x


_TOKEN = __import__("re").compile(r"@u\{([0-9a-f]+)\}")


def _unascii(x):
    if isinstance(x, str):
        return _TOKEN.sub(lambda m: chr(int(m.group(1), 16)), x) if "@u{" in x else x
    if isinstance(x, list):
        return [_unascii(v) for v in x]
    if isinstance(x, dict):
        return {_unascii(k): _unascii(v) for k, v in x.items()}
    return x


MAX_CASES_PER_TLC_RUN = 2500


def spec_results(pid, cases, name="jinja", workers=16, timeout=1800, coverage=False):
    """TLC renders every (case, data) pair with the abstract interpreter.
    Returns ({(case id, data index): observable}, TLCResult).  Large case lists are split over several TLC
    runs (one run over ten thousand programs keeps every program in every state and drives the JVM into
    garbage-collection thrash); the returned TLCResult then carries the summed state counts, the joined
    output and the union of the violated invariants."""
    if len(cases) > MAX_CASES_PER_TLC_RUN:
        res, parts = {}, []
        for bi, part in enumerate(core.chunks(cases, MAX_CASES_PER_TLC_RUN)):
            o, r = spec_results(pid, part, f"{name}_p{bi}", workers, timeout, coverage)
            res.update(o)
            parts.append(r)
        tot = parts[-1]
        tot.generated = sum(p.generated for p in parts)
        tot.distinct = sum(p.distinct for p in parts)
        tot.wall = sum(p.wall for p in parts)
        tot.depth = max(p.depth for p in parts)
        tot.invariant_violated = sorted({i for p in parts for i in p.invariant_violated})
        tot.property_violated = any(p.property_violated for p in parts)
        tot.deadlock = any(p.deadlock for p in parts)
        tot.error = any(p.error for p in parts)
        tot.rc = max(p.rc for p in parts)
        tot.out = "\n".join(p.out for p in parts)
        return res, tot
    d = core.workdir(pid, name + "_cases")
    f = d / "cases.json"
    f.write_text(json.dumps(_ascii(cases)))
    r = core.run_tlc(pid, "Jinja", CFG, workers=workers, env={"CASES_FILE": str(f)}, name=name,
                     timeout=timeout, coverage=coverage, heap="8g", args=["-continue"])
    res = {}
    for line in set(r.printed()):
        try:
            o = json.loads(line)
        except json.JSONDecodeError:
            continue
        if isinstance(o, dict) and "id" in o and "d" in o:
            res[(o["id"], o["d"])] = _unascii(o)
    return res, r


def sources(case, names=None, syn=None):
    return {n: jast.us(t["body"], names, syn) for n, t in case["tpls"].items()}


def make_env(case, env_cls=None, names=None, syn=None, **opts):
    import jinja2
    from jinja2 import DictLoader

    srcs = sources(case, names, syn)
    autos = {n: t["auto"] for n, t in case["tpls"].items()}
    undefined = {"default": jinja2.Undefined, "chainable": jinja2.ChainableUndefined,
                 "strict": jinja2.StrictUndefined, "debug": jinja2.DebugUndefined}[case["cfg"]["undefined"]]
    cls = env_cls or jinja2.Environment
    kw = dict(loader=DictLoader(srcs), autoescape=lambda name: autos.get(name, False), undefined=undefined,
              extensions=["jinja2.ext.loopcontrols", "jinja2.ext.do"])
    if syn:
        kw.update(block_start_string=syn[0], block_end_string=syn[1], variable_start_string=syn[2],
                  variable_end_string=syn[3])
    kw.update(opts)
    if kw.get("autoescape") == "SELECT":
        kw["autoescape"] = jinja2.select_autoescape()
    env = cls(**kw)
    for g, v in case["globals"].items():
        if v["t"] != "builtin":
            env.globals[g] = jast.to_py(v, case["objs"], [], {})
    return env, srcs


class _AIter:
    """A re-iterable async iterable producing the items of a list."""

    def __init__(self, items):
        self.items = items

    def __aiter__(self):
        async def gen():
            for x in self.items:
                yield x
        return gen()


def _agen(items):
    return _AIter(items)


def real_render(case, di, env=None, names=None, how="render", async_fns=False, async_iters=False):
    """Render case's main template on data assignment #di (1-based) with real jinja2.
    Returns {"out": text or None, "err": class or "", "log": [...]}."""
    import asyncio

    if env is None:
        env, _ = make_env(case, names=names)
    log = []
    cache = {}
    jast.FAULTS.clear()
    R = lambda n: (names or {}).get(n, n)
    data = {R(k): jast.to_py(v, case["objs"], log, cache, async_fns) for k, v in case["datas"][di - 1].items()}
    if async_iters:
        data = {k: (_agen(v) if k.startswith("ag") and isinstance(v, list) else v) for k, v in data.items()}
    try:
        data = jast.resolve_tplrefs(data, env)
        if case.get("tglobals"):
            t = env.get_template(case["main"], globals={k: jast.to_py(v, case["objs"], log, cache) for k, v in case["tglobals"].items()})
        else:
            t = env.get_template(case["main"])
        if how == "render":
            out = t.render(**data)
        elif how == "generate":
            out = "".join(t.generate(**data))
        elif how == "stream":
            out = "".join(t.stream(**data))
        elif how == "render_async":
            out = asyncio.run(t.render_async(**data))
        elif how == "generate_async":
            async def go():
                return "".join([x async for x in t.generate_async(**data)])
            out = asyncio.run(go())
        else:
            raise ValueError(how)
        return {"out": out, "err": "", "log": log}
    except Exception as e:  # noqa
        name = type(e).__name__
        if isinstance(e, jast.PrivateError):
            # C38: the very exception object the data raised must come out
            name = "Raised:" + e.fid if e is jast.FAULTS.get(e.fid) else "Raised-different-object:" + e.fid
        else:
            for klass in type(e).__mro__:
                if klass.__name__ in jast.ERRCLASS:
                    name = jast.ERRCLASS[klass.__name__]
                    break
        return {"out": None, "err": name, "log": log, "exc": repr(e)[:300]}


def compare(obs, real):
    """None if the real result agrees with the spec's observable, else a description.
    'EXCLUDED' observables are not judged."""
    if obs["err"] == "EXCLUDED":
        return None
    if obs["err"]:
        if real["err"] != obs["err"]:
            return f"expected error {obs['err']}, got {real['err'] or repr(real['out'])} {real.get('exc', '')}"
        return None
    exp = jast.expected_text(obs["out"])
    if real["err"]:
        return f"expected output {exp!r}, got error {real['err']} {real.get('exc', '')}"
    if real["out"] != exp:
        return f"expected output {exp!r}, got {real['out']!r}"
    return None


# ---------------------------------------------------------------------------
# batch conformance: spec observables vs real renders under several variants
# ---------------------------------------------------------------------------

def _env_class(name):
    import jinja2
    import jinja2.sandbox
    return {"Environment": jinja2.Environment, "SandboxedEnvironment": jinja2.sandbox.SandboxedEnvironment,
            "ImmutableSandboxedEnvironment": jinja2.sandbox.ImmutableSandboxedEnvironment}[name]


def _work(args):
    """One case under all variants.  variant = dict(label, names=scheme dict or None, how, env_cls, opts, syn)."""
    core.use_repo()
    case, obs_by_d, variants = args
    mism, n, excluded = [], 0, 0
    for v in variants:
        try:
            env, srcs = make_env(case, env_cls=_env_class(v.get("env_cls", "Environment")), names=v.get("names"),
                                 syn=v.get("syn"), **v.get("opts", {}))
        except Exception as e:  # noqa
            mism.append({"case": case["id"], "d": 0, "variant": v["label"], "what": f"environment/unparse failed: {e!r}",
                         "machinery": True})
            continue
        for di, obs in obs_by_d.items():
            if obs["err"] == "EXCLUDED":
                excluded += 1
                continue
            real = real_render(case, di, env=env, names=v.get("names"), how=v.get("how", "render"),
                               async_fns=v.get("async_fns", False), async_iters=v.get("async_iters", False))
            n += 1
            if real["err"] in ("TemplateSyntaxError", "TemplateAssertionError") and obs["err"] != real["err"]:
                mism.append({"case": case["id"], "d": di, "variant": v["label"], "machinery": False,
                             "what": f"template did not compile: {real.get('exc')}", "src": srcs, "real": real["err"],
                             "expected": obs["err"] or jast.expected_text(obs["out"])})
                continue
            m = compare(obs, real)
            if m is not None:
                mism.append({"case": case["id"], "d": di, "variant": v["label"], "what": m, "src": srcs,
                             "data": case["datas"][di - 1], "expected": obs["err"] or jast.expected_text(obs["out"]),
                             "real": real["err"] or real["out"], "machinery": False})
    return mism, n, excluded


def conformance(ck, cases, obs, variants, fingerprint, procs=16, sample_every=400):
    """Compare real jinja2 with the spec's observables for every case x data x variant.
    `fingerprint(mismatch, case)` -> dict used for known-finding matching."""
    from concurrent.futures import ProcessPoolExecutor

    by_case = {}
    for (cid, di), o in obs.items():
        by_case.setdefault(cid, {})[di] = o
    jobs = [(c, by_case.get(c["id"], {}), variants) for c in cases]
    missing = [c["id"] for c in cases if len(by_case.get(c["id"], {})) != len(c["datas"])]
    if missing:
        raise core.MachineryError(f"TLC produced no observable for cases {missing[:5]} ({len(missing)} cases)")
    total = excl = 0
    cmap = {c["id"]: c for c in cases}
    with ProcessPoolExecutor(max_workers=procs) as ex:
        for i, (mism, n, e) in enumerate(ex.map(_work, jobs, chunksize=max(1, len(jobs) // (procs * 8)))):
            total += n
            excl += e
            for m in mism:
                case = cmap[m["case"]]
                rec = {"kind": "render", "case": case, "d": m["d"], "variant": m["variant"], "src": m.get("src"),
                       "expected": m.get("expected"), "real": m.get("real")}
                ck.violation(rec, f"[{m['variant']}] case {m['case']} data#{m['d']}: {m['what']} :: "
                                  f"{(m.get('src') or {}).get(case['main'], '')[:200]!r}",
                             fingerprint(m, case))
            if i % sample_every == 0 and jobs[i][1]:
                c = jobs[i][0]
                o = jobs[i][1][1]
                ck.sample({"template": sources(c), "data": c["datas"][0],
                           "spec_says": o["err"] or jast.expected_text(o["out"])})
    ck.traces += total
    ck.evaluations += total
    ck.extra["renders_compared"] = ck.extra.get("renders_compared", 0) + total
    ck.extra["excluded_by_spec"] = ck.extra.get("excluded_by_spec", 0) + excl
    return total
