import sys
from concurrent.futures import ThreadPoolExecutor
from . import core


def main():
    core.use_repo()
    import shutil
    d = core.workdir("_setup", "sany")
    mods = sorted(core.SPEC.glob("*.tla"))
    for f in mods:
        shutil.copy(f, d / f.name)
    bad = []
    with ThreadPoolExecutor(8) as ex:
        for f, (ok, out) in zip(mods, ex.map(lambda f: core.sany(d / f.name), mods)):
            if not ok:
                bad.append((f.name, out[-2000:]))
    # a JVM that fails to start on a loaded machine is not a syntax error: retry once, sequentially
    still = []
    for name, out in bad:
        ok, out2 = core.sany(d / name)
        if not ok:
            still.append((name, out2[-2000:]))
    bad = still
    for name, out in bad:
        print(f"SANY FAILED: {name}\n{out}")
    print(f"setup: {len(mods)} TLA+ modules parsed, {len(bad)} failed")
    return 1 if bad else 0


if __name__ == "__main__":
    sys.exit(main())
