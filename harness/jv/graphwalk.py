"""Walk a real system along every edge of a state graph exported by TLC.

The graph is a list of edges (dicts with "s": state before, "t": state after and
whatever else the spec printed); states are identified by their JSON text.  The
walker keeps one real system in step with the spec state, always continues from
where it is (nearest state with an unvisited outgoing edge, by BFS), and starts a
fresh real system from the initial state when the real system stopped
corresponding to a spec state or nothing unvisited is reachable.

Used by the cache checks (C25, C27); owns no semantics: `apply(real, edge, trail)`
is supplied by the check and says whether the real system still follows the spec.
"""
from __future__ import annotations

import json
from collections import deque


def key_of(st):
    return json.dumps(st, sort_keys=True)


class Graph:
    def __init__(self, edges, is_init):
        self.ids = {}
        self.out = []
        self.E = []
        for e in edges:
            s, t = self._nid(e["s"]), self._nid(e["t"])
            self.out[s].append(len(self.E))
            self.E.append((s, t, e))
        self.init = None
        for k, i in self.ids.items():
            if is_init(json.loads(k)):
                self.init = i
                break

    def _nid(self, st):
        k = key_of(st)
        i = self.ids.get(k)
        if i is None:
            i = self.ids[k] = len(self.out)
            self.out.append([])
        return i

    def shortest(self, src, dst):
        """edge indexes of a shortest path src -> dst, or None"""
        if src == dst:
            return []
        prev = {src: None}
        q = deque([src])
        while q:
            x = q.popleft()
            for ei in self.out[x]:
                y = self.E[ei][1]
                if y in prev:
                    continue
                prev[y] = (x, ei)
                if y == dst:
                    p = []
                    while prev[y] is not None:
                        x2, e2 = prev[y]
                        p.append(e2)
                        y = x2
                    p.reverse()
                    return p
                q.append(y)
        return None

    def step(self, node, pred):
        """the first outgoing edge of `node` whose record satisfies pred, as (edge index, record)"""
        for ei in self.out[node]:
            if pred(self.E[ei][2]):
                return ei, self.E[ei][2]
        return None, None


def walk(graph, make_real, apply, max_bad=3):
    """apply(real, edge_record, fresh) -> True when the real system followed the edge and still
    corresponds to the spec state; "resync" when it stopped corresponding for a reason the check
    accepts (the walk restarts from Init and never routes through that edge again); False when
    it diverged badly (counted, the walk stops after max_bad of them).
    Returns {"edges", "steps", "restarts", "unvisited", "bad"}."""
    G = graph
    if G.init is None:
        raise RuntimeError("initial state not in graph")
    todo = [list(reversed(x)) for x in G.out]
    remaining = len(G.E)
    stats = {"edges": 0, "steps": 0, "restarts": 0, "bad": 0}
    blocked = set()

    def path_to_work(src):
        if todo[src]:
            return []
        prev = {src: None}
        q = deque([src])
        while q:
            x = q.popleft()
            for ei in G.out[x]:
                y = G.E[ei][1]
                if y in prev or ei in blocked:
                    continue
                prev[y] = (x, ei)
                if todo[y]:
                    p = []
                    while prev[y] is not None:
                        x2, e2 = prev[y]
                        p.append(e2)
                        y = x2
                    p.reverse()
                    return p
                q.append(y)
        return None

    real = make_real()
    cur = G.init
    moved = False
    try:
        while remaining and stats["bad"] < max_bad:
            ok = True
            if not todo[cur]:
                p = path_to_work(cur)
                if p is None:
                    if not moved:
                        break           # what is left cannot be reached without a blocked edge
                    ok = None
                else:
                    for ei in p:
                        stats["steps"] += 1
                        moved = True
                        ok = apply(real, G.E[ei][2], False)
                        if ok is not True:
                            blocked.add(ei)
                            break
                        cur = G.E[ei][1]
            if ok is True:
                ei = todo[cur].pop()
                remaining -= 1
                stats["edges"] += 1
                stats["steps"] += 1
                moved = True
                ok = apply(real, G.E[ei][2], True)
                if ok is True:
                    cur = G.E[ei][1]
                else:
                    blocked.add(ei)
            if ok is not True:
                if ok is False:
                    stats["bad"] += 1
                real.close()
                real = make_real()
                cur = G.init
                moved = False
                stats["restarts"] += 1
    finally:
        real.close()
    stats["unvisited"] = remaining
    return stats
