"""Shared machinery of the filter checks C22 / C23 / C24.

Nothing in here knows what a filter is supposed to return: this module only
  * projects Python values to the tagged JSON encoding of spec/FVal.tla (enc) and
    back (dec, for replays),
  * drives the REAL jinja2 filters in every mode (rendered template / call_filter,
    sync / async environment, list / tuple / generator / async generator input),
  * hands the recorded observations to TLC (one-step traces validated by a
    *Trace.tla module) and reads back which records the specification rejects.
"""
from __future__ import annotations

import copy
import inspect
import json
from concurrent.futures import ThreadPoolExecutor

from . import core


# ---------------------------------------------------------------------------
# value encoding  (Python -> FVal JSON -> Python)
# ---------------------------------------------------------------------------

class Rec:
    """Plain object with attributes (the "o" values of FVal)."""

    def __init__(self, **kw):
        self.__dict__.update(kw)

    def __repr__(self):
        return "Rec(" + ", ".join(f"{k}={v!r}" for k, v in vars(self).items()) + ")"


def _codes(s):
    return [ord(c) for c in s]


_types = []


def _load_types():
    from markupsafe import Markup
    from jinja2.runtime import Undefined

    _types[:] = [Markup, Undefined]


def enc(v):
    if not _types:
        _load_types()
    Markup, Undefined = _types
    if isinstance(v, Undefined):
        return {"t": "u", "v": 0}
    if v is None:
        return {"t": "n", "v": 0}
    if isinstance(v, bool):
        return {"t": "b", "v": v}
    if isinstance(v, int):
        if abs(v) >= 2 ** 31:
            return {"t": "c", "v": "hugeint"}
        return {"t": "i", "v": v}
    if isinstance(v, Markup):
        return {"t": "m", "v": _codes(v)}
    if isinstance(v, str):
        return {"t": "s", "v": _codes(v)}
    if isinstance(v, Rec):
        return {"t": "o", "v": [[enc(k), enc(x)] for k, x in vars(v).items()]}
    if isinstance(v, dict):
        return {"t": "d", "v": [[enc(k), enc(x)] for k, x in v.items()]}
    if isinstance(v, (list, tuple)):
        return {"t": "l", "v": [enc(x) for x in v]}
    if isinstance(v, float):
        return {"t": "c", "v": "float:" + repr(v)}
    if isinstance(v, BaseException):
        return {"t": "x", "v": type(v).__name__}
    if hasattr(v, "__next__") or hasattr(v, "__anext__"):
        return {"t": "l", "v": [enc(x) for x in materialize(v)]}
    return {"t": "c", "v": "object:" + type(v).__name__}


def dec(e):
    from markupsafe import Markup

    t, v = e["t"], e["v"]
    if t == "i":
        return v
    if t == "b":
        return bool(v)
    if t == "n":
        return None
    if t == "u":
        from jinja2 import Undefined
        return Undefined()
    if t == "s":
        return "".join(map(chr, v))
    if t == "m":
        return Markup("".join(map(chr, v)))
    if t == "l":
        return [dec(x) for x in v]
    if t == "d":
        return {dec(k): dec(x) for k, x in v}
    if t == "o":
        return Rec(**{dec(k): dec(x) for k, x in v})
    raise core.MachineryError(f"cannot decode {e!r}")


def show(e):
    """Short human-readable form of an encoded value (messages only)."""
    t, v = e.get("t"), e.get("v")
    if t in ("s", "m"):
        r = repr("".join(map(chr, v)))
        return r if t == "s" else f"Markup({r})"
    if t == "l":
        return "[" + ", ".join(show(x) for x in v) + "]"
    if t in ("d", "o"):
        body = ", ".join(f"{show(k)}: {show(x)}" for k, x in v)
        return "{" + body + "}" if t == "d" else "obj{" + body + "}"
    if t == "n":
        return "None"
    if t == "u":
        return "Undefined"
    if t == "x":
        return f"raise {v}"
    return repr(v)


# ---------------------------------------------------------------------------
# driving coroutines / async generators without an event loop
# ---------------------------------------------------------------------------

def run_coro(coro):
    """Nothing the harness awaits ever suspends; drive the coroutine by hand."""
    try:
        coro.send(None)
    except StopIteration as e:
        return e.value
    coro.close()
    raise core.MachineryError("coroutine suspended on a real await")


async def _collect(ait):
    return [x async for x in ait]


def materialize(v):
    """Await awaitables and turn (async) iterators into lists."""
    if not _types:
        _load_types()
    if isinstance(v, _types[1]):        # Undefined is iterable, but it is a value
        return v
    if inspect.isawaitable(v):
        v = run_coro(_await(v))
        if isinstance(v, _types[1]):
            return v
    if hasattr(v, "__aiter__") and not isinstance(v, (list, tuple, str, dict)):
        return run_coro(_collect(v))
    if hasattr(v, "__next__"):
        return list(v)
    return v


async def _await(v):
    return await v


def as_kind(items, kind):
    """Present the item list as the container kind under test."""
    if kind == "list":
        return items
    if kind == "tuple":
        return tuple(items)
    if kind == "gen":
        return (x for x in items)
    if kind == "agen":
        async def agen():
            for x in items:
                yield x
        return agen()
    if kind == "raw":          # dict / str / Markup handed over unchanged
        return items
    raise core.MachineryError(kind)


# ---------------------------------------------------------------------------
# environments and the two ways of invoking a filter
# ---------------------------------------------------------------------------

class Driver:
    """Runs one filter invocation on the real code in a given mode."""

    def __init__(self, autoescape=False, env_kwargs=None):
        from jinja2 import Environment

        kw = dict(env_kwargs or {})
        self.envs = {
            "sync": Environment(autoescape=autoescape, **kw),
            "async": Environment(autoescape=autoescape, enable_async=True, **kw),
        }
        self.ctx = {k: e.from_string("").new_context() for k, e in self.envs.items()}
        self._tmpl = {}
        self.box = []

    def is_async_variant(self, name):
        f = self.envs["async"].filters[name]
        return bool(getattr(f, "jinja_async_variant", False))

    def template(self, envk, src):
        t = self._tmpl.get((envk, src))
        if t is None:
            t = self._tmpl[(envk, src)] = self.envs[envk].from_string(src)
        return t

    def via_template(self, envk, expr, variables):
        """{{ cap(<expr>) }} -- `cap` receives the filter result as a value."""
        box = []

        def cap(v):
            box.append(v)
            return ""

        t = self.template(envk, "{{ cap(" + expr + ") }}")
        ctx = dict(variables)
        ctx["cap"] = cap
        if envk == "async":
            run_coro(t.render_async(ctx))
        else:
            t.render(ctx)
        if len(box) != 1:
            raise core.MachineryError(f"capture saw {len(box)} values for {expr}")
        return box[0]

    def via_render(self, envk, src, variables):
        """Rendered text of a whole template."""
        t = self.template(envk, src)
        if envk == "async":
            return run_coro(t.render_async(dict(variables)))
        return t.render(dict(variables))

    def via_call(self, envk, name, value, args, kwargs):
        env = self.envs[envk]
        return env.call_filter(name, value, list(args), dict(kwargs), context=self.ctx[envk])


def observe(fn):
    """Run fn(); its value (materialised, encoded) or the exception class."""
    try:
        return enc(materialize(fn()))
    except core.MachineryError:
        raise
    except Exception as e:  # noqa
        return {"t": "x", "v": type(e).__name__}


# ---------------------------------------------------------------------------
# TLC validation of recorded observations
# ---------------------------------------------------------------------------

def pack(records):
    """Batch layout of spec/FTrace.tla: distinct values in a table, records refer to them by
    1-based index (pure sharing; keeps TLC's JsonDeserialize fast)."""
    table, vals = {}, []

    def ix(e):
        k = json.dumps(e, sort_keys=True, separators=(",", ":"))
        i = table.get(k)
        if i is None:
            vals.append(e)
            i = table[k] = len(vals)
        return i

    recs = []
    for r in records:
        recs.append({"f": r["f"], "name": r.get("name", ""), "inp": ix(r["inp"]), "inp2": ix(r["inp2"]),
                     "out": ix(r["out"]), "args": {k: ix(v) for k, v in r["args"].items()},
                     "args2": {k: ix(v) for k, v in r["args2"].items()},
                     "x": {k: ix(v) for k, v in r.get("x", {}).items()}})
    return {"vals": vals, "recs": recs}


def tlc_validate(ck, module, records, *, batch=6000, parallel=6, label=None, timeout=900, heap="2g"):
    """Validate `records` (JSON-able dicts) with spec/<module>.tla.  Returns
    [(record, why, expected_encoded)] for the records the spec rejects."""
    label = label or module
    if not records:
        return []
    parts = list(core.chunks(records, batch))

    def one(i_part):
        i, part = i_part
        d = core.workdir(ck.pid, f"{label}_{i}_in")
        tf = d / "recs.json"
        tf.write_text(json.dumps(pack(part), separators=(",", ":")))
        r = core.run_tlc(ck.pid, module, "SPECIFICATION Spec\n", workers=1, env={"TRACE_FILE": str(tf)},
                         name=f"{label}_{i}_tlc", timeout=timeout, heap=heap)
        lines = [ln for ln in r.printed() if ln.startswith('{"rejected"')]
        if not lines or r.distinct != len(part) + 1:
            raise core.MachineryError(
                f"{module}: batch {i} not fully consumed (states={r.distinct}, records={len(part)})")
        return i, r, json.loads(lines[-1])["rejected"]

    out = []
    with ThreadPoolExecutor(max_workers=parallel) as ex:
        results = list(ex.map(one, enumerate(parts)))
    for i, r, rejected in results:
        ck.add_tlc(r, f"{label} batch {i} ({len(parts[i])} records)")
        for rj in rejected:
            out.append((parts[i][rj["id"] - 1], rj["why"], rj.get("expected")))
    return out


def load_own_findings(ck, pid):
    """findings.d/<pid>.json entries are merged into known_findings.json by the
    maintainer; until then the check reads its own fragment so that the known
    defects print KNOWN-FINDING instead of VIOLATION."""
    f = core.VERIF / "findings.d" / f"{pid}.json"
    if not f.exists():
        return
    have = {k["id"] for k in ck._known}
    for e in json.loads(f.read_text()):
        if e.get("property") == pid and e.get("status") == "open" and e["id"] not in have:
            ck._known.append(e)


def fresh(x):
    return copy.deepcopy(x)
