"""Core of the verification harness: TLC runner, TLA+ value parser, evidence
writer, violation / known-finding reporting.

Everything a property check needs from the machinery lives here so that the
per-property modules (jv/props/cNN.py) only contain the binding between one
TLA+ specification and the real jinja2 code.
"""
from __future__ import annotations

import hashlib
import json
import os
import re
import shutil
import subprocess
import sys
import time
from pathlib import Path

VERIF = Path(__file__).resolve().parents[2]
SPEC = VERIF / "spec"
WORK = VERIF / ".work"
REPLAYS = VERIF / "replays"
REPO = Path(os.environ.get("JV_REPO", "/repo"))
# evidence describes runs against /repo itself; a run against another checkout (a seeded change under
# evaluation, JV_REPO=<worktree>) must not overwrite it
if REPO.resolve() != Path("/repo"):
    # ... and has a scratch directory of its own, so that it can run next to a check of /repo
    WORK = WORK / "other-checkout"
EVID = VERIF / "evidence" if REPO.resolve() == Path("/repo") else WORK / "evidence-other-checkout"
JAR = "/opt/veriftools/tla/tla2tools.jar:/opt/veriftools/tla/CommunityModules-deps.jar"


class MachineryError(Exception):
    """The verification machinery itself failed (exit code 2, never a verdict)."""


def use_repo():
    """Make `import jinja2` resolve to /repo's working tree."""
    src = str(REPO / "src")
    if src not in sys.path:
        sys.path.insert(0, src)
    sys.dont_write_bytecode = True
    import jinja2  # noqa

    if not os.path.realpath(jinja2.__file__).startswith(os.path.realpath(src)):
        raise MachineryError(f"jinja2 imported from {jinja2.__file__}, not {src}")
    return jinja2


# --------------------------------------------------------------------------
# TLC
# --------------------------------------------------------------------------

_SUMMARY = re.compile(
    r"(\d+) states generated, (\d+) distinct states found, (\d+) states left on queue"
)
_DEPTH = re.compile(r"The depth of the complete state graph search is (\d+)")


class TLCResult:
    def __init__(self, rc, out, wall):
        self.rc = rc
        self.out = out
        self.wall = wall
        m = None
        for m in _SUMMARY.finditer(out):
            pass
        self.generated = int(m.group(1)) if m else 0
        self.distinct = int(m.group(2)) if m else 0
        self.left = int(m.group(3)) if m else -1
        d = _DEPTH.search(out)
        self.depth = int(d.group(1)) if d else 0
        self.finished = "Model checking completed" in out or "Finished in" in out
        self.invariant_violated = re.findall(r"Invariant (\S+) is violated", out)
        self.property_violated = (
            "Temporal properties were violated" in out
            or re.search(r"Action property \S+ is violated", out) is not None
        )
        self.deadlock = "Deadlock reached" in out
        self.error = (
            "Error:" in out
            and not self.invariant_violated
            and not self.property_violated
            and not self.deadlock
        )

    @property
    def ok(self):
        return (
            self.rc == 0
            and not self.invariant_violated
            and not self.property_violated
            and not self.deadlock
            and not self.error
        )

    def printed(self):
        """Values printed with PrintT, one per line (strings are unquoted and
        unescaped so that PrintT(ToJson(x)) yields a JSON text per line)."""
        res = []
        for line in self.out.splitlines():
            if line.startswith('"') and line.endswith('"') and len(line) >= 2:
                res.append(_unescape_tla_string(line[1:-1]))
        return res

    def coverage(self):
        """Per-action counts from -coverage 1: {action: (distinct, total)}."""
        cov = {}
        for m in re.finditer(
            r"<(\w+) line \d+, col \d+ to line \d+, col \d+ of module \w+(?: \([\d ]+\))?>: (\d+):(\d+)",
            self.out,
        ):
            name, a, b = m.group(1), int(m.group(2)), int(m.group(3))
            # keep the last report (TLC prints coverage periodically)
            cov[name] = (a, b)
        return cov


def _unescape_tla_string(s):
    out = []
    i = 0
    while i < len(s):
        c = s[i]
        if c == "\\" and i + 1 < len(s):
            n = s[i + 1]
            out.append({"n": "\n", "t": "\t", "r": "\r", "f": "\f", '"': '"', "\\": "\\"}.get(n, "\\" + n))
            i += 2
        else:
            out.append(c)
            i += 1
    return "".join(out)


def workdir(pid, name="w", clean=True):
    d = WORK / pid / name
    if clean and d.exists():
        shutil.rmtree(d)
    d.mkdir(parents=True, exist_ok=True)
    return d


def run_tlc(
    pid,
    module,
    cfg_text=None,
    cfg_file=None,
    *,
    workers=16,
    env=None,
    args=(),
    timeout=900,
    name=None,
    coverage=False,
    deadlock=False,
    extra_modules=(),
    depth_first=False,
    heap="4g",
):
    """Run TLC on spec/<module>.tla with a configuration given as text (or a
    cfg file under spec/).  All of spec/*.tla is copied into a scratch
    directory so TLC's metadir and generated files never touch spec/."""
    d = workdir(pid, name or module)
    for f in SPEC.glob("*.tla"):
        shutil.copy(f, d / f.name)
    for f in extra_modules:
        shutil.copy(f, d / Path(f).name)
    cfg = d / f"{module}.cfg"
    if cfg_text is not None:
        cfg.write_text(cfg_text)
    elif cfg_file is not None:
        shutil.copy(SPEC / cfg_file, cfg)
    else:
        shutil.copy(SPEC / f"{module}.cfg", cfg)
    jopts = [f"-Xmx{heap}", "-Xss64m", "-XX:+UseParallelGC"]
    if depth_first:
        jopts.append("-Dtlc2.tool.queue.IStateQueue=StateDeque")
    cmd = (
        ["java"]
        + jopts
        + ["-cp", JAR, "tlc2.TLC", "-workers", str(workers), "-metadir", str(d / "meta"),
           "-noGenerateSpecTE", "-config", cfg.name]
    )
    if coverage:
        cmd += ["-coverage", "1"]
    if not deadlock:
        cmd += ["-deadlock"]  # -deadlock DISABLES deadlock checking
    cmd += list(args) + [f"{module}.tla"]
    e = dict(os.environ)
    e.pop("JAVA_TOOL_OPTIONS", None)
    if env:
        e.update({k: str(v) for k, v in env.items()})
    t0 = time.time()
    try:
        p = subprocess.run(cmd, cwd=d, env=e, capture_output=True, text=True, timeout=timeout)
    except subprocess.TimeoutExpired as ex:
        subprocess.run(["pkill", "-f", str(d / "meta")], check=False)
        raise MachineryError(f"TLC timed out after {timeout}s on {module}") from ex
    out = p.stdout + p.stderr
    (d / "tlc.out").write_text(out)
    r = TLCResult(p.returncode, out, time.time() - t0)
    r.dir = d
    if r.error or (p.returncode != 0 and not (r.invariant_violated or r.property_violated or r.deadlock)):
        errs = [l[:300] for l in out.splitlines() if l.startswith("Error:") or "Exception" in l or l.startswith("line ")]
        tail = "\n".join(errs[:12]) or "\n".join(l[:300] for l in out.splitlines()[-15:])
        raise MachineryError(f"TLC failed on {module} (rc={p.returncode}):\n{tail}")
    return r


def sany(path):
    p = subprocess.run(
        ["java", "-cp", JAR, "tla2sany.SANY", str(path)],
        capture_output=True, text=True, cwd=Path(path).parent,
    )
    out = p.stdout + p.stderr
    ok = p.returncode == 0 and "Semantic errors" not in out and "***Parse Error***" not in out \
        and "Fatal errors" not in out and "Could not" not in out
    return ok, out


# --------------------------------------------------------------------------
# TLA+ value parser (for -dump output, PrintT of non-string values, etc.)
# --------------------------------------------------------------------------

class TLAParser:
    """Parses the textual form TLC prints for values into Python:
    sequences <<..>> -> tuple, sets {..} -> frozenset, records [a |-> ..] ->
    dict, functions (a :> b @@ c :> d) -> dict, strings, ints, TRUE/FALSE,
    model values -> str."""

    def __init__(self, s):
        self.s = s
        self.i = 0

    def ws(self):
        while self.i < len(self.s) and self.s[self.i] in " \t\r\n":
            self.i += 1

    def peek(self, k=1):
        return self.s[self.i:self.i + k]

    def eat(self, tok):
        self.ws()
        if not self.s.startswith(tok, self.i):
            raise ValueError(f"expected {tok!r} at {self.i}: {self.s[self.i:self.i+40]!r}")
        self.i += len(tok)

    def value(self):
        self.ws()
        v = self.atom()
        self.ws()
        # function constructor chains  a :> b @@ c :> d
        if self.peek(2) == ":>":
            d = {}
            k = v
            while True:
                self.eat(":>")
                val = self.atom()
                d[k] = val
                self.ws()
                if self.peek(2) == "@@":
                    self.eat("@@")
                    k = self.atom()
                    self.ws()
                else:
                    break
            return d
        return v

    def atom(self):
        self.ws()
        c = self.peek()
        if self.peek(2) == "<<":
            self.i += 2
            items = []
            self.ws()
            if self.peek(2) == ">>":
                self.i += 2
                return tuple(items)
            while True:
                items.append(self.value())
                self.ws()
                if self.peek(2) == ">>":
                    self.i += 2
                    return tuple(items)
                self.eat(",")
        if c == "{":
            self.i += 1
            items = []
            self.ws()
            if self.peek() == "}":
                self.i += 1
                return frozenset()
            while True:
                items.append(_freeze(self.value()))
                self.ws()
                if self.peek() == "}":
                    self.i += 1
                    return frozenset(items)
                self.eat(",")
        if c == "[":
            self.i += 1
            d = {}
            self.ws()
            while True:
                self.ws()
                m = re.compile(r"[A-Za-z_0-9]+").match(self.s, self.i)
                key = m.group(0)
                self.i = m.end()
                self.eat("|->")
                d[key] = self.value()
                self.ws()
                if self.peek() == "]":
                    self.i += 1
                    return d
                self.eat(",")
        if c == "(":
            self.i += 1
            v = self.value()
            self.eat(")")
            return v
        if c == '"':
            j = self.i + 1
            buf = []
            while self.s[j] != '"':
                if self.s[j] == "\\":
                    buf.append(self.s[j:j + 2])
                    j += 2
                else:
                    buf.append(self.s[j])
                    j += 1
            self.i = j + 1
            return _unescape_tla_string("".join(buf))
        m = re.compile(r"-?\d+").match(self.s, self.i)
        if m:
            self.i = m.end()
            return int(m.group(0))
        m = re.compile(r"[A-Za-z_][A-Za-z_0-9]*").match(self.s, self.i)
        if m:
            self.i = m.end()
            w = m.group(0)
            if w == "TRUE":
                return True
            if w == "FALSE":
                return False
            return w
        raise ValueError(f"cannot parse at {self.i}: {self.s[self.i:self.i+40]!r}")


def _freeze(v):
    if isinstance(v, dict):
        return tuple(sorted(((k, _freeze(x)) for k, x in v.items()), key=repr))
    if isinstance(v, (list, tuple)):
        return tuple(_freeze(x) for x in v)
    return v


def parse_tla(s):
    p = TLAParser(s)
    v = p.value()
    return v


def parse_state(text):
    """Parse a conjunction `/\\ a = v /\\ b = w` into {a: v, b: w}."""
    p = TLAParser(text)
    st = {}
    while True:
        p.ws()
        if p.i >= len(p.s):
            break
        p.eat("/\\")
        p.ws()
        m = re.compile(r"[A-Za-z_][A-Za-z_0-9]*").match(p.s, p.i)
        name = m.group(0)
        p.i = m.end()
        p.eat("=")
        st[name] = p.value()
    return st


def parse_dot(path):
    """Parse TLC's `-dump dot,actionlabels` file.
    Returns (states: {id: dict}, edges: [(src, dst, label)], init_ids)."""
    states, edges, inits = {}, [], []
    txt = Path(path).read_text()
    node_re = re.compile(r'^(-?\d+) \[label="((?:[^"\\]|\\.)*)"(,style = filled)?')
    edge_re = re.compile(r'^(-?\d+) -> (-?\d+) \[label="((?:[^"\\]|\\.)*)",')
    for line in txt.splitlines():
        m = edge_re.match(line)
        if m:
            edges.append((m.group(1), m.group(2), m.group(3)))
            continue
        m = node_re.match(line)
        if m:
            lab = m.group(2).replace("\\n", "\n").replace('\\"', '"').replace("\\\\", "\\")
            states[m.group(1)] = parse_state(lab)
            if m.group(3):
                inits.append(m.group(1))
    return states, edges, inits


def parse_label(label):
    """'SetItem(k1, v1)' -> ('SetItem', ('k1', 'v1')); 'Clear' -> ('Clear', ())."""
    label = label.replace('\\"', '"')
    m = re.match(r"^(\w+)(?:\((.*)\))?$", label, re.S)
    if not m:
        raise ValueError(label)
    if m.group(2) is None:
        return m.group(1), ()
    args = parse_tla("<<" + m.group(2) + ">>")
    return m.group(1), tuple(args)


def shortest_paths(states, edges, inits):
    """BFS over a dumped state graph: {state id: [edge, ...] from an initial state}."""
    out = {}
    for e in edges:
        out.setdefault(e[0], []).append(e)
    paths = {i: [] for i in inits}
    frontier = list(inits)
    while frontier:
        nxt = []
        for s in frontier:
            for e in out.get(s, ()):
                if e[1] not in paths:
                    paths[e[1]] = paths[s] + [e]
                    nxt.append(e[1])
        frontier = nxt
    return paths, out


def tla_str(v):
    """Python value -> TLA+ expression text (for generated cfg/modules)."""
    if isinstance(v, bool):
        return "TRUE" if v else "FALSE"
    if isinstance(v, int):
        return str(v)
    if isinstance(v, str):
        return '"' + v.replace("\\", "\\\\").replace('"', '\\"') + '"'
    if isinstance(v, (list, tuple)):
        return "<<" + ", ".join(tla_str(x) for x in v) + ">>"
    if isinstance(v, (set, frozenset)):
        return "{" + ", ".join(tla_str(x) for x in sorted(v, key=repr)) + "}"
    if isinstance(v, dict):
        return "[" + ", ".join(f"{k} |-> {tla_str(x)}" for k, x in v.items()) + "]"
    raise TypeError(v)


# --------------------------------------------------------------------------
# Evidence / violations / known findings
# --------------------------------------------------------------------------

def load_known():
    f = VERIF / "known_findings.json"
    if not f.exists():
        return []
    return json.loads(f.read_text())["findings"]


class Check:
    """Book-keeping for one run of one property check."""

    def __init__(self, pid, tier, seed):
        self.pid = pid
        self.tier = tier
        self.seed = seed
        self.t0 = time.time()
        self.states = 0
        self.transitions = 0
        self.traces = 0
        self.evaluations = 0
        self.samples = []
        self.extra = {}
        self.assumptions = []
        self.violations = []
        self.known_hits = {}
        self.exhaustive = True
        self.tlc_runs = []
        self._known = [k for k in load_known() if k["property"] == pid and k.get("status") == "open"]
        self._printed = 0

    # -- model checking results
    def add_tlc(self, r: TLCResult, label, expect_ok=True):
        self.states += r.distinct
        self.transitions += r.generated
        self.tlc_runs.append(
            {"spec": label, "distinct_states": r.distinct, "states_generated": r.generated,
             "depth": r.depth, "wall_s": round(r.wall, 2)}
        )
        if expect_ok and not r.ok:
            self.violation(
                {"kind": "spec-invariant", "spec": label, "invariants": r.invariant_violated,
                 "tlc_tail": r.out.splitlines()[-60:]},
                f"TLC reports a violated property in {label}: {r.invariant_violated or 'temporal/deadlock'}",
            )

    def require_coverage(self, r: TLCResult, actions):
        cov = r.coverage()
        missing = [a for a in actions if cov.get(a, (0, 0))[1] == 0]
        self.extra.setdefault("actions_covered", {}).update(
            {a: cov.get(a, (0, 0))[1] for a in actions})
        if missing:
            raise MachineryError(f"vacuous model: actions never taken: {missing}")

    def sample(self, s, limit=5):
        if len(self.samples) < limit:
            self.samples.append(s)

    # -- violations
    def violation(self, case, what, fingerprint=None):
        """Record a violation.  `case` is a JSON-able description sufficient to
        replay; `fingerprint` is a dict matched against known_findings.json."""
        fp = fingerprint or {}
        for k in self._known:
            if _fp_match(k["fingerprint"], fp):
                kid = k["id"]
                if kid not in self.known_hits:
                    self.known_hits[kid] = {"count": 0, "what": k["description"], "example": case}
                self.known_hits[kid]["count"] += 1
                return False
        self.violations.append({"what": what, "case": case, "fingerprint": fp})
        if self._printed < 12:
            path = self._write_replay(case, what, fp)
            print(f"VIOLATION property={self.pid} replay={path}")
            print(f"  {what}"[:420])
            self._printed += 1
        return True

    def _write_replay(self, case, what, fp):
        d = REPLAYS / self.pid
        d.mkdir(parents=True, exist_ok=True)
        blob = json.dumps({"property": self.pid, "what": what, "case": case, "fingerprint": fp},
                          indent=1, sort_keys=True, default=repr)
        h = hashlib.sha1(blob.encode()).hexdigest()[:12]
        path = d / f"{h}.json"
        path.write_text(blob)
        return path

    # -- finish
    def finish(self):
        for kid, h in self.known_hits.items():
            print(f"KNOWN-FINDING: property={self.pid} {kid}: {h['what']} ({h['count']} case(s) this run)")
        cov = {
            "states": self.states,
            "transitions": self.transitions,
            "traces_validated_against_impl": self.traces,
            "samples": self.samples or ["(no sample recorded)"],
            "evaluations": self.evaluations,
            "exhaustive": bool(self.exhaustive),
            "tlc_runs": self.tlc_runs,
        }
        cov.update(self.extra)
        if self.known_hits:
            cov["known_findings_hit"] = {k: v["count"] for k, v in self.known_hits.items()}
        ev = {
            "property_id": self.pid,
            "tier": self.tier,
            "seed": self.seed,
            "level": "model_checking",
            "coverage": cov,
            "assumptions": self.assumptions,
            "wall_s": round(time.time() - self.t0, 2),
            "violations": len(self.violations),
        }
        EVID.mkdir(parents=True, exist_ok=True)
        (EVID / f"{self.pid}.json").write_text(json.dumps(ev, indent=1, default=repr) + "\n")
        n = len(self.violations)
        if n:
            groups = {}
            for v in self.violations:
                k = json.dumps(v["fingerprint"], sort_keys=True)
                groups[k] = groups.get(k, 0) + 1
            for k, c in sorted(groups.items(), key=lambda kv: -kv[1])[:15]:
                print(f"  violations with fingerprint {k}: {c}")
        print(
            f"{self.pid} [{self.tier}] states={self.states} transitions={self.transitions} "
            f"impl_cases={self.traces} violations={n} known={sum(v['count'] for v in self.known_hits.values())} "
            f"wall={ev['wall_s']}s"
        )
        return 1 if n else 0


def _fp_match(pattern, fp):
    """A known-finding fingerprint matches when every key of the pattern is
    present in the violation's fingerprint with an equal value (or, for list
    patterns, a member)."""
    for k, v in pattern.items():
        if k not in fp:
            return False
        if isinstance(v, list) and not isinstance(fp[k], list):
            if fp[k] not in v:
                return False
        elif fp[k] != v:
            return False
    return True


def chunks(seq, n):
    for i in range(0, len(seq), n):
        yield seq[i:i + n]
