"""Controlled thread scheduler (baton passing) for systematic exploration of
thread interleavings of real Python code.

* Exactly one worker thread runs at a time (the one holding the baton).
* Yield points are `line` trace events inside frames whose code object is in
  `traced_codes` (e.g. every line of every LRUCache method) and explicit calls
  to `Scheduler.yield_point()` (used by probe data objects).
* A cooperative lock (CoopLock) replaces real locks so that a thread blocked
  on a lock yields the baton instead of blocking the whole process.
* `explore()` enumerates all schedules up to a preemption bound by stateless
  depth-first search over the recorded choice points.
"""
from __future__ import annotations

import sys
import threading


class Deadlock(Exception):
    pass


class CoopLock:
    def __init__(self, sched):
        self.sched = sched
        self.holder = None

    def acquire(self, blocking=True, timeout=-1):
        tid = self.sched.me()
        if tid is None:  # not a scheduled thread (main thread, sequential use)
            if self.holder is not None:
                raise RuntimeError("CoopLock contended outside scheduler")
            self.holder = "main"
            return True
        while self.holder is not None:
            self.sched.block_on(tid, self)
        self.holder = tid
        return True

    def release(self):
        self.holder = None

    def locked(self):
        return self.holder is not None

    def __enter__(self):
        self.acquire()
        return self

    def __exit__(self, *a):
        self.release()
        return False


class Scheduler:
    def __init__(self, traced_codes=(), watchdog=20.0):
        self.traced = set(traced_codes)
        self.cv = threading.Condition()
        self.watchdog = watchdog
        self.reset()

    def reset(self):
        self.current = None
        self.state = {}
        self.blocked_on = {}
        self.ident = {}
        self.log = []  # (enabled tuple, chosen, running_before)
        self.failed = None

    # -- worker side
    def me(self):
        return self.ident.get(threading.get_ident())

    def _wait_turn(self, tid):
        with self.cv:
            while self.current != tid:
                if not self.cv.wait(self.watchdog):
                    self.failed = f"watchdog: thread {tid} never got the baton"
                    raise Deadlock(self.failed)

    def yield_point(self, tid=None):
        tid = self.me() if tid is None else tid
        if tid is None:
            return
        with self.cv:
            self.state[tid] = "ready"
            self.current = None
            self.cv.notify_all()
        self._wait_turn(tid)

    def block_on(self, tid, lock):
        with self.cv:
            self.state[tid] = "blocked"
            self.blocked_on[tid] = lock
            self.current = None
            self.cv.notify_all()
        self._wait_turn(tid)
        self.blocked_on.pop(tid, None)

    def _tracer(self, frame, event, arg):
        if frame.f_code in self.traced:
            return self._local
        return None

    def _local(self, frame, event, arg):
        if event == "line":
            self.yield_point()
        return self._local

    def _worker(self, tid, fn):
        self.ident[threading.get_ident()] = tid
        try:
            self._wait_turn(tid)
            if self.traced:
                sys.settrace(self._tracer)
            try:
                fn()
            finally:
                sys.settrace(None)
        except Deadlock:
            pass
        except BaseException as e:  # harness bug inside fn
            self.failed = f"worker {tid} crashed: {e!r}"
        finally:
            with self.cv:
                self.state[tid] = "done"
                if self.current == tid:
                    self.current = None
                self.cv.notify_all()

    # -- driver side
    def run(self, fns, prefix=()):
        """Run the thread bodies `fns` under the schedule `prefix` (then the
        default non-preemptive policy).  Returns the choice log."""
        self.reset()
        tids = list(range(len(fns)))
        for t in tids:
            self.state[t] = "ready"
        threads = [threading.Thread(target=self._worker, args=(t, fns[t]), daemon=True) for t in tids]
        for th in threads:
            th.start()
        running = None
        step = 0
        while True:
            with self.cv:
                while self.current is not None:
                    if not self.cv.wait(self.watchdog):
                        self.failed = "watchdog: running thread never yielded"
                        break
                if self.failed:
                    break
                enabled = tuple(
                    t for t in tids
                    if self.state[t] == "ready"
                    or (self.state[t] == "blocked" and self.blocked_on[t].holder is None)
                )
                if not enabled:
                    if all(self.state[t] == "done" for t in tids):
                        break
                    self.failed = "deadlock: no enabled thread"
                    break
                if step < len(prefix) and prefix[step] in enabled:
                    choice = prefix[step]
                elif step < len(prefix):
                    self.failed = f"schedule prefix infeasible at {step}"
                    break
                elif running in enabled:
                    choice = running
                else:
                    choice = enabled[0]
                self.log.append((enabled, choice, running))
                running = choice
                step += 1
                self.current = choice
                self.cv.notify_all()
        if self.failed:
            # release everybody so threads can exit
            with self.cv:
                self.watchdog = 0.01
                self.cv.notify_all()
            for th in threads:
                th.join(1.0)
            raise Deadlock(self.failed)
        for th in threads:
            th.join(5.0)
        return list(self.log)


def preemptions(log_prefix):
    n = 0
    for enabled, choice, running in log_prefix:
        if running is not None and running in enabled and choice != running:
            n += 1
    return n


def explore(run_once, bound, max_schedules=None):
    """Stateless DFS over schedules.  run_once(prefix) -> log (as returned by
    Scheduler.run).  Yields (prefix_used, log) for every explored schedule."""
    stack = [()]
    count = 0
    while stack:
        prefix = stack.pop()
        log = run_once(prefix)
        count += 1
        yield prefix, log
        if max_schedules and count >= max_schedules:
            return
        choices = [c for _, c, _ in log]
        for i in range(len(log) - 1, len(prefix) - 1, -1):
            enabled, chosen, running = log[i]
            for alt in enabled:
                if alt == chosen:
                    continue
                cand = log[:i] + [(enabled, alt, running)]
                if preemptions(cand) <= bound:
                    stack.append(tuple(choices[:i]) + (alt,))
