"""Shared machinery of the lexer checks C11 / C12 / C13 / C39.

Specifications: spec/Text.tla (characters, line breaks), spec/LexerRules.tla
(declarative layer: the documented rules, stated per tag occurrence of a
template given as PIECES) and spec/Lexer.tla (operational layer: a state
machine shaped like Lexer.tokeniter that only sees the flattened characters).

This module contains NO lexing / trimming semantics.  It
  * builds inputs (piece sequences, configurations) and hands them to TLC,
    either as a JSON batch (UseFile) or as a piece alphabet TLC grows itself,
  * reads what TLC prints for every finished case: the normalised source, the
    token stream as index ranges, the expected rendered text (declarative
    layer) -- TLC has already checked that both layers agree,
  * concretises abstract characters to real ones, drives the real jinja2
    (Environment.lex / from_string().render()) in worker processes and
    compares.
"""
from __future__ import annotations

import json
import multiprocessing as mp
import os
import zlib

from . import core

# --------------------------------------------------------------------------
# delimiter families (abstract characters of delimiters stand for themselves)
# --------------------------------------------------------------------------
FAMILIES = {
    "default": dict(bs="{%", be="%}", vs="{{", ve="}}", cs="{#", ce="#}"),
    # shared prefixes "<%" / "<%=" and "<", end delimiter shared by block and variable
    "asp": dict(bs="<%", be="%>", vs="<%=", ve="%>", cs="<!--", ce="-->"),
    # multi-character, all three starts share "[["
    "multi": dict(bs="[[%", be="%]]", vs="[[", ve="]]", cs="[[#", ce="#]]"),
    # block start is a prefix of the variable start
    "pct": dict(bs="{%", be="%}", vs="{%=", ve="%}", cs="{#", ce="#}"),
    # angle brackets
    "angle": dict(bs="<%", be="%>", vs="<<", ve=">>", cs="<#", ce="#>"),
    # neighbours of the default: exactly one delimiter differs (environments that differ in a single
    # lexer setting must not share a lexer)
    "d-bs": dict(bs="{@", be="%}", vs="{{", ve="}}", cs="{#", ce="#}"),
    "d-be": dict(bs="{%", be="@}", vs="{{", ve="}}", cs="{#", ce="#}"),
    "d-vs": dict(bs="{%", be="%}", vs="{$", ve="}}", cs="{#", ce="#}"),
    "d-ve": dict(bs="{%", be="%}", vs="{{", ve="$}", cs="{#", ce="#}"),
    "d-cs": dict(bs="{%", be="%}", vs="{{", ve="}}", cs="{*", ce="#}"),
    "d-ce": dict(bs="{%", be="%}", vs="{{", ve="}}", cs="{#", ce="*}"),
}
NEIGHBOURS = ("d-bs", "d-be", "d-vs", "d-ve", "d-cs", "d-ce")

NL = {"n": "\n", "r": "\r", "rn": "\r\n"}


FINALIZE_KINDS = ("plain", "env", "ctx", "evalctx")


def make_cfg(family="default", trim=False, lstrip=False, keep=False, nl="n", lsp="", lcp="", fin="", ae=False):
    """fin: the environment's finalize hook ("" = none, else how it is called, see finalize_hooks),
    ae: autoescape.  Both are rendering hooks for variable expressions (LexerRules!Printed)."""
    f = FAMILIES[family]
    name = f"{family}/t{int(trim)}l{int(lstrip)}k{int(keep)}/{nl}/{lsp}/{lcp}"
    if fin or ae:
        name += f"/f:{fin}/a{int(ae)}"
    c = {"name": name}
    for k, v in f.items():
        c[k] = list(v)
    c.update(lsp=list(lsp), lcp=list(lcp), trim=bool(trim), lstrip=bool(lstrip), keep=bool(keep), nl=list(nl),
             fin=fin, ae=bool(ae))
    return c


def env_options(cfg):
    """Abstract configuration -> keyword arguments of jinja2.Environment."""
    o = dict(
        block_start_string="".join(cfg["bs"]), block_end_string="".join(cfg["be"]),
        variable_start_string="".join(cfg["vs"]), variable_end_string="".join(cfg["ve"]),
        comment_start_string="".join(cfg["cs"]), comment_end_string="".join(cfg["ce"]),
        trim_blocks=cfg["trim"], lstrip_blocks=cfg["lstrip"],
        keep_trailing_newline=cfg["keep"], newline_sequence=NL["".join(cfg["nl"])],
        line_statement_prefix="".join(cfg["lsp"]) or None,
        line_comment_prefix="".join(cfg["lcp"]) or None,
    )
    # only when set (other checks pass these options on to Template(...) / overlay(...) as they are);
    # the finalize hook is named here and made by real_options in the process that uses it
    if cfg.get("fin"):
        o["finalize"] = cfg["fin"]
    if cfg.get("ae"):
        o["autoescape"] = True
    return o


_HOOKS = {}


def finalize_hooks():
    """The finalize hooks by the way jinja2 calls them.  Each puts the printed value in brackets
    (LexerRules!Printed), so a hook that is applied to anything but the result of a variable
    expression shows in the output."""
    if not _HOOKS:
        from jinja2 import pass_context, pass_environment, pass_eval_context

        def plain(value):
            return "[" + str(value) + "]"

        @pass_environment
        def env(environment, value):
            return "[" + str(value) + "]"

        @pass_context
        def ctx(context, value):
            return "[" + str(value) + "]"

        @pass_eval_context
        def evalctx(eval_ctx, value):
            return "[" + str(value) + "]"

        _HOOKS.update(plain=plain, env=env, ctx=ctx, evalctx=evalctx)
    return _HOOKS


def real_options(opts):
    """env_options(...) -> keyword arguments with the named finalize hook replaced by the callable."""
    o = dict(opts)
    if isinstance(o.get("finalize"), str):
        o["finalize"] = finalize_hooks()[o["finalize"]]
    return o


# --------------------------------------------------------------------------
# pieces
# --------------------------------------------------------------------------
def P(k, l="", r="", b="", i="", t=""):
    return {"k": k, "l": l, "r": r, "b": list(b), "i": list(i), "t": list(t)}


def text(b):
    return P("text", b=b)


SIGNS = ("", "-", "+")


def tag_pieces(bodies=None):
    """Every tag kind with every legal modifier combination ("+" is a syntax
    error on the right of a variable tag and of {% raw %}: excluded shape)."""
    bodies = bodies or {}
    out = []
    for l in SIGNS:
        for r in SIGNS:
            out.append(P("block", l, r, bodies.get("block", "_B_")))
            out.append(P("comment", l, r, bodies.get("comment", "_a_")))
            out.append(P("rawclose", l, r, bodies.get("rawclose", "_E_")))
            if r != "+":
                out.append(P("var", l, r, bodies.get("var", "_V_")))
                out.append(P("rawopen", l, r, bodies.get("rawopen", "_R_")))
    return out


def flat(piece, cfg):
    """Pure syntax: the characters of a piece (mirrors LexerRules!PieceFlat; used
    only by generators to avoid ill-formed inputs, never as an oracle)."""
    k = piece["k"]
    sg = lambda x: [x] if x else []
    if k == "text":
        return list(piece["b"])
    if k == "var":
        return cfg["vs"] + sg(piece["l"]) + piece["b"] + sg(piece["r"]) + cfg["ve"]
    if k == "comment":
        return cfg["cs"] + sg(piece["l"]) + piece["b"] + sg(piece["r"]) + cfg["ce"]
    if k == "lstmt":
        return piece["i"] + cfg["lsp"] + piece["b"] + piece["t"]
    if k == "lcomment":
        return piece["i"] + cfg["lcp"] + piece["b"]
    return cfg["bs"] + sg(piece["l"]) + piece["b"] + sg(piece["r"]) + cfg["be"]


# --------------------------------------------------------------------------
# concretisation of abstract characters
# --------------------------------------------------------------------------
_BASE = {"_": " ", "t": "\t", "v": "\x0b", "n": "\n", "r": "\r",
         "B": "set(v)=1", "V": "'V'", "R": "raw", "E": "endraw", "P": "V"}
VARIANTS = [
    dict(_BASE, a="a", w="\x0c"),
    dict(_BASE, a="x", w="\x85"),
    dict(_BASE, a="\xe9", w=" "),
    dict(_BASE, a="q", w="\x1c"),
]


def variant_of(raw):
    return zlib.crc32(raw.encode()) % len(VARIANTS)


def concretise(s, cmap):
    return "".join(cmap.get(ch, ch) for ch in s)


# --------------------------------------------------------------------------
# TLC side
# --------------------------------------------------------------------------
ALL_INVARIANTS = [
    "InputsWellFormed",
    "C11_NormalizeAgrees",
    "C11_PlainVerbatim",
    "C11_CommentsSilent",
    "C11_RawVerbatim",
    "C12_StructuredSourcesLex",
    "C12_OperationalEqualsDeclared",
    "C12_OnlyWhitespaceRemoved",
    "C12_VariableTagsUntouchedByOptions",
    "C39_LineAccurate",
    "C39_Lossless",
]


def _set(xs):
    return "{" + ", ".join(core.tla_str(x) for x in xs) + "}"


def run_lexer(pid, name, *, cases=None, cfgs=None, grow=None, invariants=ALL_INVARIANTS,
              emit=True, coverage=False, workers=16, timeout=3000, module="Lexer", extra_cfg=""):
    """Run TLC on the lexer specification.

    file mode:  cases = [{"ps": pieces, "c": index into cfgs (0-based), "st": bool, ...}], cfgs = [cfg]
    grow mode:  grow = dict(pieces=[...], cfgs=[...], max=n, structured=bool, plain=bool)
    Returns (TLCResult, [record per finished case]).
    """
    d = core.workdir(pid, name + "-in")
    env = {}
    if cases is not None:
        f = d / "cases.json"
        f.write_text(json.dumps({
            "cfgs": cfgs,
            "cases": [dict(c, c=c["c"] + 1,
                           alt=({"ps": c["alt"]["ps"], "c": c["alt"]["c"] + 1} if c.get("alt") else {"ps": [], "c": 0}))
                      for c in cases],
        }))
        env["LEXER_CASES"] = str(f)
        pieces, gcfgs, mx, st, plain, usefile = [], [], 0, True, False, True
    else:
        pieces, gcfgs, mx = grow["pieces"], grow["cfgs"], grow["max"]
        st, plain, usefile = grow.get("structured", True), grow.get("plain", False), False
    mc = d / f"MC{module}.tla"
    mc.write_text(
        f"---- MODULE MC{module} ----\nEXTENDS {module}\n"
        f"MCPieces == {_set(pieces)}\nMCCfgs == {_set(gcfgs)}\n====\n"
    )
    cfg = (
        "CONSTANTS\n"
        f"  UseFile = {core.tla_str(usefile)}\n  MaxPieces = {mx}\n"
        "  GrowPieces <- MCPieces\n  GrowCfgs <- MCCfgs\n"
        f"  GrowStructured = {core.tla_str(st)}\n  PlainOnly = {core.tla_str(plain)}\n"
        f"  Emit = {core.tla_str(bool(emit))}\n"
        "SPECIFICATION Spec\n" + "".join(f"INVARIANT {i}\n" for i in invariants) + extra_cfg
    )
    r = core.run_tlc(pid, f"MC{module}", cfg, workers=workers, env=env, name=name,
                     coverage=coverage, extra_modules=[mc], timeout=timeout)
    recs = []
    seen = set()
    for line in r.printed():
        if line in seen or not line.startswith("{"):
            continue
        seen.add(line)
        recs.append(json.loads(line))
    recs.sort(key=lambda x: (x["id"], x["cfg"], x["raw"]))
    if "InputsWellFormed" in r.invariant_violated:
        raise core.MachineryError(f"{name}: the generator produced an ill-formed piece sequence")
    return r, recs


# --------------------------------------------------------------------------
# real side (worker processes; jinja2 is imported from JV_REPO by the parent)
# --------------------------------------------------------------------------
_ENVS = {}


def _get_env(opts_items):
    e = _ENVS.get(opts_items)
    if e is None:
        from jinja2 import Environment
        e = _ENVS[opts_items] = Environment(**real_options(opts_items))
    return e


_OVERLAYS = {}
_BASE = []


def _get_overlay(opts_items):
    """The same configuration reached as an overlay of an environment that has already been used
    with different settings (C11 / C13: an overlay must lex by its own options)."""
    o = _OVERLAYS.get(opts_items)
    if o is None:
        from jinja2 import Environment
        if not _BASE:
            b = Environment(newline_sequence="\r\n", keep_trailing_newline=True, trim_blocks=True)
            b.from_string("x\n{% if 1 %}\ny{% endif %}\n").render()
            _BASE.append(b)
        try:
            o = _BASE[0].overlay(**{"newline_sequence": "\n", "keep_trailing_newline": False, "trim_blocks": False,
                                    **real_options(opts_items)})
        except TypeError:
            o = False
        _OVERLAYS[opts_items] = o
    return o


def _real_batch(items):
    """items: [(key, env options as sorted item tuple, source, want_render)]"""
    from jinja2 import TemplateSyntaxError
    out = []
    for key, opts, source, want_render in items:
        env = _get_env(opts)
        toks, err = [], None
        try:
            for t in env.lex(source):
                toks.append((t[0], t[1], t[2]))
        except TemplateSyntaxError as e:
            err = ["TemplateSyntaxError", e.lineno, e.message]
        except Exception as e:  # noqa
            err = [type(e).__name__, None, str(e)]
        rendered = None
        if want_render:
            try:
                rendered = env.from_string(source).render()
            except Exception as e:  # noqa
                rendered = ["raise", type(e).__name__, str(e)[:200]]
            ov = _get_overlay(opts)
            if ov and isinstance(rendered, str):
                try:
                    via = ov.from_string(source).render()
                except Exception as e:  # noqa
                    via = ["raise", type(e).__name__]
                if via != rendered:
                    rendered = ["overlay-of-used-environment-renders", via, "fresh environment renders", rendered]
        out.append((key, toks, err, rendered))
    return out


def real_run(items, procs=None, chunk=1500):
    """Run the real jinja2 over items in worker processes; returns {key: (toks, err, rendered)}."""
    if not items:
        return {}
    procs = procs or min(16, os.cpu_count() or 4)
    batches = list(core.chunks(items, chunk))
    res = {}
    if len(batches) == 1:
        for key, toks, err, rendered in _real_batch(batches[0]):
            res[key] = (toks, err, rendered)
        return res
    ctx = mp.get_context("fork")
    with ctx.Pool(min(procs, len(batches))) as pool:
        for part in pool.imap_unordered(_real_batch, batches):
            for key, toks, err, rendered in part:
                res[key] = (toks, err, rendered)
    return res


# --------------------------------------------------------------------------
# comparison of one finished spec case with the real engine
# --------------------------------------------------------------------------
STRUCT_TYPES = {
    "data", "whitespace", "comment", "linecomment",
    "block_begin", "block_end", "variable_begin", "variable_end", "comment_begin", "comment_end",
    "raw_begin", "raw_end", "linestatement_begin", "linestatement_end",
    "linecomment_begin", "linecomment_end",
}

ERR_KINDS = [
    ("Missing end of comment tag", "Missing end of comment tag"),
    ("Missing end of raw directive", "Missing end of raw directive"),
    ("unexpected char", "unexpected char"),
    ("unexpected '", "unexpected"),
]


def spec_tokens(rec, cmap):
    """Spec token ranges -> [(lineno, type, concrete value)]; runs of opaque
    tag-interior tokens ("atom") are merged into one ("atoms") entry."""
    src = rec["src"]
    out = []
    for ln, ty, s, e in rec["toks"]:
        val = concretise(src[s - 1:e - 1], cmap)
        if ty == "atom":
            if out and out[-1][1] == "atoms":
                out[-1] = (out[-1][0], "atoms", out[-1][2] + val)
            else:
                out.append((ln, "atoms", val))
        else:
            out.append((ln, ty, val))
    return out


def real_tokens(toks):
    """Project the real raw tokens: everything that is not a structural token
    (names, literals, operators inside a tag) is merged into "atoms" runs; the
    line numbers inside a run must all be equal (a run holds no line break)."""
    out = []
    bad_run = None
    for ln, ty, val in toks:
        if ty in STRUCT_TYPES:
            out.append((ln, ty, val))
        elif out and out[-1][1] == "atoms":
            if out[-1][0] != ln:
                bad_run = (out[-1][0], ln, val)
            out[-1] = (out[-1][0], "atoms", out[-1][2] + val)
        else:
            out.append((ln, "atoms", val))
    return out, bad_run


def classify_error(err):
    if err is None:
        return None
    if err[0] != "TemplateSyntaxError":
        return ("exception", err[0])
    for prefix, kind in ERR_KINDS:
        if err[2].startswith(prefix):
            return (kind, err[1])
    return ("other:" + err[2][:40], err[1])


def compare_tokens(rec, real, cmap):
    """-> None or (kind, message, details).  Kinds: tokens / lineno / error."""
    toks, err, _ = real
    exp = spec_tokens(rec, cmap)
    got, bad_run = real_tokens(toks)
    oc = rec["oc"]
    exp_err = None if oc[0] == "eof" else (oc[1], oc[2])
    got_err = classify_error(err)
    if bad_run:
        return ("lineno", f"line numbers differ inside one tag-interior run: {bad_run}", {"exp": exp, "got": got})
    if exp != got:
        n = min(len(exp), len(got))
        i = next((j for j in range(n) if exp[j] != got[j]), n)
        e_i = exp[i] if i < len(exp) else None
        g_i = got[i] if i < len(got) else None
        kind = "tokens"
        if e_i and g_i and e_i[1:] == g_i[1:]:
            kind = "lineno"
        return (kind, f"token #{i}: spec {e_i!r}, Environment.lex {g_i!r}", {"exp": exp, "got": got})
    if (exp_err is None) != (got_err is None):
        return ("error", f"spec outcome {oc!r}, real {err!r}", {"exp": exp, "got": got})
    if exp_err is not None and got_err is not None and exp_err[0] != got_err[0]:
        return ("error", f"spec outcome {oc!r}, real {err!r}", {"exp": exp, "got": got})
    return None


def error_lineno_drift(rec, real):
    oc = rec["oc"]
    if oc[0] == "eof" or real[1] is None:
        return None
    got = classify_error(real[1])
    if got and got[0] == oc[1] and got[1] != oc[2]:
        return {"spec": oc, "real": real[1]}
    return None


# --------------------------------------------------------------------------
# input generators (syntax only)
# --------------------------------------------------------------------------
TEXT_BODIES = ["a", "_", "n", "t", "w", "nn", "_n", "n_", "rn", "r", "a_", "__", "_t", "n_t", "an", "-", "+"]
TAG_BODIES = {
    "block": ["_B_", "B", "_nB_", "wB_n", "_B"],
    "var": ["_V_", "V", "n_V", "_V_n_"],
    "rawopen": ["_R_", "R", "nR_"],
    "rawclose": ["_E_", "E", "_En"],
}


def comment_bodies(cfg):
    """Comment bodies with delimiter look-alikes (never the comment end, never
    ending in a modifier character)."""
    j = "".join
    bs, be, vs, ve, cs = j(cfg["bs"]), j(cfg["be"]), j(cfg["vs"]), j(cfg["ve"]), j(cfg["cs"])
    out = ["_a_", "", "a", "_an_", "n", "_" + bs + "_B_" + be + "_", vs + "a", "a" + ve + "_", cs + "_a", "a-_", "a+a", "_na_n"]
    ce = j(cfg["ce"])
    return [b for b in out
            if ce not in b + ce[:-1] and not b.startswith(("-", "+")) and not b.endswith(("-", "+"))]


def raw_lookalikes(cfg):
    """Text for raw bodies that looks like tags but is not the endraw tag."""
    j = "".join
    bs, be, vs, ve, cs, ce = (j(cfg[k]) for k in ("bs", "be", "vs", "ve", "cs", "ce"))
    # (never the bare word endraw: start + "endraw" + end pieces would assemble a real endraw tag)
    return [bs + "_Ea_" + be, bs, be, vs, ve, cs, ce, bs + "-", "R", bs + "_aE_" + be]


def gen_structured(rng, cfg, n, rich=True, raw_text_only=False):
    """A random well-formed piece sequence of about n pieces for cfg."""
    ps = []
    in_raw = False
    cb = comment_bodies(cfg)
    look = raw_lookalikes(cfg)
    while len(ps) < n or in_raw:
        closing = in_raw and (len(ps) >= n or rng.random() < 0.35)
        x = rng.random()
        if closing:
            p = P("rawclose", rng.choice(SIGNS), rng.choice(SIGNS),
                  rng.choice(TAG_BODIES["rawclose"]) if rich else "_E_")
            in_raw_next = False
        elif x < 0.42 or (in_raw and raw_text_only):
            body = rng.choice(TEXT_BODIES if rich else ["a", "_", "n"])
            if in_raw and rich and not raw_text_only and rng.random() < 0.3:
                body = rng.choice(look)
            p = text(body)
            in_raw_next = in_raw
        else:
            kind = rng.choice(["block", "block", "comment", "comment", "var", "var", "rawopen"])
            l = rng.choice(SIGNS)
            r = rng.choice(SIGNS if kind in ("block", "comment") else ("", "-"))
            if kind == "comment":
                b = rng.choice(cb) if rich else "_a_"
                if b == "" and (l or r or raw_text_only or cfg["ce"][0] in "-+"):
                    # ("<!--" + "-->" would read as "<!---" "->")
                    b = "_"
            else:
                b = rng.choice(TAG_BODIES[kind]) if rich else TAG_BODIES[kind][0]
            p = P(kind, l, r, b)
            in_raw_next = in_raw or kind == "rawopen"
        if ps:
            f, g = flat(ps[-1], cfg), flat(p, cfg)
            if f and g and f[-1] == "r" and g[0] == "n":
                continue
        ps.append(p)
        in_raw = in_raw_next
    return ps


def ends_ws(ps, cfg):
    f = [ch for p in ps for ch in flat(p, cfg)]
    return bool(f) and f[-1] in "_tvwnr"


def at_line_start(ps, cfg):
    f = [ch for p in ps for ch in flat(p, cfg)]
    return not f or f[-1] in "nr"


def gen_line_structured(rng, cfg, n):
    """Piece sequences for configurations with line statement / line comment
    prefixes: ordinary pieces plus whole-line statements and line comments.
    Shapes the documentation does not determine are not generated: a line
    statement followed by a blank line, a line tag right after whitespace that
    a '-' modifier removed, whitespace in front of a mid-line line comment."""
    ps = []
    in_raw = False
    while len(ps) < n or in_raw:
        if in_raw:
            if rng.random() < 0.5:
                ps.append(text(rng.choice(["a", "_", "n", "an_"])))
            else:
                ps.append(P("rawclose", rng.choice(SIGNS), rng.choice(SIGNS), "_E_"))
                in_raw = False
            continue
        prev_dash = False
        for q in reversed(ps):
            if q["k"] == "text" and all(ch in "_tvwnr" for ch in q["b"]):
                continue
            prev_dash = q["k"] not in ("text", "lstmt", "lcomment") and q["r"] == "-"
            break
        x = rng.random()
        if x < 0.25 and cfg["lsp"] and at_line_start(ps, cfg) and not prev_dash:
            last = len(ps) >= n - 1 and rng.random() < 0.3
            ps.append(P("lstmt", b=rng.choice(["_B", "B", "_B_", "tB"]), i=rng.choice(["", "", "__", "t", "_v"]),
                        t="" if last else rng.choice(["n", "n", "_n", "rn"])))
            if last:
                break
            # next line must not be blank
            ps.append(text(rng.choice(["a", "a_", "an"])) if rng.random() < 0.6 else
                      P("block", rng.choice(["", "+"]), rng.choice(SIGNS), "_B_"))
        elif x < 0.45 and cfg["lcp"] and not prev_dash and (at_line_start(ps, cfg) or not ends_ws(ps, cfg)):
            indent = rng.choice(["", "__", "t"]) if at_line_start(ps, cfg) else ""
            ps.append(P("lcomment", b=rng.choice(["_a", "", "a_a", "_" + "".join(cfg["bs"]) + "_a"]), i=indent))
            ps.append(text(rng.choice(["n", "na", "n_", "rn"])))
        elif x < 0.7:
            ps.append(text(rng.choice(["a", "_", "n", "an", "n_", "a_", "nn"])))
        else:
            kind = rng.choice(["block", "comment", "var", "rawopen"])
            l = rng.choice(SIGNS)
            r = rng.choice(SIGNS if kind in ("block", "comment") else ("", "-"))
            ps.append(P(kind, l, r, {"block": "_B_", "comment": "_a_", "var": "_V_", "rawopen": "_R_"}[kind]))
            in_raw = kind == "rawopen"
        if len(ps) >= 2:
            f, g = flat(ps[-2], cfg), flat(ps[-1], cfg)
            if f and g and f[-1] == "r" and g[0] == "n":
                ps.pop()
    return ps


PLAIN_ALPHABET = ["a", "_", "t", "v", "w", "n", "r", "rn", "{", "%", "#", "}", "-", "+", "<", ">", "[", "]", "!", "=", "&"]


def gen_plain(rng, cfg, n):
    """A random text of n characters without any delimiter start of cfg."""
    starts = ["".join(cfg[k]) for k in ("bs", "vs", "cs", "lsp", "lcp") if cfg[k]]
    while True:
        s = "".join(rng.choice(PLAIN_ALPHABET) for _ in range(n))
        if not any(d in s for d in starts):
            return s
