"""Helpers for C36 (owned by the C36/C37 builder).

1. `Extractor`: transliterates the Python code that jinja2 *generates* for a set
   of templates (env.compile(raw=True) -> ast) and the handful of runtime helpers
   that open async generators (Template.generate_async / render_async /
   make_module_async / _get_default_module_async, BlockReference._async_call,
   and the adapter of loop data auto_aiter, read with inspect.getsource) into the small statement language that
   spec/AsyncGen.tla interprets:

     yield | pt | if a b | many body | open var fn | afor var body orelse g
     | try body handlers fin | aclose var | coro body | ret | raise | reraise
     | break | continue | chunk

   This is a syntactic projection only (which statements open / iterate / close
   which generator function, where the yields and the data await points are);
   what these statements *mean* - suspension, GeneratorExit, unwinding through
   try/finally, what stays suspended - is defined in TLA+ and decided by TLC.

2. `Runner`: drives real jinja2 async renders by hand (coroutine.send/throw, no
   event loop, so sys.set_asyncgen_hooks stays ours), records every async
   generator through the firstiter hook and snapshots generator states at every
   point where control is back in the driver.
"""
from __future__ import annotations

import ast
import asyncio
import gc
import inspect
import re
import sys
import textwrap
import warnings

MAX_REC = 2   # the harness' tree data recurses once (templates guard the call with {% if n.c %})
PEEK_ATTRS = {"length", "revindex", "revindex0", "last", "nextitem"}


class Unmodelled(Exception):
    """The generated code has a shape the projection does not cover."""


class DeadBranch(Exception):
    """The branch being projected cannot run with the data the harness uses
    (e.g. the hand-off to a parent template that a false condition never loads)."""


def _has_yield(fn):
    """Does this function definition contain a yield of its own (not in nested defs)?"""
    todo = list(fn.body)
    while todo:
        n = todo.pop()
        if isinstance(n, (ast.Yield, ast.YieldFrom)):
            return True
        if isinstance(n, (ast.FunctionDef, ast.AsyncFunctionDef, ast.Lambda)):
            continue
        todo.extend(ast.iter_child_nodes(n))
    return False


def _name(n):
    return n.id if isinstance(n, ast.Name) else None


def _attr_call(n, attr):
    """n is Call(Attribute(x, attr), ...) -> x else None"""
    if isinstance(n, ast.Call) and isinstance(n.func, ast.Attribute) and n.func.attr == attr:
        return n.func.value
    return None


def _strip_undefined_guard(n):
    """(undefined(name='m') if l_0_m is missing else l_0_m) -> l_0_m"""
    if isinstance(n, ast.IfExp) and isinstance(n.orelse, ast.Name):
        return n.orelse
    return n


class Scope:
    def __init__(self, ctx, tmpl, qual, parent=None):
        self.ctx, self.tmpl, self.qual = ctx, tmpl, qual
        p = parent
        self.gens = dict(p.gens) if p else {}          # local name -> (qualname, def)  nested async generators
        self.coros = dict(p.coros) if p else {}        # local name -> (qualname, def)
        self.macrovars = dict(p.macrovars) if p else {}  # variable -> (qualname, def, scope)
        self.tmplvars = dict(p.tmplvars) if p else {}  # variable -> template name
        self.supervars = dict(p.supervars) if p else {}  # variable -> block name
        self.selfvars = set(p.selfvars) if p else set()
        self.modvars = dict(p.modvars) if p else {}    # variable -> template name (imported module)
        self.impmacros = dict(p.impmacros) if p else {}  # variable -> (template, macro name)
        self.bound = dict(p.bound) if p else {}        # runtime helpers: expression text -> fn key
        self.inline = list(p.inline) if p else []      # ids of coroutine defs being inlined
        self.filtered_loops = set(p.filtered_loops) if p else set()
        self.vsuffix = p.vsuffix if p else ""          # inlined coroutine activations have their own locals
        self.datanames = set(p.datanames) if p else set()  # parameters of a runtime helper that hold loop *data*

    def v(self, name):
        return name + self.vsuffix

    def child(self, qual=None):
        s = Scope(self.ctx, self.tmpl, qual or self.qual, self)
        return s


class Extractor:
    def __init__(self, env, templates, data=None):
        """`data`: the variables the harness renders with; used only to name the template a
        dynamic `extends` / `include` expression denotes and to decide whether a conditional
        extends is taken (the structure of a render with dynamic targets depends on them)."""
        from jinja2 import nodes

        self.env = env
        self.templates = templates
        self.data = data or {}
        self.tree = {}
        self.parent = {}
        self.defines = {}
        self.topfuncs = {}
        for name, src in templates.items():
            code = env.compile(src, name, name, raw=True)
            self.tree[name] = ast.parse(code)
            jt = env.parse(src)
            ext = list(jt.find_all(nodes.Extends))
            self.parent[name] = None
            if ext:
                if len(ext) != 1:
                    raise Unmodelled("more than one extends")
                e = ext[0]
                if isinstance(e.template, nodes.Const) and isinstance(e.template.value, str):
                    target = e.template.value
                elif isinstance(e.template, nodes.Name) and isinstance(self.data.get(e.template.name), str):
                    target = self.data[e.template.name]
                else:
                    raise Unmodelled("extends target is neither a constant nor a variable of the harness data")
                if e in jt.body:
                    self.parent[name] = target
                else:
                    # {% if v %}{% extends .. %}{% endif %}: taken iff the harness' value of v is true
                    conds = [i for i in jt.body if isinstance(i, nodes.If) and e in i.body
                             and isinstance(i.test, nodes.Name) and i.test.name in self.data and not i.elif_]
                    if len(conds) != 1:
                        raise Unmodelled("extends nested in something else than a top-level {% if name %}")
                    self.parent[name] = target if self.data[conds[0].test.name] else None
            self.defines[name] = [b.name for b in jt.find_all(nodes.Block)]
            self.topfuncs[name] = {f.name: f for f in self.tree[name].body if isinstance(f, ast.AsyncFunctionDef)}
        self.funcs = {}
        self.macro_export = {}
        self.anon = 0
        self.sites = []
        # runtime helpers, read from the source of the checkout under test
        from jinja2.environment import Template
        from jinja2.runtime import BlockReference

        self.rt = {}
        for cls, meth in ((Template, "generate_async"), (Template, "render_async"), (Template, "make_module_async"),
                          (Template, "_get_default_module_async"), (BlockReference, "_async_call")):
            fn = inspect.unwrap(getattr(cls, meth))
            src = textwrap.dedent(inspect.getsource(fn))
            d = ast.parse(src).body[0]
            if not isinstance(d, ast.AsyncFunctionDef):
                raise Unmodelled(f"{cls.__name__}.{meth} is not an async function")
            self.rt[meth] = d
        self.read_adapter()

    # -- the adapter between loop data and `async for` ------------------------
    def read_adapter(self):
        """`async for x in auto_aiter(DATA)` / `AsyncLoopContext(DATA, ..)`: what does the adaptation of
        loop data open?  Read from the checkout under test: `auto_aiter` is either itself an async
        generator function, or a plain function each of whose `return`s hands back either a call of an
        async generator function of its module (an engine generator per loop: alternative "gen") or
        something else (the data's own async iterator, an object with an `__anext__` coroutine:
        alternative "data" = what the statement language writes as `many [pt next ..]`).  Which
        alternative a given piece of data takes is data nondeterminism (`if` in the spec)."""
        import jinja2.runtime as rtm

        self.adapter_defs = {}
        self.adapter_alts = ["data"]
        self.loopctx_adapts = True
        fn = inspect.unwrap(getattr(rtm, "auto_aiter"))
        try:
            mod = ast.parse(inspect.getsource(inspect.getmodule(fn)))
            d = next(n for n in mod.body if isinstance(n, (ast.FunctionDef, ast.AsyncFunctionDef)) and n.name == fn.__name__)
        except (OSError, TypeError, StopIteration):
            raise Unmodelled("auto_aiter: source not available")
        agens = {n.name: n for n in mod.body if isinstance(n, ast.AsyncFunctionDef) and _has_yield(n)}
        if isinstance(d, ast.AsyncFunctionDef):
            if not _has_yield(d):
                raise Unmodelled("auto_aiter is a coroutine function")
            self.adapter_defs[d.name] = d
            self.adapter_alts = [d.name]
        else:
            alts = []
            for r in [n for n in ast.walk(d) if isinstance(n, ast.Return)]:
                v = r.value
                a = v.func.id if isinstance(v, ast.Call) and isinstance(v.func, ast.Name) and v.func.id in agens else "data"
                if a not in alts:
                    alts.append(a)
                if a != "data":
                    self.adapter_defs[a] = agens[a]
            self.adapter_alts = alts or ["data"]
        # AsyncLoopContext adapts its iterable with the same function (else: its data is iterated as it is)
        try:
            lsrc = textwrap.dedent(inspect.getsource(rtm.AsyncLoopContext._to_iterator))
            self.loopctx_adapts = any(isinstance(n, ast.Call) and _name(n.func) == "auto_aiter" for n in ast.walk(ast.parse(lsrc)))
        except (OSError, TypeError, AttributeError):
            raise Unmodelled("AsyncLoopContext._to_iterator: source not available")

    def need_adapter(self, sc, name):
        k = f"{sc.ctx}|rt:{name}"
        if k not in self.funcs:
            self.funcs[k] = None
            d = self.adapter_defs[name]
            inner = Scope(sc.ctx, sc.tmpl, f"rt:{name}")
            inner.datanames = {a.arg for a in d.args.args}
            self.funcs[k] = {"agen": True, "short": f"rt:{name}", "body": self.body(d.body, inner)}
        return k

    def data_loop(self, sc, body, orelse, adapted):
        """A loop over *data*: each __anext__ is a data await point (one more ends the loop); if the
        adapter can put an engine generator between the data and the loop, that is the other branch."""
        plain = [{"op": "many", "body": [{"op": "pt", "k": "next"}] + body}, {"op": "pt", "k": "next"}] + orelse
        if not adapted or sc.qual.startswith("rt:"):
            return plain
        out = None
        for a in reversed(self.adapter_alts):
            if a == "data":
                alt = plain
            else:
                fn = self.need_adapter(sc, a)
                var = self.fresh()
                self.sites.append({"fn": fn, "in": self.key(sc.ctx, sc.tmpl, sc.qual), "g": False, "how": "adapter"})
                alt = [{"op": "open", "var": var, "fn": fn},
                       {"op": "afor", "var": var, "body": body, "orelse": orelse, "g": False}]
            out = alt if out is None else [{"op": "if", "a": alt, "b": out}]
        return out

    # -- inheritance ------------------------------------------------------
    def chain(self, ctx):
        out, t = [], ctx
        while t is not None:
            if t in out:
                raise Unmodelled("cyclic extends")
            if t not in self.templates:
                raise Unmodelled(f"unknown template {t!r}")
            out.append(t)
            t = self.parent[t]
        return out

    def block_stack(self, ctx, name):
        return [t for t in self.chain(ctx) if name in self.defines[t]]

    # -- function table -----------------------------------------------------
    def key(self, ctx, tmpl, qual):
        return f"{ctx}|{tmpl}:{qual}"

    def need_top(self, ctx, tmpl, fname):
        k = self.key(ctx, tmpl, fname)
        if k not in self.funcs:
            d = self.topfuncs[tmpl].get(fname)
            if d is None:
                raise Unmodelled(f"{tmpl} has no function {fname}")
            self.funcs[k] = None  # recursion guard
            sc = Scope(ctx, tmpl, fname)
            body = self.body(d.body, sc)
            self.funcs[k] = {"agen": _has_yield(d), "short": f"{tmpl}:{fname}", "body": body}
        return k

    def need_nested(self, sc, local):
        qual, d, dsc = sc.gens[local]
        k = self.key(sc.ctx, sc.tmpl, qual)
        if k not in self.funcs:
            self.funcs[k] = None
            inner = dsc.child(qual)
            body = self.body(d.body, inner)
            self.funcs[k] = {"agen": True, "short": f"{sc.tmpl}:{qual}", "body": body}
        return k

    def need_rt(self, meth, ctx, target):
        """A runtime helper that is an async *generator* (generate_async), bound to a template."""
        k = f"{ctx}|env:{meth}"
        if k not in self.funcs:
            self.funcs[k] = None
            d = self.rt[meth]
            sc = Scope(ctx, ctx, meth)
            sc.bound["self.root_render_func"] = target
            self.funcs[k] = {"agen": _has_yield(d), "short": f"env:{meth}", "body": self.body(d.body, sc)}
        return k

    def inline_rt(self, meth, sc, binding):
        d = self.rt[meth]
        if id(d) in sc.inline and meth != "make_module_async":
            return []
        inner = sc.child()
        inner.bound = dict(binding)
        inner.inline = sc.inline + [id(d)]
        self.anon += 1
        inner.vsuffix = f"@{self.anon}"
        return [{"op": "coro", "body": self.body(d.body, inner)}]

    # -- generator-creating calls ---------------------------------------------
    def gen_call(self, n, sc):
        """If expression n creates one of the engine's async generators, return its fn key."""
        if not isinstance(n, ast.Call):
            return None
        f = n.func
        if isinstance(f, ast.Name) and f.id in sc.gens:
            return self.need_nested(sc, f.id)
        txt = ast.unparse(f)
        if txt in sc.bound:
            return sc.bound[txt]
        # context.blocks['a'][0](...)
        if (isinstance(f, ast.Subscript) and isinstance(f.value, ast.Subscript)
                and ast.unparse(f.value.value) == "context.blocks"
                and isinstance(f.value.slice, ast.Constant) and isinstance(f.slice, ast.Constant)):
            name, idx = f.value.slice.value, f.slice.value
            st = self.block_stack(sc.ctx, name)
            if idx >= len(st):
                raise Unmodelled("block index out of range")
            return self.need_top(sc.ctx, st[idx], f"block_{name}")
        if isinstance(f, ast.Attribute) and f.attr == "root_render_func":
            v = _name(f.value)
            if v == "parent_template":
                p = self.parent[sc.tmpl]
                if p is None:
                    raise DeadBranch("no parent template is loaded with the harness data")
                return self.need_top(sc.ctx, p, "root")
            if v in sc.tmplvars:
                t = sc.tmplvars[v]
                return self.need_top(t, t, "root")
            raise Unmodelled(f"root_render_func of unknown template variable {ast.unparse(f.value)}")
        return None

    def template_of(self, n, sc):
        """Template name denoted by an expression (environment.get_template('x', ..) or a variable)."""
        if isinstance(n, ast.Call) and ast.unparse(n.func) in ("environment.get_template",
                                                               "environment.get_or_select_template",
                                                               "environment.select_template"):
            a = _strip_undefined_guard(n.args[0])
            if isinstance(a, ast.Constant) and isinstance(a.value, str):
                return a.value
            if isinstance(a, ast.Name):  # a variable of the harness data
                m = re.match(r"l_\d+_(\w+)$", a.id)
                if m and isinstance(self.data.get(m.group(1)), str):
                    return self.data[m.group(1)]
            return None
        if isinstance(n, ast.Name):
            if n.id == "self" and "self" in sc.bound:
                return sc.bound["self"]
            return sc.tmplvars.get(n.id)
        return None

    # -- expressions ----------------------------------------------------------
    def pts(self, n, sc):
        """Abstract statements for evaluating expression n (evaluation order)."""
        out = []
        if n is None:
            return out
        if isinstance(n, ast.Await):
            return self.await_(n, sc)
        if isinstance(n, ast.ListComp) and any(g.is_async for g in n.generators):
            g = n.generators[0]
            fn = self.gen_call(g.iter, sc)
            if len(n.generators) != 1 or g.ifs:
                raise Unmodelled("complex async comprehension")
            if fn is not None:
                v = self.fresh()
                self.sites.append({"fn": fn, "in": self.key(sc.ctx, sc.tmpl, sc.qual), "g": False, "how": "comprehension"})
                return [{"op": "open", "var": v, "fn": fn},
                        {"op": "afor", "var": v, "body": [], "orelse": [], "g": False}]
            return self.pts(g.iter, sc) + [{"op": "many", "body": [{"op": "pt", "k": "next"}]}, {"op": "pt", "k": "next"}]
        if isinstance(n, (ast.Lambda, ast.FunctionDef, ast.AsyncFunctionDef)):
            return out
        if isinstance(n, ast.IfExp):
            a, b = self.pts(n.body, sc), self.pts(n.orelse, sc)
            out = self.pts(n.test, sc)
            if a or b:
                out.append({"op": "if", "a": a, "b": b})
            return out
        if isinstance(n, ast.BoolOp):
            vals = [self.pts(v, sc) for v in n.values]
            out = vals[0]
            for v in vals[1:]:
                if v:
                    out.append({"op": "if", "a": v, "b": []})
            return out
        if isinstance(n, ast.Yield):
            raise Unmodelled("yield used as a sub-expression")
        for c in ast.iter_child_nodes(n):
            if isinstance(c, ast.expr) or isinstance(c, (ast.keyword, ast.comprehension)):
                out += self.pts(c, sc) if isinstance(c, ast.expr) else self.pts_misc(c, sc)
        return out

    def pts_misc(self, c, sc):
        out = []
        for x in ast.iter_child_nodes(c):
            if isinstance(x, ast.expr):
                out += self.pts(x, sc)
        return out

    def fresh(self):
        self.anon += 1
        return f"_it{self.anon}"

    def await_(self, n, sc):
        v = n.value
        # await X.aclose()
        x = _attr_call(v, "aclose")
        if x is not None and isinstance(x, ast.Name):
            return [{"op": "aclose", "var": sc.v(x.id)}]
        # module creation helpers
        for meth in ("_get_default_module_async", "make_module_async"):
            x = _attr_call(v, meth)
            if x is not None:
                out = []
                for a in v.args:
                    out += self.pts(a, sc)
                t = self.template_of(x, sc)
                if t is None:
                    raise Unmodelled(f"{meth} on a template the projection cannot name")
                if t not in self.templates:
                    raise Unmodelled(f"unknown template {t!r}")
                root = self.need_top(t, t, "root")
                return out + self.inline_rt(meth, sc, {"self.root_render_func": root, "self": t})
        # await loop(...)  (recursive loop helper)
        if isinstance(v, ast.Call) and isinstance(v.func, ast.Name) and v.func.id in sc.coros:
            out = []
            for a in v.args:
                out += self.pts(a, sc)
            return out + self.inline_coro(sc.coros[v.func.id], sc, {})
        if isinstance(v, ast.Call) and _name(v.func) == "auto_await" and len(v.args) == 1:
            x = v.args[0]
            callee = _attr_call(x, "call")
            if callee is not None and ast.unparse(callee) == "context" and x.args:
                out = []
                target = x.args[0]
                for a in x.args[1:]:
                    out += self.pts(a, sc)
                caller = None
                for kw in x.keywords:
                    if kw.arg == "caller" and isinstance(kw.value, ast.Name) and kw.value.id in sc.macrovars:
                        caller = sc.macrovars[kw.value.id]
                    else:
                        out += self.pts(kw.value, sc)
                return out + self.call_target(target, sc, caller)
            if isinstance(x, ast.Call) and ast.unparse(x.func) in ("environment.getattr", "environment.getitem"):
                if (len(x.args) == 2 and isinstance(x.args[0], ast.Name) and isinstance(x.args[1], ast.Constant)
                        and x.args[1].value in PEEK_ATTRS and x.args[0].id in sc.filtered_loops):
                    raise Unmodelled("peeking loop attribute on a filtered loop")
                return self.pts(x, sc)
            # filter / test calls and anything else wrapped in auto_await: evaluate arguments only
            return self.pts(x, sc)
        if isinstance(v, ast.Attribute) and v.attr in PEEK_ATTRS:
            return self.pts(v.value, sc)
        raise Unmodelled(f"await of {ast.unparse(v)[:80]}")

    def call_target(self, target, sc, caller):
        """context.call(target, ...) awaited: what runs?"""
        t = _strip_undefined_guard(target)
        if isinstance(t, ast.Name):
            if t.id in sc.supervars:
                name = sc.supervars[t.id]
                st = self.block_stack(sc.ctx, name)
                if sc.tmpl in st and st.index(sc.tmpl) + 1 < len(st):
                    fn = self.need_top(sc.ctx, st[st.index(sc.tmpl) + 1], f"block_{name}")
                    return self.inline_rt("_async_call", sc, {"self._stack[self._depth]": fn})
                return [{"op": "raise"}]  # calling an undefined super
            if t.id in sc.macrovars:
                return self.inline_coro(sc.macrovars[t.id], sc, {"caller": caller})
            if t.id in sc.impmacros:
                tm, mname = sc.impmacros[t.id]
                return self.foreign_macro(tm, mname, sc, caller)
            if t.id.endswith("_loop") and "loop" in sc.coros:
                return self.inline_coro(sc.coros["loop"], sc, {})
            # a name resolved from the context: a top-level macro of this template (chain)?
            m = re.match(r"l_\d+_(\w+)$", t.id)
            if m:
                for tm in self.chain(sc.ctx):
                    self.scan_macros(tm)
                    if m.group(1) in self.macro_export[tm]:
                        return self.foreign_macro(tm, m.group(1), sc, caller)
            return [{"op": "pt", "k": "call"}]
        # (await auto_await(environment.getattr(X, 'name')))  -> self.block() or module.macro()
        if isinstance(t, ast.Await) and isinstance(t.value, ast.Call) and _name(t.value.func) == "auto_await":
            g = t.value.args[0]
            if isinstance(g, ast.Call) and ast.unparse(g.func) == "environment.getattr" and len(g.args) == 2 \
                    and isinstance(g.args[1], ast.Constant):
                obj = _strip_undefined_guard(g.args[0])
                attr = g.args[1].value
                if isinstance(obj, ast.Name):
                    if obj.id in sc.selfvars:
                        st = self.block_stack(sc.ctx, attr)
                        if not st:
                            return [{"op": "raise"}]
                        fn = self.need_top(sc.ctx, st[0], f"block_{attr}")
                        return self.inline_rt("_async_call", sc, {"self._stack[self._depth]": fn})
                    if obj.id in sc.modvars:
                        return self.foreign_macro(sc.modvars[obj.id], attr, sc, caller)
            return self.pts(t, sc) + [{"op": "pt", "k": "call"}]
        return self.pts(t, sc) + [{"op": "pt", "k": "call"}]

    def inline_coro(self, entry, sc, extra):
        qual, d, dsc = entry
        if sc.inline.count(id(d)) >= MAX_REC:
            return []  # recursion is cut at the depth of the data the harness uses
        inner = dsc.child(qual)
        inner.inline = sc.inline + [id(d)]
        self.anon += 1
        inner.vsuffix = f"@{self.anon}"
        caller = extra.get("caller")
        if caller is not None:
            for a in d.args.args:
                if a.arg.endswith("_caller"):
                    inner.macrovars[a.arg] = caller
        return [{"op": "coro", "body": self.body(d.body, inner)}]

    def foreign_macro(self, tmpl, mname, sc, caller):
        if tmpl not in self.templates:
            raise Unmodelled(f"unknown template {tmpl!r}")
        self.scan_macros(tmpl)
        e = self.macro_export[tmpl].get(mname)
        if e is None:
            return [{"op": "pt", "k": "call"}]
        inner = Scope(tmpl, tmpl, e[0], e[2])
        inner.inline = list(sc.inline)
        return self.inline_coro((e[0], e[1], inner), inner, {"caller": caller})

    def scan_macros(self, tmpl):
        if tmpl not in self.macro_export:
            self.macro_export[tmpl] = {}
            root = self.topfuncs[tmpl]["root"]
            saved = self.funcs
            self.funcs = dict(saved)  # a scan must not register functions
            try:
                self.body(root.body, Scope(tmpl, tmpl, "root"), record_macros=self.macro_export[tmpl])
            finally:
                self.funcs = saved

    # -- statements -----------------------------------------------------------
    def body(self, stmts, sc, record_macros=None):
        out = []
        for s in stmts:
            out += self.stmt(s, sc, record_macros)
        return out

    def stmt(self, s, sc, rec=None):
        if isinstance(s, ast.AsyncFunctionDef):
            qual = f"{sc.qual}.<locals>.{s.name}"
            if _has_yield(s):
                sc.gens[s.name] = (qual, s, sc.child())
            else:
                sc.coros[s.name] = (qual, s, sc)
            return []
        if isinstance(s, (ast.FunctionDef, ast.Pass, ast.Import, ast.ImportFrom, ast.Global, ast.Nonlocal)):
            return []
        if isinstance(s, ast.Expr):
            if isinstance(s.value, ast.Yield):
                return self.pts(s.value.value, sc) + [{"op": "yield"}]
            return self.pts(s.value, sc)
        if isinstance(s, (ast.Assign, ast.AnnAssign, ast.AugAssign)):
            return self.assign(s, sc, rec)
        if isinstance(s, ast.If):
            if isinstance(s.test, ast.Constant):
                return self.body(s.body if s.test.value else s.orelse, sc, rec)
            if ast.unparse(s.test) == "not self.environment.is_async":
                return self.body(s.orelse, sc, rec)  # configuration check: the environment under test is async
            pre = self.pts(s.test, sc)
            try:
                a = self.body(s.body, sc, rec)
            except DeadBranch:
                a = []
            try:
                b = self.body(s.orelse, sc, rec)
            except DeadBranch:
                b = []
            if a or b:
                pre.append({"op": "if", "a": a, "b": b})
            return pre
        if isinstance(s, ast.For):
            pre = self.pts(s.iter, sc)
            b = self.body(s.body, sc, rec)
            if s.orelse:
                raise Unmodelled("for-else in generated code")
            if b:
                pre.append({"op": "many", "body": b})
            return pre
        if isinstance(s, ast.AsyncFor):
            return self.async_for(s, sc, rec)
        if isinstance(s, ast.Try):
            return self.try_(s, sc, rec)
        if isinstance(s, ast.AsyncWith):
            fin = []
            pre = []
            for it in s.items:
                ce = it.context_expr
                if isinstance(ce, ast.Call) and _name(ce.func) == "aclosing" and len(ce.args) == 1 \
                        and isinstance(ce.args[0], ast.Name):
                    fin.append({"op": "aclose", "var": sc.v(ce.args[0].id)})
                else:
                    raise Unmodelled(f"async with {ast.unparse(ce)[:60]}")
            b = self.body(s.body, sc, rec)
            self.mark_guard(b, {f["var"] for f in fin})
            return pre + [{"op": "try", "body": b, "handlers": [], "fin": fin}]
        if isinstance(s, ast.Return):
            return self.pts(s.value, sc) + [{"op": "ret"}]
        if isinstance(s, ast.Raise):
            if s.exc is None:
                return [{"op": "reraise"}]
            return [{"op": "raise"}]
        if isinstance(s, ast.Break):
            return [{"op": "break"}]
        if isinstance(s, ast.Continue):
            return [{"op": "continue"}]
        if isinstance(s, ast.With):
            raise Unmodelled("with statement")
        raise Unmodelled(f"statement {type(s).__name__}")

    def assign(self, s, sc, rec):
        value = s.value
        targets = s.targets if isinstance(s, ast.Assign) else [s.target]
        names = [t.id for t in targets if isinstance(t, ast.Name)]
        if value is None:
            return []
        # X = Macro(environment, macro, 'name', ...)
        if isinstance(value, ast.Call) and _name(value.func) == "Macro" and len(value.args) >= 3 \
                and isinstance(value.args[1], ast.Name) and value.args[1].id in sc.coros:
            entry = sc.coros[value.args[1].id]
            entry = (entry[0], entry[1], sc.child())
            for nm in names:
                sc.macrovars[nm] = entry
            mname = value.args[2].value if isinstance(value.args[2], ast.Constant) else None
            if rec is not None and mname:
                rec[mname] = entry
            return []
        if isinstance(value, ast.Call) and ast.unparse(value.func) == "context.super" and value.args:
            for nm in names:
                sc.supervars[nm] = value.args[0].value
            return []
        if isinstance(value, ast.Call) and _name(value.func) == "TemplateReference":
            sc.selfvars.update(names)
            return []
        t = self.template_of(value, sc) if isinstance(value, ast.Call) else None
        if t is not None:
            for nm in names:
                sc.tmplvars[nm] = t
            return self.pts(value, sc)
        if isinstance(value, ast.Call) and ast.unparse(value.func) in (
                "environment.get_template", "environment.get_or_select_template", "environment.select_template"):
            if names != ["parent_template"]:
                raise Unmodelled("template chosen at run time")
            return self.pts(value, sc)
        if isinstance(value, ast.Await):
            for meth in ("_get_default_module_async", "make_module_async"):
                x = _attr_call(value.value, meth)
                if x is not None:
                    tm = self.template_of(x, sc)
                    for nm in names:
                        sc.modvars[nm] = tm
        if isinstance(value, ast.Call) and _name(value.func) == "getattr" and len(value.args) == 3 \
                and isinstance(value.args[0], ast.Name) and value.args[0].id in sc.modvars \
                and isinstance(value.args[1], ast.Constant):
            for nm in names:
                sc.impmacros[nm] = (sc.modvars[value.args[0].id], value.args[1].value)
            return []
        fn = self.gen_call(value, sc)
        if fn is not None:
            if len(names) != 1:
                raise Unmodelled("generator bound to a non-name")
            out = []
            for a in value.args:
                out += self.pts(a, sc)
            return out + [{"op": "open", "var": sc.v(names[0]), "fn": fn}]
        return self.pts(value, sc)

    def async_for(self, s, sc, rec):
        it = s.iter
        pre = []
        src = it
        # AsyncLoopContext(X, undefined, ...) iterates X
        if isinstance(it, ast.Call) and _name(it.func) == "AsyncLoopContext" and it.args:
            src = it.args[0]
            for a in it.args[1:]:
                pre += self.pts(a, sc)
        var = None
        g = False
        adapted = False
        if isinstance(it, ast.Call) and _name(it.func) == "AsyncLoopContext":
            adapted = self.loopctx_adapts
        if isinstance(src, ast.Call) and _name(src.func) == "auto_aiter" and len(src.args) == 1:
            adapted = True
        if isinstance(src, ast.Name) and not (src.id in ("reciter", "fiter") or src.id in sc.datanames):
            var = sc.v(src.id)
        else:
            fn = self.gen_call(src, sc)
            if fn is not None:
                for a in src.args:
                    pre += self.pts(a, sc)
                var = self.fresh()
                pre.append({"op": "open", "var": var, "fn": fn})
                # the loop variable of a filtered extended loop
                if isinstance(s.target, ast.Tuple):
                    for e in s.target.elts:
                        if isinstance(e, ast.Name) and e.id.endswith("_loop"):
                            sc.filtered_loops.add(e.id)
                self.sites.append({"fn": fn, "in": self.key(sc.ctx, sc.tmpl, sc.qual), "g": False, "how": "async for"})
        body = self.body(s.body, sc, rec)
        orelse = self.body(s.orelse, sc, rec)
        if var is not None:
            return pre + [{"op": "afor", "var": var, "body": body, "orelse": orelse, "g": g}]
        # a data iterable (adapted by auto_aiter / AsyncLoopContext, or iterated as it is)
        pre += self.pts(src, sc)
        return pre + self.data_loop(sc, body, orelse, adapted)

    def try_(self, s, sc, rec):
        # `include ... ignore missing` of a template that does not exist: the else branch never runs
        if any(ast.unparse(h.type) == "TemplateNotFound" for h in s.handlers if h.type is not None):
            for st in s.body:
                if isinstance(st, ast.Assign) and isinstance(st.value, ast.Call) \
                        and ast.unparse(st.value.func).startswith("environment.get") and st.value.args \
                        and isinstance(st.value.args[0], ast.Constant) and st.value.args[0].value not in self.templates:
                    return []
        body = self.body(s.body, sc, rec)
        handlers = []
        for h in s.handlers:
            tn = None if h.type is None else ast.unparse(h.type)
            if tn in (None, "BaseException"):
                catch = "BaseException"
            elif tn == "Exception":
                catch = "Exception"
            else:
                continue  # a specific class (KeyError, TemplateNotFound): not one of the modelled exceptions
            hb = []
            for st in h.body:
                calls = [c for c in ast.walk(st) if isinstance(c, ast.Call)
                         and isinstance(c.func, ast.Attribute) and c.func.attr == "handle_exception"]
                if calls:
                    hb.append({"op": "reraise"})  # handle_exception() re-raises (NoReturn)
                    break
                hb += self.stmt(st, sc, rec)
            handlers.append({"catch": catch, "body": hb})
        orelse = self.body(s.orelse, sc, rec)
        fin = self.body(s.finalbody, sc, rec)
        if not handlers and not fin:
            return body + orelse
        self.mark_guard(body, {f["var"] for f in fin if f["op"] == "aclose"})
        return [{"op": "try", "body": body + orelse, "handlers": handlers, "fin": fin}]

    def mark_guard(self, body, closed):
        """Derived flag (reported in evidence, cross-checked by TLC's invariant
        C36_GuardedNeverLeaks): an `async for` over variable v sits inside a
        try whose finally awaits v.aclose()."""
        for st in body:
            if st["op"] == "afor" and st["var"] in closed:
                st["g"] = True
            for k in ("body", "orelse", "a", "b", "fin"):
                if isinstance(st.get(k), list):
                    self.mark_guard(st[k], closed)
            for h in st.get("handlers", ()):
                self.mark_guard(h["body"], closed)

    # -- whole program ----------------------------------------------------------
    def program(self, main):
        root = self.need_top(main, main, "root")
        gen = self.need_rt("generate_async", main, root)
        # consumer of generate_async: iterate, may stop after any chunk, always acloses
        task_generate = [
            {"op": "open", "var": "ag", "fn": gen},
            {"op": "try", "handlers": [], "fin": [{"op": "aclose", "var": "ag"}],
             "body": [{"op": "afor", "var": "ag", "body": [{"op": "chunk"}], "orelse": [], "g": True}]},
        ]
        sc = Scope(main, main, "render_async")
        sc.bound["self.root_render_func"] = root
        task_render = self.body(self.rt["render_async"].body, sc)
        funcs = dict(self.funcs)
        funcs["task:generate"] = {"agen": False, "short": "task", "body": task_generate}
        funcs["task:render"] = {"agen": False, "short": "task", "body": task_render}
        return {"funcs": funcs}


def site_table(prog):
    """All generator open sites of an extracted program with their derived guard flag."""
    rows = []

    def walk2(owner, body, opened):
        for st in body:
            if st["op"] == "open":
                opened[st["var"]] = st["fn"]
            if st["op"] == "afor":
                rows.append({"in": owner, "fn": opened.get(st["var"], "?"), "guarded": st["g"]})
            for k in ("body", "orelse", "a", "b", "fin"):
                if isinstance(st.get(k), list):
                    walk2(owner, st[k], opened)
            for h in st.get("handlers", ()):
                walk2(owner, h["body"], opened)

    for k, f in prog["funcs"].items():
        walk2(k, f["body"], {})
    return rows


# ---------------------------------------------------------------------------
# real executions
# ---------------------------------------------------------------------------

class DataFault(Exception):
    """Raised by the harness' data functions when the driver injects a fault."""


class _Gate:
    __slots__ = ("n",)

    def __init__(self, n):
        self.n = n

    def __await__(self):
        r = yield ("gate", self.n)
        return r


class Runner:
    """One hand-driven task.  `plan` maps the ordinal of a gate suspension to
    'cancel' or 'fault'; `stop_after` = number of chunks after which the
    consumer of generate_async stops and acloses."""

    current = None

    def __init__(self, template, data, mode, plan=None, stop_after=None):
        self.template, self.mode = template, mode
        self.plan = plan or {}
        self.stop_after = stop_after
        self.reg = []
        self.events = []
        self.finalized = []
        self.gates = 0
        self.chunks = 0
        self.data = dict(data)   # extra render variables (the corpus keeps its data in env.globals)
        self.output = None

    def state(self, ag):
        if ag.ag_frame is None:
            return "closed"
        return "run" if ag.ag_running else "susp"

    def short(self, ag):
        c = ag.ag_code
        fn = c.co_filename
        if fn.replace("\\", "/").endswith("jinja2/environment.py"):
            return "env:" + c.co_qualname.split(".")[-1]
        if fn in self.tnames:
            return f"{fn}:{c.co_qualname}"
        if fn.replace("\\", "/").endswith("jinja2/async_utils.py"):
            return "rt:" + c.co_qualname.split(".")[-1]   # a generator of the loop-data adapter (auto_aiter)
        return None

    def snap(self):
        out = []
        for ag in self.reg:
            s = self.short(ag)
            if s is not None:
                out.append([s, self.state(ag)])
        return out

    def others(self):
        """Async generators that are not part of the modelled structure: (origin, name, state).
        origin 'engine' = jinja2's own code outside filters.py (e.g. async_utils, runtime): created for
        the render, judged like the template's generators; 'filter' = jinja2/filters.py; 'user' = data."""
        out = []
        for ag in self.reg:
            if self.short(ag) is not None:
                continue
            fn = ag.ag_code.co_filename.replace("\\", "/")
            name = fn.rsplit("/", 1)[-1] + ":" + ag.ag_code.co_qualname
            if "/jinja2/" in fn:
                origin = "filter" if fn.endswith("/filters.py") else "engine"
            else:
                origin = "user"
            out.append((origin, name, self.state(ag)))
        return out

    async def _consume(self):
        ag = self.template.generate_async(**self.data)
        pieces = []
        try:
            async for c in ag:
                pieces.append(c)
                self.chunks += 1
                act = "close" if self.stop_after == self.chunks else "next"
                self.events.append({"k": "chunk", "snap": self.snap(), "act": act})
                if act == "close":
                    break
        finally:
            await ag.aclose()
        return "".join(pieces)

    def run(self, tnames):
        self.tnames = tnames
        coro = self._consume() if self.mode == "generate" else self.template.render_async(**self.data)
        old = sys.get_asyncgen_hooks()
        sys.set_asyncgen_hooks(firstiter=self.reg.append, finalizer=self.finalized.append)
        how = "complete"
        send = None
        throw = None
        caught = []
        try:
            with warnings.catch_warnings(record=True) as caught:
                warnings.simplefilter("always")
                while True:
                    try:
                        if throw is not None:
                            y = coro.throw(throw)
                        else:
                            y = coro.send(send)
                    except StopIteration as e:
                        self.output = e.value
                        break
                    except asyncio.CancelledError:
                        break
                    except DataFault:
                        break
                    except BaseException as e:  # template-level error
                        how = "raise" if how == "complete" else how
                        self.error = repr(e)
                        break
                    send = throw = None
                    self.gates += 1
                    act = self.plan.get(self.gates, "resume")
                    self.events.append({"k": "gate", "snap": self.snap(), "act": act})
                    if act == "cancel":
                        throw = asyncio.CancelledError()
                        how = "cancel"
                    elif act == "fault":
                        send = "fault"
                        how = "fault"
                if self.mode == "generate" and self.stop_after is not None and self.chunks >= self.stop_after \
                        and how == "complete":
                    how = "close"
                self.how = how
                final = self.snap()
                self.events.append({"k": "done", "snap": final, "act": "", "how": how})
                self.final = final
                self.other_final = self.others()
                self.finalizer_fired_before_end = len(self.finalized)
                # cleanup outside the verdict: close what is still open so nothing leaks into the next run
                leftovers = [ag for ag in self.reg if ag.ag_frame is not None]
                for ag in leftovers:
                    try:
                        c = ag.aclose()
                        c.send(None)
                    except (StopIteration, StopAsyncIteration, RuntimeError, GeneratorExit):
                        pass
                    except BaseException:
                        pass
                del coro
                self.reg_count = len(self.reg)
                self.reg = []
                gc.collect()
        finally:
            sys.set_asyncgen_hooks(*old)
        self.warnings = [f"{w.category.__name__}: {w.message}" for w in caught
                         if issubclass(w.category, (RuntimeWarning, ResourceWarning))]
        return self
